#!/usr/bin/env python3
"""Single source of truth for MANIFEST.json (run after adding/removing checks)."""
import json
HOOK_COMMITS = ["8d9af6b", "6fa7206"]
ENGINE = {"name": "vcheck", "path": "harness/vcheck", "kind_free_text": "Rust harness linking the real compiler crates built from /repo's working tree (--cfg sylt_verif): typed program generator, reference interpreter, surface printers, monitors; cases sharded over up to 16 worker processes with a per-case journal"}
LUAMON = {"name": "luamon", "path": "harness/luamon", "kind_free_text": "instrumented Lua 5.3-subset interpreter written for this task (there is no Lua in the sandbox): runs the emitted Lua, records prints/outcome classes and monitor events"}
C = {}
def chk(pid, cat, text, note, tech, design):
    C[pid] = {"property_id": pid, "quick_cmd": f"./check {pid} quick", "thorough_cmd": f"./check {pid} thorough",
              "evidence_file": f"evidence/{pid}.json", "replay_cmd_template": f"./check replay {pid} {{path}}", "engine": "vcheck",
              "level_claimed": {"category": cat, "text": text, "design_ref": design}, "level_note": note, "technique": tech}
TRACE_NOTE = "Trusted: luamon (Lua 5.3 model written for this task, calibrated by ~500 conformance snippets and preamble tests), the reference interpreter and generator (same author). Programs leaving the documented domain (overflow, NaN, order-sensitive statements, budgets) are skipped and counted."
chk("C01", "exploration", "Generated typed programs covering every construct the statement lists are compiled by the real compiler; the emitted Lua is executed under luamon with monitors (uninitialised reads, temp interference, coercions, missing fields) and its print trace and terminal outcome are compared with an independent reference interpreter of the source. Tens of thousands of programs per quick run.", TRACE_NOTE, "runtime monitor: trace comparison against an executable reference model + instrumented Lua runtime", "DESIGN.md §3 C01")
chk("C10", "exploration", "Recursion- and closure-dense generated programs run under luamon with the shadow monitor for free V-names (a read that sees another activation's write), live-across-call counters and a census of free temporaries written in function bodies; traces are compared with the reference interpreter.", TRACE_NOTE, "runtime monitor: shadow-state interference monitor + trace comparison on re-entrant workloads", "DESIGN.md §3 C10")
chk("C06", "exploration", "Template programs whose lexical slots (field names incl. Lua-only keywords, string and number literals, every expression kind as an unused statement, dead code after ret/break/continue, 8 size ladders) are filled from hostile pools are compiled; every accepted one is loaded by luamon's lparser-shaped load phase (syntax, return-not-last, break-outside-loop, goto rules, limits with grey zones). C01/C10 additionally load-check every generated program.", "Trusted: luamon's load phase as a model of Lua 5.3 load-time rules; grey zones give no verdict. Open findings KF-C06-string-escapes and KF-C06-lua-limits are quarantined to their hazard pools/rungs.", "runtime monitor: load-phase oracle of the instrumented Lua runtime over hostile lexical pools and size ladders", "DESIGN.md §3 C06")
REL_TRACE_NOTE = "Trusted: luamon (Lua 5.3 model); the renderings are produced by the harness printer from one abstract program; a case where some rendering has no verdict (budget, grey zone) is discarded."
chk("C11", "exploration", "Generated programs extended with definitions covering every dependency kind are rendered in 7 top-level orders; acceptance, print trace, outcome and uninitialised-read monitor events under luamon must be identical; programs with cyclic initialisers must be rejected in every order tried.", REL_TRACE_NOTE, "runtime monitor: relational trace oracle over permutations + uninitialised-read monitor in the instrumented Lua runtime", "DESIGN.md §3 C11")
chk("C12", "exploration", "A generated program is run as one file and as random projects of 2-5 files in up to 3 directory levels, every cross-file reference independently using use / use as / from use / from use as with relative or rooted paths (cycles arise naturally); traces must equal the single-file run, every path is read once, and removing a needed import must cause rejection. A hand-written scenario covers exports.sy folders, chained namespaces, alias+plain import and cross-file assignment.", REL_TRACE_NOTE, "runtime monitor: relational trace oracle (single-file vs multi-file renderings), reader-call counter, negative import variants", "DESIGN.md §3 C12")
chk("C07", "exploration", "Random token sequences, mutated corpus files and generated programs, near-valid programs, multi-file projects (missing/cyclic imports) are compiled with every error rendered (Display+Debug) under catch_unwind and a logical fuel; panics are signatures by source location, fuel exhaustion is the bounded-progress restatement of 'never loops forever'.", "Trusted: fuel ticks cover the loops that drive the compiler (hook). Native stack overflow would kill a worker and be attributed by the journal. Open finding KF-C07-typechecker-blowup is quarantined to generated-program families.", "runtime monitor: panic/abort/fuel monitor around the real compiler over hostile inputs", "DESIGN.md §3 C07")
chk("C16", "exploration", "Valid and multi-error invalid projects are compiled 8x in-process (fresh hash seeds) and in fresh processes with different environment/cwd; Lua bytes or the rendered ordered error list must be identical.", "Trusted: ANSI colour codes are stripped (environment-controlled by design).", "runtime monitor: repeated-execution determinism oracle (in-process and cross-process)", "DESIGN.md §3 C16")
PLANT_NOTE = "Trusted: each planted kind is a definite violation by the property's own enumeration (literal operands); the unplanted base is confirmed accepted first."
PLANT_TECH = "runtime monitor: fault planting into generated accepted programs; oracle on the compile result (Err, >=1 error, 0 bytes of Lua)"
chk("C03", "exploration", "One definite type mismatch (41 kinds from the statement's enumeration) is planted at a random site and in a random embedding form into an accepted generated program; every variant must be rejected with an error and no Lua. Tens of thousands of plants per run over a kind x position-class x form matrix.", PLANT_NOTE, PLANT_TECH, "DESIGN.md §3 C03")
chk("C04", "exploration", "Assignments to constants/parameters/case bindings, impure constructs inside pu functions at nesting depth 0-3 (through if/else/loop/block/case arm/fn and pu closures) and impure functions in pu-typed slots are planted into accepted generated programs; every variant must be rejected.", PLANT_NOTE, PLANT_TECH, "DESIGN.md §3 C04")
chk("C05", "exploration", "Blob/enum/tuple/externblob shape violations, break/continue outside a loop of the same function (site-dependent) and malformed entry points are planted into accepted generated programs; every variant must be rejected; accepted bases are additionally load-checked under luamon.", PLANT_NOTE, PLANT_TECH, "DESIGN.md §3 C05")
chk("C08", "exploration",
    "Each generated typed program is compiled in 8 renderings that differ only in which correct annotations are written; acceptance and emitted bytes are compared. Thousands of programs per run; violations are replayable from (seed, case).",
    "Trusted: the generator's typing (which annotations are correct); a program rejected in all variants is discarded. Open finding KF-C08-unannotated-callee is quarantined to hazard cases.",
    "runtime monitor: metamorphic/relational oracle on compile results (byte equality) over generated programs", "DESIGN.md §3 C08")
chk("C09", "exploration",
    "Generated binder-dense programs are compiled under 4 consistent namings (distinct, two maximal-shadowing colourings from an independent scope analysis, long names) and must give identical bytes; planted out-of-scope uses must be rejected.",
    "Trusted: the harness's own lexical scope analysis; externals/fields/variants/types are not renamed.",
    "runtime monitor: relational oracle (alpha-renaming) + planted scope violations", "DESIGN.md §3 C09")
chk("C13", "exploration",
    "All operator trees up to a size bound (exhaustive) and random deeper trees are printed with minimal and full parentheses; the real parser's public ASTs are compared modulo spans/Parenthesis nodes; typed trees are also compiled (byte equality) and executed under luamon against the tree's own value.",
    "Trusted: the printer's table (taken from the property text; parentheses are written where the table is silent), luamon for values.",
    "runtime monitor: differential oracle on parse trees (bounded exhaustive + random) and executed values", "DESIGN.md §3 C13")
chk("C14", "exploration",
    "Each generated program is compiled in 7 renderings differing only in call/return/loop sugar and layout; emitted bytes (line number of <!> masked) must agree.",
    "Trusted: conservative eligibility rules for prime/arrow calls in the harness printer.",
    "runtime monitor: metamorphic/relational oracle on compile results over generated programs", "DESIGN.md §3 C14")
chk("C17", "exploration",
    "The real tokenizer is run on every string up to a length bound over alphabets covering all token families (bounded part exhaustive) plus keyword families and random texts; each token list is checked by an independent maximal-munch lexer and an independent line index.",
    "Trusted: the hand-written reference lexer (from the token table), ASCII-digit reading of \\d; error-token extents not checked.",
    "runtime monitor: differential oracle (independent lexer + line index) over exhaustive/random inputs", "DESIGN.md §3 C17")
import sys
props = [json.loads(l)["id"] for l in open("/verif/properties.jsonl")]
pending = {p: "check not built yet (work in progress; see DESIGN.md §3 for the planned monitor)" for p in props if p not in C}
m = {"version": 1, "setup_cmd": "./check build",
     "hooks": {"guard": "--cfg sylt_verif", "enable": "RUSTFLAGS=\"--cfg sylt_verif\" on the harness build (path dependencies on the /repo crates inherit it); see ./check",
               "baseline_off_cmd": "cd /repo && cargo test --workspace --no-fail-fast --offline", "source_commits": HOOK_COMMITS, "add_only": True},
     "engines": [dict(ENGINE, serves_properties=sorted(C)), dict(LUAMON, serves_properties=[])],
     "checks": [C[k] for k in sorted(C)],
     "not_applicable": [{"property_id": p, "reason": r} for p, r in sorted(pending.items())],
     "notes": "Exit codes of ./check: 0 held, 1 violation (VIOLATION line), 2 inconclusive/build failure. VERIF_SEED, VERIF_SCALE, VERIF_JOBS are honoured. Known findings: known_findings.json."}
json.dump(m, open("/verif/MANIFEST.json", "w"), indent=1)
print("claimed", sorted(C), "pending", sorted(pending))
