//! C19 — composite values compare, order and combine structurally.
//! Operators are applied inside compiled programs to generated values of nested
//! composite types; every printed result is compared with the structural
//! definition, and algebraic laws are checked on the implementation's own answers.
use crate::fw::*;
use crate::json::J;
use crate::lua::{self, Loaded};
use crate::rel::compile_budgeted;
use crate::rng::{hash64, Rng};
use crate::sy::{self, Compiled};

pub struct C19;

#[derive(Clone, Debug, PartialEq)]
enum V {
    I(i64),
    F(f64),
    S(String),
    B(bool),
    T(Vec<V>),
    L(Vec<V>),
    Blob(&'static str, Vec<(&'static str, V)>),
    Var(&'static str, &'static str, Option<Box<V>>), // enum name, variant, payload
}

#[derive(Clone, Debug, PartialEq)]
enum Ty {
    I,
    F,
    S,
    B,
    T(Vec<Ty>),
    L(Box<Ty>),
    Blob(usize),
    En,
    MaybeI,
}

const DECLS: &str = "Cb0 :: blob {\n    a: int,\n    b: str,\n}\n\nCb1 :: blob {\n    flag: bool,\n    n: int,\n    xs: [int],\n}\n\nCb2 :: blob {\n    p: (int, str),\n    inner: Cb0,\n}\n\nCe :: enum\n    A int,\n    B,\n    C (int, str),\nend\n\nzl19 :: [4, 5]\n\nzce19 :: Ce.B\n\nzcn19: Maybe(int) : Maybe.None\n\n";

fn lit(v: &V) -> String {
    match v {
        V::I(i) => {
            if *i < 0 {
                format!("(-{})", -(*i as i128))
            } else {
                i.to_string()
            }
        }
        V::F(f) => {
            let t = format!("{:?}", f.abs());
            if *f < 0.0 || (f.is_sign_negative() && *f == 0.0) {
                format!("(-{})", t)
            } else {
                t
            }
        }
        V::S(s) => format!("\"{}\"", s),
        V::B(b) => b.to_string(),
        V::T(xs) => {
            if xs.len() == 1 {
                format!("({},)", lit(&xs[0]))
            } else {
                format!("({})", xs.iter().map(lit).collect::<Vec<_>>().join(", "))
            }
        }
        V::L(xs) => format!("[{}]", xs.iter().map(lit).collect::<Vec<_>>().join(", ")),
        V::Blob(n, fs) => format!("{} {{ {} }}", n, fs.iter().map(|(k, v)| format!("{}: {}", k, lit(v))).collect::<Vec<_>>().join(", ")),
        V::Var(e, n, p) => match p {
            Some(p) => format!("({}.{} {})", e, n, lit(p)),
            None => format!("{}.{}", e, n),
        },
    }
}

fn show(v: &V) -> String {
    match v {
        V::I(i) => i.to_string(),
        V::F(f) => lua::fmt_float(*f),
        V::S(s) => s.clone(),
        V::B(b) => b.to_string(),
        V::T(xs) => {
            let mut s = format!("({}", xs.iter().map(show).collect::<Vec<_>>().join(", "));
            if xs.len() == 1 {
                s.push(',');
            }
            s.push(')');
            s
        }
        V::L(xs) => format!("[{}]", xs.iter().map(show).collect::<Vec<_>>().join(", ")),
        V::Blob(..) => "<blob>".into(),
        V::Var(_, n, p) => match p {
            Some(p) => format!("{} {}", n, show(p)),
            None => format!("{} nil", n),
        },
    }
}

fn cmp(a: &V, b: &V) -> Option<std::cmp::Ordering> {
    use std::cmp::Ordering::*;
    match (a, b) {
        (V::I(x), V::I(y)) => Some(x.cmp(y)),
        (V::F(x), V::F(y)) => x.partial_cmp(y),
        (V::S(x), V::S(y)) => Some(x.as_bytes().cmp(y.as_bytes())),
        (V::T(x), V::T(y)) if x.len() == y.len() => {
            for (p, q) in x.iter().zip(y.iter()) {
                match cmp(p, q)? {
                    Equal => {}
                    o => return Some(o),
                }
            }
            Some(Equal)
        }
        _ => None,
    }
}

fn arith(op: char, a: &V, b: &V) -> Option<V> {
    match (a, b) {
        (V::I(x), V::I(y)) => Some(match op {
            '+' => V::I(x.checked_add(*y)?),
            '-' => V::I(x.checked_sub(*y)?),
            '*' => V::I(x.checked_mul(*y)?),
            _ => {
                let f = *x as f64 / *y as f64;
                if !f.is_finite() {
                    return None;
                }
                V::F(f)
            }
        }),
        (V::F(x), V::F(y)) => {
            let f = match op {
                '+' => x + y,
                '-' => x - y,
                '*' => x * y,
                _ => x / y,
            };
            if !f.is_finite() {
                return None;
            }
            Some(V::F(f))
        }
        (V::S(x), V::S(y)) if op == '+' => Some(V::S(format!("{}{}", x, y))),
        (V::T(x), V::T(y)) if x.len() == y.len() => {
            let mut out = Vec::new();
            for (p, q) in x.iter().zip(y.iter()) {
                out.push(arith(op, p, q)?);
            }
            Some(V::T(out))
        }
        (V::T(x), n @ (V::I(_) | V::F(_))) if op == '/' => {
            let mut out = Vec::new();
            for p in x.iter() {
                out.push(arith(op, p, n)?);
            }
            Some(V::T(out))
        }
        _ => None,
    }
}

fn orderable(t: &Ty) -> bool {
    match t {
        Ty::I | Ty::F | Ty::S => true,
        Ty::T(ts) => !ts.is_empty() && ts.iter().all(orderable),
        _ => false,
    }
}
/// `+` is defined element-wise on every tuple of ints, floats and strings
fn addable(t: &Ty) -> bool {
    match t {
        Ty::I | Ty::F | Ty::S => true,
        Ty::T(ts) => !ts.is_empty() && ts.iter().all(addable),
        _ => false,
    }
}
fn has_str(t: &Ty) -> bool {
    match t {
        Ty::S => true,
        Ty::T(ts) => ts.iter().any(has_str),
        _ => false,
    }
}
fn numeric(t: &Ty) -> bool {
    match t {
        Ty::I | Ty::F => true,
        Ty::T(ts) => !ts.is_empty() && ts.iter().all(numeric) && homogeneous_leaf(t).is_some(),
        _ => false,
    }
}
/// leaf type of a numeric tuple when all leaves are the same (int with int, float with float)
fn homogeneous_leaf(t: &Ty) -> Option<Ty> {
    match t {
        Ty::I | Ty::F => Some(t.clone()),
        Ty::T(ts) => {
            let mut it = ts.iter().map(homogeneous_leaf);
            let first = it.next()??;
            for x in it {
                if x? != first {
                    return None;
                }
            }
            Some(first)
        }
        _ => None,
    }
}

fn gen_ty(rng: &mut Rng, depth: u32) -> Ty {
    if depth == 0 {
        return match rng.below(4) {
            0 => Ty::I,
            1 => Ty::F,
            2 => Ty::S,
            _ => Ty::B,
        };
    }
    match rng.below(10) {
        0 | 1 | 2 | 3 => {
            // 1 to 6 components (a runtime may treat small arities specially)
            let n = [1usize, 1, 2, 2, 3, 3, 4, 5, 6][rng.below(9)];
            Ty::T((0..n).map(|_| gen_ty(rng, depth - 1)).collect())
        }
        4 => {
            // numeric tuples (for arithmetic)
            let leaf = if rng.chance(1, 2) { Ty::I } else { Ty::F };
            let n = 1 + rng.below(6);
            Ty::T((0..n).map(|_| if depth > 1 && rng.chance(1, 4) { Ty::T(vec![leaf.clone(), leaf.clone()]) } else { leaf.clone() }).collect())
        }
        5 | 6 => Ty::L(Box::new(gen_ty(rng, depth - 1))),
        7 => Ty::Blob(rng.below(3)),
        8 => Ty::En,
        _ => {
            if rng.chance(1, 2) {
                Ty::MaybeI
            } else {
                Ty::T(vec![])
            }
        }
    }
}

fn gen_val(rng: &mut Rng, t: &Ty) -> V {
    match t {
        Ty::I => V::I(*rng.pick(&[0i64, 1, 2, 3, -1, -7, 10, 255, 4294967296, -4294967296])),
        Ty::F => V::F(*rng.pick(&[0.0f64, 0.5, 1.0, 1.5, -2.25, 2.0, 100.5, 0.1, 1e15, -0.5])),
        Ty::S => V::S(rng.pick(&["", "a", "b", "ab", "abc", "B", "10", "9", "äö", "a b"]).to_string()),
        Ty::B => V::B(rng.chance(1, 2)),
        Ty::T(ts) => V::T(ts.iter().map(|t| gen_val(rng, t)).collect()),
        Ty::L(t) => {
            let n = rng.below(4);
            V::L((0..n).map(|_| gen_val(rng, t)).collect())
        }
        Ty::Blob(0) => V::Blob("Cb0", vec![("a", gen_val(rng, &Ty::I)), ("b", gen_val(rng, &Ty::S))]),
        Ty::Blob(1) => V::Blob("Cb1", vec![("flag", gen_val(rng, &Ty::B)), ("n", gen_val(rng, &Ty::I)), ("xs", gen_val(rng, &Ty::L(Box::new(Ty::I))))]),
        Ty::Blob(_) => V::Blob("Cb2", vec![("p", gen_val(rng, &Ty::T(vec![Ty::I, Ty::S]))), ("inner", gen_val(rng, &Ty::Blob(0)))]),
        Ty::En => match rng.below(3) {
            0 => V::Var("Ce", "A", Some(Box::new(gen_val(rng, &Ty::I)))),
            1 => V::Var("Ce", "B", None),
            _ => V::Var("Ce", "C", Some(Box::new(gen_val(rng, &Ty::T(vec![Ty::I, Ty::S]))))),
        },
        Ty::MaybeI => {
            if rng.chance(2, 3) {
                V::Var("Maybe", "Just", Some(Box::new(gen_val(rng, &Ty::I))))
            } else {
                V::Var("Maybe", "None", None)
            }
        }
    }
}

/// pool: a value, an equal copy built separately, neighbours differing in the last / first leaf, plus random ones
fn pool(rng: &mut Rng, t: &Ty) -> Vec<V> {
    let base = gen_val(rng, t);
    let mut out = vec![base.clone(), base.clone()];
    for _ in 0..3 {
        out.push(gen_val(rng, t));
    }
    // mutate the last leaf of the base
    fn bump_last(v: &mut V) -> bool {
        match v {
            V::I(i) => {
                *i += 1;
                true
            }
            V::F(f) => {
                *f += 0.5;
                true
            }
            V::S(s) => {
                s.push('z');
                true
            }
            V::B(b) => {
                *b = !*b;
                true
            }
            V::T(xs) | V::L(xs) => xs.iter_mut().rev().any(bump_last),
            V::Blob(_, fs) => fs.iter_mut().rev().any(|(_, v)| bump_last(v)),
            V::Var(_, _, Some(p)) => bump_last(p),
            V::Var(..) => false,
        }
    }
    let mut b2 = base.clone();
    if bump_last(&mut b2) {
        out.push(b2);
    }
    // a list one element longer (prefix-equal)
    if let V::L(xs) = &base {
        if let Some(x) = xs.first() {
            let mut l = xs.clone();
            l.push(x.clone());
            out.push(V::L(l));
        }
    }
    out.truncate(6);
    out
}

struct Line {
    expr: String,
    expect: Option<String>, // None: only recorded (laws)
    key: (usize, usize, &'static str),
}

impl Check for C19 {
    fn id(&self) -> &'static str {
        "C19"
    }
    fn plan(&self, ctx: &Ctx) -> u64 {
        scaled(ctx, 3_000, 80_000)
    }
    fn run_case(&self, ctx: &Ctx, index: u64, st: &mut Stats) {
        let mut rng = Rng::for_case(ctx.seed, "C19", index);
        let depth = 1 + (index % 3) as u32;
        let t = gen_ty(&mut rng, depth);
        let vals = pool(&mut rng, &t);
        let n = vals.len();
        // values are globals and the prints are spread over small functions: every variable read
        // costs a Lua local and a function may only have 200 of them
        let mut src = String::from(DECLS);
        for (i, v) in vals.iter().enumerate() {
            src.push_str(&format!("v{} :: {}\n", i, lit(v)));
        }
        let mut lines: Vec<Line> = Vec::new();
        let ord = orderable(&t);
        let num = numeric(&t);
        for i in 0..n {
            for j in 0..n {
                let (a, b) = (&vals[i], &vals[j]);
                lines.push(Line { expr: format!("v{} == v{}", i, j), expect: Some((a == b).to_string()), key: (i, j, "==") });
                lines.push(Line { expr: format!("v{} != v{}", i, j), expect: Some((a != b).to_string()), key: (i, j, "!=") });
                if ord {
                    if let Some(o) = cmp(a, b) {
                        use std::cmp::Ordering::*;
                        lines.push(Line { expr: format!("v{} < v{}", i, j), expect: Some((o == Less).to_string()), key: (i, j, "<") });
                        lines.push(Line { expr: format!("v{} <= v{}", i, j), expect: Some((o != Greater).to_string()), key: (i, j, "<=") });
                        lines.push(Line { expr: format!("v{} > v{}", i, j), expect: Some((o == Greater).to_string()), key: (i, j, ">") });
                        lines.push(Line { expr: format!("v{} >= v{}", i, j), expect: Some((o != Less).to_string()), key: (i, j, ">=") });
                    }
                }
                // the same comparisons with one operand written as a literal (a compiler may treat a
                // syntactically constant operand differently, e.g. mirror the comparison)
                if i == j || i == j + 1 || j == i + 1 {
                    let (la, lb) = (lit(a), lit(b));
                    lines.push(Line { expr: format!("{} == v{}", la, j), expect: Some((a == b).to_string()), key: (i, j, "lit==") });
                    lines.push(Line { expr: format!("v{} != {}", i, lb), expect: Some((a != b).to_string()), key: (i, j, "!=lit") });
                    // ... and with both operands written as literals (nothing is left to look up at run time)
                    lines.push(Line { expr: format!("{} == {}", la, lb), expect: Some((a == b).to_string()), key: (i, j, "lit==lit") });
                    lines.push(Line { expr: format!("{} != {}", la, lb), expect: Some((a != b).to_string()), key: (i, j, "lit!=lit") });
                    if ord {
                        if let Some(o) = cmp(a, b) {
                            use std::cmp::Ordering::*;
                            lines.push(Line { expr: format!("{} < {}", la, lb), expect: Some((o == Less).to_string()), key: (i, j, "lit<lit") });
                            lines.push(Line { expr: format!("{} >= {}", la, lb), expect: Some((o != Less).to_string()), key: (i, j, "lit>=lit") });
                        }
                    }
                    if ord {
                        if let Some(o) = cmp(a, b) {
                            use std::cmp::Ordering::*;
                            lines.push(Line { expr: format!("{} < v{}", la, j), expect: Some((o == Less).to_string()), key: (i, j, "lit<") });
                            lines.push(Line { expr: format!("{} <= v{}", la, j), expect: Some((o != Greater).to_string()), key: (i, j, "lit<=") });
                            lines.push(Line { expr: format!("{} > v{}", la, j), expect: Some((o == Greater).to_string()), key: (i, j, "lit>") });
                            lines.push(Line { expr: format!("{} >= v{}", la, j), expect: Some((o != Less).to_string()), key: (i, j, "lit>=") });
                            lines.push(Line { expr: format!("v{} < {}", i, lb), expect: Some((o == Less).to_string()), key: (i, j, "<lit") });
                            lines.push(Line { expr: format!("v{} <= {}", i, lb), expect: Some((o != Greater).to_string()), key: (i, j, "<=lit") });
                            lines.push(Line { expr: format!("v{} > {}", i, lb), expect: Some((o == Greater).to_string()), key: (i, j, ">lit") });
                            lines.push(Line { expr: format!("v{} >= {}", i, lb), expect: Some((o != Less).to_string()), key: (i, j, ">=lit") });
                        }
                    }
                }
                if (num || addable(&t)) && i <= j + 1 {
                    for op in ['+', '-', '*', '/'] {
                        // strings (also as tuple elements) only concatenate; tuples mixing int and
                        // float elements are not divided (the element results would change type)
                        if has_str(&t) && op != '+' {
                            continue;
                        }
                        if !num && op == '/' {
                            continue;
                        }
                        if let Some(r) = arith(op, a, b) {
                            let name: &'static str = match op {
                                '+' => "+",
                                '-' => "-",
                                '*' => "*",
                                _ => "/",
                            };
                            lines.push(Line { expr: format!("v{} {} v{}", i, op, j), expect: Some(show(&r)), key: (i, j, name) });
                            // printing rounds floats to 14 digits: the exact value is checked inside the program
                            if let Some(l) = exact_lit(&r) {
                                lines.push(Line { expr: format!("(v{} {} v{}) == {}", i, op, j, l), expect: Some("true".into()), key: (i, j, "exact") });
                            } else if !has_float_value(&r) {
                                // the result is used again: compared with the same value written as a literal (both ways round)
                                lines.push(Line { expr: format!("(v{} {} v{}) == {}", i, op, j, lit(&r)), expect: Some("true".into()), key: (i, j, "result==lit") });
                                lines.push(Line { expr: format!("{} != (v{} {} v{})", lit(&r), i, op, j), expect: Some("false".into()), key: (i, j, "lit!=result") });
                            }
                        }
                    }
                }
            }
            // tuple / number
            if let (true, Ty::T(_)) = (num, &t) {
                // divisors that are not powers of two (a reciprocal-multiplication shortcut is not exact for them)
                for dk in [3i64, 7, 49, 2] {
                    let d = if homogeneous_leaf(&t) == Some(Ty::I) { V::I(dk) } else { V::F(dk as f64) };
                    if let Some(r) = arith('/', &vals[i], &d) {
                        lines.push(Line { expr: format!("v{} / {}", i, lit(&d)), expect: Some(show(&r)), key: (i, dk as usize, "/n") });
                        if let Some(l) = exact_lit(&r) {
                            lines.push(Line { expr: format!("(v{} / {}) == {}", i, lit(&d), l), expect: Some("true".into()), key: (i, dk as usize, "exact/n") });
                        }
                    }
                }
            }
        }
        // values of one enum type that come from different producers are equal when they denote the same
        // variant: a payload-less variant written in source, the same variant held in a variable, and the
        // absent / present results of library functions
        if n >= 2 {
            let fixed: &[(&str, &str)] = &[
                ("list.get(zl19, 9) == Maybe.None", "true"),
                ("Maybe.None == list.get(zl19, 9)", "true"),
                ("list.get(zl19, 9) != Maybe.None", "false"),
                ("list.get(zl19, 0) == (Maybe.Just 4)", "true"),
                ("(Maybe.Just 4) == list.get(zl19, 0)", "true"),
                ("list.get(zl19, 0) == Maybe.None", "false"),
                ("list.find(zl19, pu x -> x > 100 end) == Maybe.None", "true"),
                ("zce19 == Ce.B", "true"),
                ("Ce.B == zce19", "true"),
                ("zce19 != Ce.B", "false"),
                ("zce19 == (Ce.A 1)", "false"),
                ("zcn19 == Maybe.None", "true"),
                ("Maybe.None == zcn19", "true"),
            ];
            for (k, (e, want)) in fixed.iter().enumerate() {
                lines.push(Line { expr: e.to_string(), expect: Some(want.to_string()), key: (0, k % n, "producers") });
            }
        }
        let chunks: Vec<&[Line]> = lines.chunks(20).collect();
        for (k, ch) in chunks.iter().enumerate() {
            src.push_str(&format!("\npart{} :: fn do\n", k));
            for l in ch.iter() {
                src.push_str(&format!("    print({})\n", l.expr));
            }
            src.push_str("end\n");
        }
        src.push_str("\nstart :: fn do\n");
        for k in 0..chunks.len() {
            src.push_str(&format!("    part{}()\n", k));
        }
        src.push_str("end\n");
        st.count("programs");
        st.count(&format!("type_depth:{}", depth));
        let kind = match &t {
            Ty::T(_) => "tuple",
            Ty::L(_) => "list",
            Ty::Blob(_) => "blob",
            Ty::En | Ty::MaybeI => "enum",
            _ => "scalar",
        };
        st.count(&format!("type_kind:{}", kind));
        let viol = |sig: String, extra: J| Violation { signature: sig, hazard: None, case: index, detail: J::obj().with("type", J::s(format!("{:?}", t))).with("source", J::s(src.clone())).with("observed", extra) };
        // these programs are long lists of operator applications on large literals: a larger logical budget
        // than the campaign default (the type checker's cost is super-linear in them)
        let lua_text = match sy::compile_files(&sy::one_file(&src), "main.sy", &sy::CompileOpts { fuel: Some(12_000_000), ..Default::default() }) {
            Compiled::Ok(b) => String::from_utf8_lossy(&b).to_string(),
            Compiled::Fuel => {
                st.count("discarded_compile_budget");
                return;
            }
            Compiled::Err { errors, .. } => {
                // the generator only builds operator applications the property defines on these types (and the
                // unchanged tree accepts every one of them): a rejection says the operator is NOT defined there
                st.count("rejected_by_compiler");
                let first = errors.first().map(|e| e.display.clone()).unwrap_or_default();
                let key: String = first.lines().nth(1).unwrap_or("").trim().chars().filter(|c| c.is_ascii_alphanumeric() || *c == ' ').take(50).collect::<String>().replace(' ', "-");
                st.violation(viol(format!("composite:defined-operator-application-rejected:{}", key), J::s(first.chars().take(600).collect::<String>())));
                return;
            }
            Compiled::Panic { location, .. } => {
                st.violation(viol(format!("compile:panic@{}", location), J::Null));
                return;
            }
        };
        let chunk = match lua::load(&lua_text) {
            Loaded::Ok(c) => c,
            Loaded::GreyZone(_) => {
                st.count("no_verdict_grey_zone");
                return;
            }
            Loaded::Error { class, .. } if class.starts_with("limit") => {
                // the workload itself exceeds a Lua limit (C06's open finding KF-C06-lua-limits): nothing to judge here
                st.count("no_verdict_lua_limit_exceeded");
                return;
            }
            Loaded::Error { class, msg, .. } => {
                st.violation(viol(format!("load:{}", class), J::s(msg)));
                return;
            }
        };
        let rr = lua::run(&chunk, true);
        match &rr.outcome {
            lua::Outcome::Ok => {}
            lua::Outcome::Budget(_) => {
                st.count("no_verdict_run_budget");
                return;
            }
            lua::Outcome::Error(e) => {
                st.violation(viol(format!("lua-error:{}", lua::class_name(&e.class)), J::s(format!("{} after {} prints; next: {}", e.msg, rr.prints.len(), lines.get(rr.prints.len()).map(|l| l.expr.clone()).unwrap_or_default()))));
                return;
            }
        }
        if rr.prints.len() != lines.len() {
            st.violation(viol("composite:print-count".into(), J::Int(rr.prints.len() as i64)));
            return;
        }
        st.add("operator_results_compared", lines.len() as u64);
        let mut got: std::collections::BTreeMap<(usize, usize, &'static str), String> = std::collections::BTreeMap::new();
        for (l, p) in lines.iter().zip(rr.prints.iter()) {
            got.insert(l.key, p.clone());
            st.count(&format!("op:{}", l.key.2));
            if let Some(e) = &l.expect {
                if e != p {
                    st.violation(viol(format!("composite:wrong-result:{}:{}", kind, l.key.2), J::obj().with("expression", J::s(format!("{}  with  v{} = {}, v{} = {}", l.expr, l.key.0, lit(&vals[l.key.0]), l.key.1, lit(&vals[l.key.1])))).with("expected", J::s(e.clone())).with("printed", J::s(p.clone()))));
                    return;
                }
            }
        }
        // laws on the implementation's own answers
        let g = |i: usize, j: usize, op: &'static str| got.get(&(i, j, op)).map(|s| s == "true");
        let mut laws = 0u64;
        let mut law_viol: Option<String> = None;
        for i in 0..n {
            if g(i, i, "==") != Some(true) {
                law_viol = Some(format!("reflexivity: v{} == v{} is not true", i, i));
            }
            laws += 1;
            for j in 0..n {
                if g(i, j, "==") != g(j, i, "==") {
                    law_viol = Some(format!("symmetry of == on v{}, v{}", i, j));
                }
                if g(i, j, "==") == g(i, j, "!=") {
                    law_viol = Some(format!("!= is not the complement of == on v{}, v{}", i, j));
                }
                laws += 2;
                if ord {
                    if let (Some(lt), Some(le), Some(gt), Some(ge), Some(eq)) = (g(i, j, "<"), g(i, j, "<="), g(i, j, ">"), g(i, j, ">="), g(i, j, "==")) {
                        if le != (lt || eq) {
                            law_viol = Some(format!("a<=b <=> a<b or a==b fails on v{}, v{}", i, j));
                        }
                        if Some(lt) != g(j, i, ">") {
                            law_viol = Some(format!("a<b <=> b>a fails on v{}, v{}", i, j));
                        }
                        if (lt as u8 + eq as u8 + gt as u8) != 1 {
                            law_viol = Some(format!("trichotomy fails on v{}, v{}", i, j));
                        }
                        if ge != (gt || eq) {
                            law_viol = Some(format!("a>=b <=> a>b or a==b fails on v{}, v{}", i, j));
                        }
                        laws += 4;
                        for k in 0..n {
                            if let (Some(true), Some(true), Some(x)) = (g(i, j, "<"), g(j, k, "<"), g(i, k, "<")) {
                                laws += 1;
                                if !x {
                                    law_viol = Some(format!("transitivity of < fails on v{}, v{}, v{}", i, j, k));
                                }
                            }
                        }
                    }
                }
            }
        }
        st.add("law_instances_checked", laws);
        if let Some(l) = law_viol {
            st.violation(viol("composite:law".into(), J::s(l)));
            return;
        }
        st.count("programs_as_defined");
        st.nontrivial(hash64(src.as_bytes()));
        if index < 3 {
            st.sample(|| J::obj().with("type", J::s(format!("{:?}", t))).with("values", J::Arr(vals.iter().map(|v| J::s(lit(v))).collect())).with("first_results", J::Arr(lines.iter().zip(rr.prints.iter()).take(12).map(|(l, p)| J::s(format!("{} -> {}", l.expr, p))).collect())));
        }
        // unary minus on tuples: the statement says element-wise; this tree's checker rejects it (counted)
        if num && matches!(t, Ty::T(_)) && index % 7 == 0 {
            let s2 = format!("{}start :: fn do\n    w0 :: {}\n    print(-w0)\nend\n", DECLS, lit(&vals[0]));
            match compile_budgeted(&s2) {
                Compiled::Err { .. } => st.count("unary_minus_on_tuple:clause_not_exercisable(rejected_by_typechecker)"),
                Compiled::Ok(b) => {
                    st.count("unary_minus_on_tuple:accepted");
                    if let lua::Simple::Prints(p) = lua::run_simple(&String::from_utf8_lossy(&b)) {
                        let exp = arith('-', &match homogeneous_leaf(&t) {
                            Some(Ty::I) => zero_like(&vals[0], false),
                            _ => zero_like(&vals[0], true),
                        }, &vals[0]).map(|v| show(&v));
                        if exp.is_some() && p.first() != exp.as_ref() {
                            st.violation(viol("composite:wrong-result:tuple:neg".into(), J::s(format!("-{} printed {:?}, expected {:?}", lit(&vals[0]), p.first(), exp))));
                        }
                    }
                }
                _ => {}
            }
        }
    }
    fn finish(&self, _ctx: &Ctx, st: &Stats) -> Finish {
        let mut inconclusive = Vec::new();
        let ok = st.get("programs_as_defined");
        if ok * 10 < st.evaluations * 8 {
            inconclusive.push(format!("only {} of {} programs were judged (rejected by compiler: {})", ok, st.evaluations, st.get("rejected_by_compiler")));
        }
        for k in ["type_kind:tuple", "type_kind:list", "type_kind:blob", "type_kind:enum", "op:<", "op:+", "op:/", "op:/n", "op:*", "op:-"] {
            if st.get(k) == 0 {
                inconclusive.push(format!("never exercised: {}", k));
            }
        }
        Finish {
            level: "exploration",
            rule: "a random type to nesting depth 1-3 (tuples of 1-6 int/float/str/bool/tuple components, numeric tuples of 1-6 components, lists, three blobs incl. fields holding false / lists / nested blobs, an enum with and without payload, Maybe) gets a pool of 6 values (a value, an equal copy, a last-leaf neighbour, a prefix-equal list, random ones); the compiled program prints every pair under == != (and < <= > >= for numbers/strings/tuples, + - * / for numeric tuples and strings, tuple / number), plus equalities between the same enum value from different producers (source literal, variable, library result); each printed result is compared with the structural definition, then reflexivity, symmetry, complement, a<=b <=> a<b or a==b, a<b <=> b>a, trichotomy and transitivity are checked on the printed answers. Non-trivial: every judged program; distinct by source hash.".into(),
            extra: J::obj().with("unobservable_clause", J::s("unary minus on tuples is rejected by this tree's typechecker (Constraint::Neg admits int/float only): counted as not exercisable, not a violation")),
            assumptions: vec!["luamon models Lua 5.3 metamethod dispatch".into(), "overflowing / non-finite results are not generated (skipped by the model)".into()],
            exhaustive: false,
            inconclusive,
        }
    }
}

/// a literal that denotes exactly this value (floats: shortest round-trip text without exponent), if there is one
fn has_float_value(v: &V) -> bool {
    match v {
        V::F(_) => true,
        V::T(xs) => xs.iter().any(has_float_value),
        _ => false,
    }
}

fn exact_lit(v: &V) -> Option<String> {
    fn ok(v: &V) -> bool {
        match v {
            V::F(f) => {
                let t = format!("{:?}", f.abs());
                f.is_finite() && !t.contains('e') && !t.contains("inf") && t.parse::<f64>().ok() == Some(f.abs())
            }
            V::T(xs) => xs.iter().all(ok),
            V::I(_) => true,
            _ => false,
        }
    }
    fn has_float(v: &V) -> bool {
        match v {
            V::F(_) => true,
            V::T(xs) => xs.iter().any(has_float),
            _ => false,
        }
    }
    if ok(v) && has_float(v) {
        Some(lit(v))
    } else {
        None
    }
}

fn zero_like(v: &V, float: bool) -> V {
    match v {
        V::T(xs) => V::T(xs.iter().map(|x| zero_like(x, float)).collect()),
        _ => {
            if float {
                V::F(0.0)
            } else {
                V::I(0)
            }
        }
    }
}
