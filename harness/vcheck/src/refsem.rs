//! Reference interpreter for abstract programs: the independent definition of
//! what a Sylt program denotes (strict left-to-right, lexical scoping, closures
//! by reference, structural equality, …). Every operation checks value tags.
use crate::ast::*;
use std::collections::BTreeMap;
use std::rc::Rc;

#[derive(Clone, Debug)]
pub enum Val {
    Int(i64),
    Float(f64),
    Str(Rc<str>),
    Bool(bool),
    Void,
    Tuple(Rc<Vec<Val>>),
    List(usize),
    Blob(usize),
    Variant(Rc<str>, Option<Rc<Val>>),
    Fn(Rc<Closure>),
    Std(Std),
}

pub struct Closure {
    pub fd: *const FnDef,
    pub captured: Rc<Vec<(BId, usize)>>,
    pub id: u64,
}
impl std::fmt::Debug for Closure {
    fn fmt(&self, f: &mut std::fmt::Formatter<'_>) -> std::fmt::Result {
        write!(f, "<closure {}>", self.id)
    }
}

#[derive(Clone, Debug, PartialEq)]
pub enum Outcome {
    Ok,
    AssertFailed,
    /// ordinal of the `<!>` statement is not tracked; the text of the run is compared by class
    Unreachable,
    /// the program left the documented domain (overflow, NaN, unprintable value, …): never judged
    OutOfDomain(String),
    /// an operation was applied to a value of the wrong kind
    TagError(String),
    Budget,
}

pub struct RunResult {
    pub prints: Vec<String>,
    pub outcome: Outcome,
    pub steps: u64,
    pub order_sensitive_field: bool,
    pub order_sensitive_var: bool,
    pub max_depth: u32,
    pub asserts_executed: u64,
    pub closures_called: u64,
    pub loop_iterations: u64,
}

enum Flow {
    Normal,
    Break,
    Continue,
    Ret(Val),
}

type R<T> = Result<T, Outcome>;

#[derive(Clone, Copy, PartialEq, Eq, Debug)]
enum Loc {
    Field(usize, u32), // blob id, field name id
    Var(usize),        // cell
}

pub struct Interp<'p> {
    p: &'p Program,
    cells: Vec<Val>,
    lists: Vec<Vec<Val>>,
    blobs: Vec<BTreeMap<String, Val>>,
    globals: BTreeMap<BId, usize>,
    prints: Vec<String>,
    steps: u64,
    max_steps: u64,
    depth: u32,
    max_depth_seen: u32,
    max_depth: u32,
    closure_counter: u64,
    field_names: Vec<String>,
    // order-race detector
    unsealed_reads: Vec<Loc>,      // log of deferred reads in the current (innermost unsealed) context
    frozen: Vec<Vec<Loc>>,         // stack of frozen read sets of already evaluated operands
    order_sensitive_field: bool,
    order_sensitive_var: bool,
    asserts: u64,
    closures_called: u64,
    loop_iterations: u64,
    self_stack: Vec<usize>, // blob being constructed / receiver for `self`
    pending_flow: Option<Flow>,
    /// record mode: values observed at assert sentinels (id -> first value)
    pub recorded: BTreeMap<u32, Val>,
    pub record_mode: bool,
}

struct Act {
    locals: Vec<(BId, usize)>,
    captured: Rc<Vec<(BId, usize)>>,
}

pub fn fmt_float(f: f64) -> String {
    crate::lua::fmt_float(f)
}

impl<'p> Interp<'p> {
    pub fn new(p: &'p Program, max_steps: u64) -> Self {
        Interp {
            p,
            cells: Vec::new(),
            lists: Vec::new(),
            blobs: Vec::new(),
            globals: BTreeMap::new(),
            prints: Vec::new(),
            steps: 0,
            max_steps,
            depth: 0,
            max_depth_seen: 0,
            max_depth: 150,
            closure_counter: 0,
            field_names: Vec::new(),
            unsealed_reads: Vec::new(),
            frozen: Vec::new(),
            order_sensitive_field: false,
            order_sensitive_var: false,
            asserts: 0,
            closures_called: 0,
            loop_iterations: 0,
            self_stack: Vec::new(),
            pending_flow: None,
            recorded: BTreeMap::new(),
            record_mode: false,
        }
    }

    fn field_id(&mut self, name: &str) -> u32 {
        if let Some(i) = self.field_names.iter().position(|n| n == name) {
            return i as u32;
        }
        self.field_names.push(name.to_string());
        (self.field_names.len() - 1) as u32
    }

    fn tick(&mut self) -> R<()> {
        self.steps += 1;
        if self.steps > self.max_steps {
            Err(Outcome::Budget)
        } else {
            Ok(())
        }
    }

    fn note_write(&mut self, loc: Loc) {
        for set in &self.frozen {
            if set.contains(&loc) {
                match loc {
                    Loc::Field(..) => self.order_sensitive_field = true,
                    Loc::Var(_) => self.order_sensitive_var = true,
                }
            }
        }
    }

    /// Evaluate operands left to right with the order-race bookkeeping:
    /// reads deferred by operand i are frozen while operands j>i run.
    fn eval_operands(&mut self, act: &mut Act, es: &[&Expr]) -> R<Vec<Val>> {
        let base = self.frozen.len();
        let mut out = Vec::with_capacity(es.len());
        for e in es {
            let mark = self.unsealed_reads.len();
            let v = self.eval(act, e);
            let mark = mark.min(self.unsealed_reads.len());
            let reads: Vec<Loc> = self.unsealed_reads[mark..].to_vec();
            match v {
                Ok(v) => out.push(v),
                Err(o) => {
                    self.frozen.truncate(base);
                    return Err(o);
                }
            }
            self.frozen.push(reads);
        }
        self.frozen.truncate(base);
        Ok(out)
    }

    /// A node whose value is materialised when it is evaluated (calls, if/case, and/or): reads inside are not deferred further.
    fn sealed<T>(&mut self, f: impl FnOnce(&mut Self) -> R<T>) -> R<T> {
        let mark = self.unsealed_reads.len();
        let r = f(self);
        self.unsealed_reads.truncate(mark.min(self.unsealed_reads.len()));
        r
    }

    fn lookup(&self, act: &Act, b: BId) -> Option<usize> {
        for (k, c) in act.locals.iter().rev() {
            if *k == b {
                return Some(*c);
            }
        }
        for (k, c) in act.captured.iter().rev() {
            if *k == b {
                return Some(*c);
            }
        }
        self.globals.get(&b).copied()
    }

    fn snapshot(&self, act: &Act) -> Rc<Vec<(BId, usize)>> {
        let mut v: Vec<(BId, usize)> = act.captured.as_ref().clone();
        for (k, c) in &act.locals {
            v.push((*k, *c));
        }
        Rc::new(v)
    }

    fn new_cell(&mut self, v: Val) -> usize {
        self.cells.push(v);
        self.cells.len() - 1
    }

    pub fn tostring(&self, v: &Val) -> R<String> {
        Ok(match v {
            Val::Int(i) => i.to_string(),
            Val::Float(f) => {
                if f.is_nan() {
                    return Err(Outcome::OutOfDomain("print of NaN".into()));
                }
                fmt_float(*f)
            }
            Val::Str(s) => s.to_string(),
            Val::Bool(b) => b.to_string(),
            Val::Void => return Err(Outcome::OutOfDomain("print of void".into())),
            Val::Tuple(xs) => {
                let mut s = String::from("(");
                for (i, x) in xs.iter().enumerate() {
                    if i > 0 {
                        s.push_str(", ");
                    }
                    s.push_str(&self.tostring(x)?);
                }
                if xs.len() == 1 {
                    s.push(',');
                }
                s.push(')');
                s
            }
            Val::List(l) => {
                let mut s = String::from("[");
                for (i, x) in self.lists[*l].iter().enumerate() {
                    if i > 0 {
                        s.push_str(", ");
                    }
                    s.push_str(&self.tostring(x)?);
                }
                s.push(']');
                s
            }
            Val::Blob(b) => {
                let m = &self.blobs[*b];
                if m.len() >= 2 {
                    return Err(Outcome::OutOfDomain("print of a blob with >= 2 fields".into()));
                }
                let mut s = String::from("blob {");
                for (k, x) in m {
                    s.push_str(&format!(".{} = {}", k, self.tostring(x)?));
                }
                s.push('}');
                s
            }
            Val::Variant(n, p) => match p {
                Some(p) => format!("{} {}", n, self.tostring(p)?),
                None => format!("{} nil", n),
            },
            Val::Fn(_) | Val::Std(_) => return Err(Outcome::OutOfDomain("print of a function".into())),
        })
    }

    fn equal(&self, a: &Val, b: &Val) -> R<bool> {
        Ok(match (a, b) {
            (Val::Int(x), Val::Int(y)) => x == y,
            (Val::Float(x), Val::Float(y)) => x == y,
            (Val::Str(x), Val::Str(y)) => x == y,
            (Val::Bool(x), Val::Bool(y)) => x == y,
            (Val::Tuple(x), Val::Tuple(y)) => {
                if x.len() != y.len() {
                    return Err(Outcome::TagError("== on tuples of different length".into()));
                }
                for (p, q) in x.iter().zip(y.iter()) {
                    if !self.equal(p, q)? {
                        return Ok(false);
                    }
                }
                true
            }
            (Val::List(x), Val::List(y)) => {
                let (x, y) = (&self.lists[*x], &self.lists[*y]);
                if x.len() != y.len() {
                    return Ok(false);
                }
                for (p, q) in x.iter().zip(y.iter()) {
                    if !self.equal(p, q)? {
                        return Ok(false);
                    }
                }
                true
            }
            (Val::Blob(x), Val::Blob(y)) => {
                let (x, y) = (&self.blobs[*x], &self.blobs[*y]);
                if x.len() != y.len() || !x.keys().eq(y.keys()) {
                    return Err(Outcome::TagError("== on blobs with different fields".into()));
                }
                for (k, p) in x {
                    if !self.equal(p, &y[k])? {
                        return Ok(false);
                    }
                }
                true
            }
            (Val::Variant(n, p), Val::Variant(m, q)) => {
                if n != m {
                    return Ok(false);
                }
                match (p, q) {
                    (Some(p), Some(q)) => self.equal(p, q)?,
                    (None, None) => true,
                    _ => return Err(Outcome::TagError("variant payload presence differs".into())),
                }
            }
            (Val::Fn(_), _) | (_, Val::Fn(_)) | (Val::Std(_), _) | (_, Val::Std(_)) => {
                return Err(Outcome::OutOfDomain("== on functions".into()))
            }
            (a, b) => return Err(Outcome::TagError(format!("== on {} and {}", tag(a), tag(b)))),
        })
    }

    /// -1, 0, 1
    fn compare(&self, a: &Val, b: &Val) -> R<i32> {
        use std::cmp::Ordering::*;
        let o = match (a, b) {
            (Val::Int(x), Val::Int(y)) => x.cmp(y),
            (Val::Float(x), Val::Float(y)) => match x.partial_cmp(y) {
                Some(o) => o,
                None => return Err(Outcome::OutOfDomain("comparison with NaN".into())),
            },
            (Val::Str(x), Val::Str(y)) => x.as_bytes().cmp(y.as_bytes()),
            (Val::Tuple(x), Val::Tuple(y)) => {
                if x.len() != y.len() {
                    return Err(Outcome::TagError("ordering on tuples of different length".into()));
                }
                for (p, q) in x.iter().zip(y.iter()) {
                    let c = self.compare(p, q)?;
                    if c != 0 {
                        return Ok(c);
                    }
                }
                Equal
            }
            (a, b) => return Err(Outcome::TagError(format!("ordering on {} and {}", tag(a), tag(b)))),
        };
        Ok(match o {
            Less => -1,
            Equal => 0,
            Greater => 1,
        })
    }

    fn arith(&self, op: BinOp, a: &Val, b: &Val) -> R<Val> {
        match (a, b) {
            (Val::Int(x), Val::Int(y)) => {
                let r = match op {
                    BinOp::Add => x.checked_add(*y),
                    BinOp::Sub => x.checked_sub(*y),
                    BinOp::Mul => x.checked_mul(*y),
                    BinOp::Div => {
                        let f = (*x as f64) / (*y as f64);
                        if !f.is_finite() {
                            return Err(Outcome::OutOfDomain("int division giving a non-finite float".into()));
                        }
                        return Ok(Val::Float(f));
                    }
                    _ => unreachable!(),
                };
                match r {
                    Some(v) => Ok(Val::Int(v)),
                    None => Err(Outcome::OutOfDomain("int overflow".into())),
                }
            }
            (Val::Float(x), Val::Float(y)) => {
                let r = match op {
                    BinOp::Add => x + y,
                    BinOp::Sub => x - y,
                    BinOp::Mul => x * y,
                    BinOp::Div => x / y,
                    _ => unreachable!(),
                };
                if !r.is_finite() {
                    return Err(Outcome::OutOfDomain("non-finite float".into()));
                }
                Ok(Val::Float(r))
            }
            (Val::Str(x), Val::Str(y)) if op == BinOp::Add => {
                if x.len() + y.len() > 4096 {
                    return Err(Outcome::Budget);
                }
                Ok(Val::Str(format!("{}{}", x, y).into()))
            }
            (Val::Tuple(x), Val::Tuple(y)) => {
                if x.len() != y.len() {
                    return Err(Outcome::TagError("arithmetic on tuples of different length".into()));
                }
                let mut out = Vec::new();
                for (p, q) in x.iter().zip(y.iter()) {
                    out.push(self.arith(op, p, q)?);
                }
                Ok(Val::Tuple(Rc::new(out)))
            }
            (Val::Tuple(x), n @ (Val::Int(_) | Val::Float(_))) if op == BinOp::Div => {
                let mut out = Vec::new();
                for p in x.iter() {
                    out.push(self.arith(op, p, n)?);
                }
                Ok(Val::Tuple(Rc::new(out)))
            }
            (a, b) => Err(Outcome::TagError(format!("{} on {} and {}", op.text(), tag(a), tag(b)))),
        }
    }

    fn binop(&mut self, op: BinOp, a: &Val, b: &Val) -> R<Val> {
        match op {
            BinOp::Add | BinOp::Sub | BinOp::Mul | BinOp::Div => self.arith(op, a, b),
            BinOp::Eq => Ok(Val::Bool(self.equal(a, b)?)),
            BinOp::Ne => Ok(Val::Bool(!self.equal(a, b)?)),
            BinOp::Lt => Ok(Val::Bool(self.compare(a, b)? < 0)),
            BinOp::Le => Ok(Val::Bool(self.compare(a, b)? <= 0)),
            BinOp::Gt => Ok(Val::Bool(self.compare(a, b)? > 0)),
            BinOp::Ge => Ok(Val::Bool(self.compare(a, b)? >= 0)),
            BinOp::And | BinOp::Or => unreachable!(),
        }
    }

    fn as_bool(v: &Val, what: &str) -> R<bool> {
        match v {
            Val::Bool(b) => Ok(*b),
            other => Err(Outcome::TagError(format!("{} is {} not bool", what, tag(other)))),
        }
    }

    fn eval(&mut self, act: &mut Act, e: &Expr) -> R<Val> {
        self.tick()?;
        match e {
            Expr::Int(i) => Ok(Val::Int(*i)),
            Expr::Float(f, _) => Ok(Val::Float(*f)),
            Expr::Str(s) => Ok(Val::Str(s.as_str().into())),
            Expr::Bool(b) => Ok(Val::Bool(*b)),
            Expr::Var(b) => match self.lookup(act, *b) {
                Some(c) => Ok(self.cells[c].clone()),
                None => Err(Outcome::TagError(format!("read of variable #{} outside its scope / before its declaration", b))),
            },
            Expr::SelfRef(_) => match self.self_stack.last() {
                Some(b) => Ok(Val::Blob(*b)),
                None => Err(Outcome::TagError("self outside a blob".into())),
            },
            Expr::Bin(BinOp::And, a, b) => self.sealed(|s| {
                let va = s.eval(act, a)?;
                if Self::as_bool(&va, "operand of and")? {
                    let vb = s.eval(act, b)?;
                    Ok(Val::Bool(Self::as_bool(&vb, "operand of and")?))
                } else {
                    Ok(Val::Bool(false))
                }
            }),
            Expr::Bin(BinOp::Or, a, b) => self.sealed(|s| {
                let va = s.eval(act, a)?;
                if Self::as_bool(&va, "operand of or")? {
                    Ok(Val::Bool(true))
                } else {
                    let vb = s.eval(act, b)?;
                    Ok(Val::Bool(Self::as_bool(&vb, "operand of or")?))
                }
            }),
            Expr::Bin(op, a, b) => {
                let vs = self.eval_operands(act, &[a, b])?;
                self.binop(*op, &vs[0], &vs[1])
            }
            Expr::AssertEq(a, b) => self.sealed(|s| {
                if let Some(id) = assert_sentinel(b) {
                    // record mode: remember the first value seen at this assert and pass
                    let v = s.eval(act, a)?;
                    s.recorded.entry(id).or_insert(v);
                    return Ok(Val::Bool(true));
                }
                let vs = s.eval_operands(act, &[a, b])?;
                s.asserts += 1;
                if s.equal(&vs[0], &vs[1])? {
                    Ok(Val::Bool(true))
                } else {
                    Err(Outcome::AssertFailed)
                }
            }),
            Expr::Un(UnOp::Neg, a) => match self.eval(act, a)? {
                Val::Int(i) => i.checked_neg().map(Val::Int).ok_or(Outcome::OutOfDomain("int overflow".into())),
                Val::Float(f) => Ok(Val::Float(-f)),
                other => Err(Outcome::TagError(format!("unary - on {}", tag(&other)))),
            },
            Expr::Un(UnOp::Not, a) => {
                let v = self.eval(act, a)?;
                Ok(Val::Bool(!Self::as_bool(&v, "operand of not")?))
            }
            Expr::Call { callee, args, .. } => self.sealed(|s| {
                let mut ops: Vec<&Expr> = vec![callee];
                ops.extend(args.iter());
                let mut vs = s.eval_operands(act, &ops)?;
                let f = vs.remove(0);
                // a method call `x.f(..)` binds self to x's blob at closure creation (captured), nothing to do here
                s.call(f, vs)
            }),
            Expr::StdCall { f, args, .. } => self.sealed(|s| {
                let ops: Vec<&Expr> = args.iter().collect();
                let vs = s.eval_operands(act, &ops)?;
                s.call(Val::Std(*f), vs)
            }),
            Expr::If { branches, els } => self.sealed(|s| {
                for (c, b) in branches {
                    let vc = s.eval(act, c)?;
                    if Self::as_bool(&vc, "if condition")? {
                        return s.block_value(act, b);
                    }
                }
                match els {
                    Some(b) => s.block_value(act, b),
                    None => Ok(Val::Void),
                }
            }),
            Expr::Case { scrut, arms, els, .. } => self.sealed(|s| {
                let v = s.eval(act, scrut)?;
                let (name, payload) = match v {
                    Val::Variant(n, p) => (n, p),
                    other => return Err(Outcome::TagError(format!("case on {}", tag(&other)))),
                };
                for a in arms {
                    if *a.variant == *name {
                        let mark = act.locals.len();
                        if let Some(b) = a.bind {
                            let pv = match &payload {
                                Some(p) => (**p).clone(),
                                None => return Err(Outcome::TagError("binding the payload of a payload-less variant".into())),
                            };
                            let c = s.new_cell(pv);
                            act.locals.push((b, c));
                        }
                        let r = s.block_value(act, &a.body);
                        act.locals.truncate(mark);
                        return r;
                    }
                }
                match els {
                    Some(b) => s.block_value(act, b),
                    None => Err(Outcome::TagError(format!("case without else does not cover variant {}", name))),
                }
            }),
            Expr::Tuple(xs) => {
                let ops: Vec<&Expr> = xs.iter().collect();
                Ok(Val::Tuple(Rc::new(self.eval_operands(act, &ops)?)))
            }
            Expr::List(xs, _) => {
                let ops: Vec<&Expr> = xs.iter().collect();
                let vs = self.eval_operands(act, &ops)?;
                self.lists.push(vs);
                Ok(Val::List(self.lists.len() - 1))
            }
            Expr::BlobNew { fields, .. } => {
                // `self` denotes the blob under construction
                self.blobs.push(BTreeMap::new());
                let id = self.blobs.len() - 1;
                self.self_stack.push(id);
                let ops: Vec<&Expr> = fields.iter().map(|(_, e)| e).collect();
                let r = self.eval_operands(act, &ops);
                self.self_stack.pop();
                let vs = r?;
                for ((k, _), v) in fields.iter().zip(vs.into_iter()) {
                    self.blobs[id].insert(k.clone(), v);
                }
                Ok(Val::Blob(id))
            }
            Expr::Variant { variant, payload, .. } => {
                let p = match payload {
                    Some(p) => Some(Rc::new(self.eval(act, p)?)),
                    None => None,
                };
                Ok(Val::Variant(variant.as_str().into(), p))
            }
            Expr::Field(a, f) => {
                let v = self.eval(act, a)?;
                match v {
                    Val::Blob(b) => {
                        let fid = self.field_id(f);
                        self.unsealed_reads.push(Loc::Field(b, fid));
                        match self.blobs[b].get(f) {
                            Some(v) => Ok(v.clone()),
                            None => Err(Outcome::TagError(format!("missing field {}", f))),
                        }
                    }
                    other => Err(Outcome::TagError(format!("field access on {}", tag(&other)))),
                }
            }
            Expr::TupleIndex(a, i) => match self.eval(act, a)? {
                Val::Tuple(xs) => xs.get(*i).cloned().ok_or_else(|| Outcome::TagError("tuple index out of range".into())),
                other => Err(Outcome::TagError(format!("index on {}", tag(&other)))),
            },
            Expr::Lambda(fd) => {
                self.closure_counter += 1;
                let mut captured = self.snapshot(act);
                // closures created inside a blob literal capture `self`
                if let Some(b) = self.self_stack.last() {
                    let mut v = captured.as_ref().clone();
                    v.push((usize::MAX, *b));
                    captured = Rc::new(v);
                }
                Ok(Val::Fn(Rc::new(Closure { fd: &**fd as *const FnDef, captured, id: self.closure_counter })))
            }
        }
    }

    fn call(&mut self, f: Val, args: Vec<Val>) -> R<Val> {
        self.tick()?;
        match f {
            Val::Fn(c) => {
                let fd: &FnDef = unsafe { &*c.fd };
                if fd.params.len() != args.len() {
                    return Err(Outcome::TagError(format!("call with {} arguments of a function with {} parameters", args.len(), fd.params.len())));
                }
                self.depth += 1;
                self.max_depth_seen = self.max_depth_seen.max(self.depth);
                if self.depth > self.max_depth {
                    self.depth -= 1;
                    return Err(Outcome::Budget);
                }
                self.closures_called += 1;
                let mut act = Act { locals: Vec::new(), captured: c.captured.clone() };
                for (b, v) in fd.params.iter().zip(args.into_iter()) {
                    let cell = self.new_cell(v);
                    act.locals.push((*b, cell));
                }
                // `self` for closures created in a blob literal
                let self_blob = c.captured.iter().rev().find(|(k, _)| *k == usize::MAX).map(|(_, b)| *b);
                let pushed = if let Some(b) = self_blob {
                    self.self_stack.push(b);
                    true
                } else {
                    // a plain function must not see the caller's `self`
                    self.self_stack.push(usize::MAX);
                    true
                };
                let saved_frozen = std::mem::take(&mut self.frozen);
                let saved_unsealed = std::mem::take(&mut self.unsealed_reads);
                // writes inside the callee must still be checked against the caller's frozen reads
                self.frozen = saved_frozen.clone();
                let r = self.exec_block(&mut act, &fd.body, true);
                self.frozen = saved_frozen;
                self.unsealed_reads = saved_unsealed;
                if pushed {
                    self.self_stack.pop();
                }
                self.depth -= 1;
                match r? {
                    (Flow::Ret(v), _) => Ok(v),
                    (Flow::Normal, Some(v)) => Ok(v),
                    (Flow::Normal, None) => Ok(Val::Void),
                    (Flow::Break, _) | (Flow::Continue, _) => Err(Outcome::TagError("break/continue escaped a function".into())),
                }
            }
            Val::Std(s) => self.std_call(s, args),
            other => Err(Outcome::TagError(format!("call of {}", tag(&other)))),
        }
    }

    fn std_call(&mut self, s: Std, mut args: Vec<Val>) -> R<Val> {
        let bad = |s: Std| Err(Outcome::TagError(format!("bad arguments to {}", s.text())));
        match s {
            Std::Print => {
                if args.len() != 1 {
                    return bad(s);
                }
                let t = self.tostring(&args[0])?;
                self.prints.push(t);
                if self.prints.len() > 5000 {
                    return Err(Outcome::Budget);
                }
                Ok(Val::Void)
            }
            Std::ListPush => match (args.get(0), args.get(1)) {
                (Some(Val::List(l)), Some(v)) => {
                    let (l, v) = (*l, v.clone());
                    self.lists[l].push(v);
                    if self.lists[l].len() > 2000 {
                        return Err(Outcome::Budget);
                    }
                    Ok(Val::Void)
                }
                _ => bad(s),
            },
            Std::ListLen => match args.get(0) {
                Some(Val::List(l)) => Ok(Val::Int(self.lists[*l].len() as i64)),
                _ => bad(s),
            },
            Std::ListGet => match (args.get(0), args.get(1)) {
                (Some(Val::List(l)), Some(Val::Int(i))) => {
                    if *i < 0 {
                        return Err(Outcome::OutOfDomain("negative list index".into()));
                    }
                    Ok(match self.lists[*l].get(*i as usize) {
                        Some(v) => Val::Variant("Just".into(), Some(Rc::new(v.clone()))),
                        None => Val::Variant("None".into(), None),
                    })
                }
                _ => bad(s),
            },
            Std::ListPop => match args.get(0) {
                Some(Val::List(l)) => Ok(match self.lists[*l].pop() {
                    Some(v) => Val::Variant("Just".into(), Some(Rc::new(v))),
                    None => Val::Variant("None".into(), None),
                }),
                _ => bad(s),
            },
            Std::AsStr => {
                if args.len() != 1 {
                    return bad(s);
                }
                Ok(Val::Str(self.tostring(&args[0])?.into()))
            }
            Std::ForEach => match (args.get(0).cloned(), args.get(1).cloned()) {
                (Some(Val::List(l)), Some(f)) => {
                    // Lua `pairs` over the list: iterate over the elements present at each step
                    let mut i = 0;
                    while i < self.lists[l].len() {
                        let v = self.lists[l][i].clone();
                        self.call(f.clone(), vec![v])?;
                        i += 1;
                    }
                    Ok(Val::Void)
                }
                _ => bad(s),
            },
            Std::ListMap => match (args.get(0).cloned(), args.get(1).cloned()) {
                (Some(Val::List(l)), Some(f)) => {
                    let n = self.lists[l].len();
                    let mut out = Vec::new();
                    for i in 0..n {
                        let v = self.lists[l][i].clone();
                        out.push(self.call(f.clone(), vec![v])?);
                    }
                    self.lists.push(out);
                    Ok(Val::List(self.lists.len() - 1))
                }
                _ => bad(s),
            },
            Std::ListFold => {
                if args.len() != 3 {
                    return bad(s);
                }
                let f = args.pop().unwrap();
                let mut acc = args.pop().unwrap();
                match args.pop() {
                    Some(Val::List(l)) => {
                        let n = self.lists[l].len();
                        for i in 0..n {
                            let v = self.lists[l][i].clone();
                            acc = self.call(f.clone(), vec![v, acc])?;
                        }
                        Ok(acc)
                    }
                    _ => bad(s),
                }
            }
        }
    }

    fn block_value(&mut self, act: &mut Act, b: &Block) -> R<Val> {
        // a block in expression position: flow escapes (ret/break/continue) are propagated through a side channel
        match self.exec_block(act, b, false)? {
            (Flow::Normal, Some(v)) => Ok(v),
            (Flow::Normal, None) => Ok(Val::Void),
            (flow, _) => {
                self.pending_flow = Some(flow);
                Err(Outcome::OutOfDomain("__flow__".into()))
            }
        }
    }

    /// returns (flow, value of trailing expression)
    fn exec_block(&mut self, act: &mut Act, b: &Block, _fn_body: bool) -> R<(Flow, Option<Val>)> {
        let mark = act.locals.len();
        let r = self.exec_block_inner(act, b);
        act.locals.truncate(mark);
        r
    }

    fn exec_block_inner(&mut self, act: &mut Act, b: &Block) -> R<(Flow, Option<Val>)> {
        for s in &b.stmts {
            match self.exec(act, s)? {
                Flow::Normal => {}
                other => return Ok((other, None)),
            }
        }
        match &b.value {
            Some(e) => match self.eval_stmt_expr(act, e)? {
                Ok(v) => Ok((Flow::Normal, Some(v))),
                Err(flow) => Ok((flow, None)),
            },
            None => Ok((Flow::Normal, None)),
        }
    }

    /// evaluate an expression at statement level, catching control flow that escapes from if/case arms
    fn eval_stmt_expr(&mut self, act: &mut Act, e: &Expr) -> R<Result<Val, Flow>> {
        match self.eval(act, e) {
            Ok(v) => Ok(Ok(v)),
            Err(Outcome::OutOfDomain(s)) if s == "__flow__" => {
                let f = self.pending_flow.take().unwrap_or(Flow::Normal);
                Ok(Err(f))
            }
            Err(o) => Err(o),
        }
    }

    fn exec(&mut self, act: &mut Act, s: &Stmt) -> R<Flow> {
        self.tick()?;
        match s {
            Stmt::Def { b, init } => {
                match self.eval_stmt_expr(act, init)? {
                    Ok(v) => {
                        if matches!(v, Val::Void) {
                            return Err(Outcome::TagError("void stored in a variable".into()));
                        }
                        let c = self.new_cell(v);
                        act.locals.push((*b, c));
                        Ok(Flow::Normal)
                    }
                    Err(f) => Ok(f),
                }
            }
            Stmt::Assign { target, op, value } => {
                match target {
                    LValue::Var(b) => {
                        let cell = match self.lookup(act, *b) {
                            Some(c) => c,
                            None => return Err(Outcome::TagError(format!("assignment to variable #{} outside its scope", b))),
                        };
                        let old = self.cells[cell].clone();
                        // compound assignment reads the target; the compiled code reads it late
                        let base = self.frozen.len();
                        if *op != AssignOp::Set {
                            self.frozen.push(vec![Loc::Var(cell)]);
                        }
                        let v = self.eval_stmt_expr(act, value);
                        self.frozen.truncate(base);
                        let v = match v? {
                            Ok(v) => v,
                            Err(f) => return Ok(f),
                        };
                        let nv = self.apply_assign(*op, &old, &v)?;
                        self.note_write(Loc::Var(cell));
                        self.cells[cell] = nv;
                        Ok(Flow::Normal)
                    }
                    LValue::Field(obj, f) => {
                        let o = match self.eval_stmt_expr(act, obj)? {
                            Ok(v) => v,
                            Err(fl) => return Ok(fl),
                        };
                        let bid = match o {
                            Val::Blob(b) => b,
                            other => return Err(Outcome::TagError(format!("field assignment on {}", tag(&other)))),
                        };
                        let fid = self.field_id(f);
                        let old = match self.blobs[bid].get(f) {
                            Some(v) => v.clone(),
                            None => return Err(Outcome::TagError(format!("assignment to missing field {}", f))),
                        };
                        let base = self.frozen.len();
                        if *op != AssignOp::Set {
                            self.frozen.push(vec![Loc::Field(bid, fid)]);
                        }
                        let v = self.eval_stmt_expr(act, value);
                        self.frozen.truncate(base);
                        let v = match v? {
                            Ok(v) => v,
                            Err(fl) => return Ok(fl),
                        };
                        let nv = self.apply_assign(*op, &old, &v)?;
                        self.note_write(Loc::Field(bid, fid));
                        self.blobs[bid].insert(f.clone(), nv);
                        Ok(Flow::Normal)
                    }
                }
            }
            Stmt::Loop { cond, body, .. } => {
                loop {
                    self.tick()?;
                    self.loop_iterations += 1;
                    if let Some(c) = cond {
                        match self.eval_stmt_expr(act, c)? {
                            Ok(v) => {
                                if !Self::as_bool(&v, "loop condition")? {
                                    break;
                                }
                            }
                            Err(f) => return Ok(f),
                        }
                    }
                    match self.exec_block(act, body, false)?.0 {
                        Flow::Normal | Flow::Continue => {}
                        Flow::Break => break,
                        r @ Flow::Ret(_) => return Ok(r),
                    }
                }
                Ok(Flow::Normal)
            }
            Stmt::Break => Ok(Flow::Break),
            Stmt::Continue => Ok(Flow::Continue),
            Stmt::Ret(None) => Ok(Flow::Ret(Val::Void)),
            Stmt::Ret(Some(e)) => match self.eval_stmt_expr(act, e)? {
                Ok(v) => Ok(Flow::Ret(v)),
                Err(f) => Ok(f),
            },
            Stmt::Block(b) => Ok(self.exec_block(act, b, false)?.0),
            Stmt::Expr(e) => match self.eval_stmt_expr(act, e)? {
                Ok(_) => Ok(Flow::Normal),
                Err(f) => Ok(f),
            },
            Stmt::Unreachable => Err(Outcome::Unreachable),
            Stmt::Raw(_) => Err(Outcome::TagError("raw statement".into())),
        }
    }

    fn apply_assign(&mut self, op: AssignOp, old: &Val, v: &Val) -> R<Val> {
        if matches!(v, Val::Void) {
            return Err(Outcome::TagError("void assigned".into()));
        }
        match op {
            AssignOp::Set => {
                if std::mem::discriminant(old) != std::mem::discriminant(v) {
                    return Err(Outcome::TagError(format!("assignment changes the kind of a variable from {} to {}", tag(old), tag(v))));
                }
                Ok(v.clone())
            }
            AssignOp::Add => self.arith(BinOp::Add, old, v),
            AssignOp::Sub => self.arith(BinOp::Sub, old, v),
            AssignOp::Mul => self.arith(BinOp::Mul, old, v),
            AssignOp::Div => self.arith(BinOp::Div, old, v),
        }
    }

    pub fn run_keep(mut self) -> (BTreeMap<u32, Val>, Vec<Vec<Val>>, Vec<BTreeMap<String, Val>>) {
        let _ = self.run_inner();
        (self.recorded, self.lists, self.blobs)
    }

    pub fn run(mut self) -> RunResult {
        let outcome = self.run_inner();
        RunResult {
            prints: self.prints,
            outcome,
            steps: self.steps,
            order_sensitive_field: self.order_sensitive_field,
            order_sensitive_var: self.order_sensitive_var,
            max_depth: self.max_depth_seen,
            asserts_executed: self.asserts,
            closures_called: self.closures_called,
            loop_iterations: self.loop_iterations,
        }
    }

    fn run_inner(&mut self) -> Outcome {
        let p = self.p;
        let mut outcome = Outcome::Ok;
        // globals are initialised in canonical item order (the generator emits them in dependency order)
        let mut act = Act { locals: Vec::new(), captured: Rc::new(Vec::new()) };
        self.self_stack.push(usize::MAX);
        // function definitions have no evaluation effects: define them first so that
        // the order of the remaining initialisers is the only order that matters
        let mut order: Vec<&Item> = p.items.iter().filter(|it| matches!(it, Item::Global { init: Expr::Lambda(_), .. })).collect();
        order.extend(p.items.iter().filter(|it| matches!(it, Item::Global { init, .. } if !matches!(init, Expr::Lambda(_)))));
        for it in order {
            if let Item::Global { b, init } = it {
                match self.eval_stmt_expr(&mut act, init) {
                    Ok(Ok(v)) => {
                        let c = self.new_cell(v);
                        self.globals.insert(*b, c);
                    }
                    Ok(Err(_)) => {
                        outcome = Outcome::TagError("control flow escaped a global initialiser".into());
                        break;
                    }
                    Err(o) => {
                        outcome = o;
                        break;
                    }
                }
            }
        }
        if outcome == Outcome::Ok {
            match self.globals.get(&p.start).map(|c| self.cells[*c].clone()) {
                Some(f) => {
                    if let Err(o) = self.call(f, vec![]) {
                        outcome = o;
                    }
                }
                None => outcome = Outcome::TagError("no start".into()),
            }
        }
        if let Outcome::OutOfDomain(s) = &outcome {
            if s == "__flow__" {
                outcome = Outcome::TagError("control flow escaped".into());
            }
        }
        outcome
    }
}

pub const SENTINEL: &str = "\u{1}assert#";
pub fn assert_sentinel(e: &Expr) -> Option<u32> {
    match e {
        Expr::Str(s) => s.strip_prefix(SENTINEL).and_then(|r| r.parse().ok()),
        _ => None,
    }
}

pub fn tag(v: &Val) -> &'static str {
    match v {
        Val::Int(_) => "int",
        Val::Float(_) => "float",
        Val::Str(_) => "str",
        Val::Bool(_) => "bool",
        Val::Void => "void",
        Val::Tuple(_) => "tuple",
        Val::List(_) => "list",
        Val::Blob(_) => "blob",
        Val::Variant(..) => "variant",
        Val::Fn(_) | Val::Std(_) => "function",
    }
}

pub fn run_program(p: &Program, max_steps: u64) -> RunResult {
    Interp::new(p, max_steps).run()
}

/// Run in record mode and return the values observed at assert sentinels (with the heap to render them).
pub fn record_asserts(p: &Program, max_steps: u64) -> (BTreeMap<u32, Val>, Vec<Vec<Val>>, Vec<BTreeMap<String, Val>>) {
    let mut it = Interp::new(p, max_steps);
    it.record_mode = true;
    it.run_keep()
}
