//! C17 — tokenizer: tokens tile the source, longest match, exact positions.
//!
//! Oracle: an independent hand-written maximal-munch lexer over the token
//! table of `sylt-tokenizer/src/token.rs` and an independent line index.
use crate::fw::*;
use crate::json::J;
use crate::rng::{hash64, Rng};
use sylt_tokenizer::{string_to_tokens, PlacedToken, Token};

pub struct C17;

const KEYWORDS: &[(&str, fn() -> Token)] = &[
    ("void", || Token::VoidType),
    ("bool", || Token::BoolType),
    ("int", || Token::IntType),
    ("float", || Token::FloatType),
    ("str", || Token::StrType),
    ("nil", || Token::Nil),
    ("true", || Token::Bool(true)),
    ("false", || Token::Bool(false)),
    ("if", || Token::If),
    ("elif", || Token::Elif),
    ("else", || Token::Else),
    ("case", || Token::Case),
    ("is", || Token::Is),
    ("break", || Token::Break),
    ("continue", || Token::Continue),
    ("in", || Token::In),
    ("loop", || Token::Loop),
    ("blob", || Token::Blob),
    ("externblob", || Token::ExternBlob),
    ("enum", || Token::Enum),
    ("ret", || Token::Ret),
    ("do", || Token::Do),
    ("end", || Token::End),
    ("fn", || Token::Fn),
    ("pu", || Token::Pu),
    ("and", || Token::And),
    ("or", || Token::Or),
    ("not", || Token::Not),
    ("use", || Token::Use),
    ("from", || Token::From),
    ("as", || Token::As),
    ("external", || Token::External),
];

// punctuation, longest first per first character is handled by trying all and taking the longest
const PUNCT: &[(&str, fn() -> Token)] = &[
    ("<<<<<<<", || Token::GitConflictBegin),
    (">>>>>>>", || Token::GitConflictEnd),
    ("<=>", || Token::AssertEqual),
    ("<!>", || Token::Unreachable),
    ("+=", || Token::PlusEqual),
    ("-=", || Token::MinusEqual),
    ("*=", || Token::StarEqual),
    ("/=", || Token::SlashEqual),
    ("::", || Token::ColonColon),
    (":=", || Token::ColonEqual),
    ("==", || Token::EqualEqual),
    ("!=", || Token::NotEqual),
    (">=", || Token::GreaterEqual),
    ("<=", || Token::LessEqual),
    ("->", || Token::Arrow),
    ("+", || Token::Plus),
    ("-", || Token::Minus),
    ("*", || Token::Star),
    ("/", || Token::Slash),
    ("#", || Token::Hash),
    (":", || Token::Colon),
    ("=", || Token::Equal),
    ("(", || Token::LeftParen),
    (")", || Token::RightParen),
    ("[", || Token::LeftBracket),
    ("]", || Token::RightBracket),
    ("{", || Token::LeftBrace),
    ("}", || Token::RightBrace),
    (">", || Token::Greater),
    ("<", || Token::Less),
    ("!", || Token::Bang),
    ("?", || Token::QuestionMark),
    ("|", || Token::Pipe),
    ("'", || Token::Prime),
    (",", || Token::Comma),
    (".", || Token::Dot),
    ("\n", || Token::Newline),
];

#[derive(Debug, Clone)]
pub struct RefTok {
    pub token: Token,
    /// byte offsets
    pub start: usize,
    pub end: usize,
}

fn is_digit(b: u8) -> bool {
    b.is_ascii_digit()
}

/// Independent maximal-munch lexer. Err(byte offset) when no token matches
/// (or a numeric value does not fit), i.e. the text has a lexical error.
pub fn ref_lex(text: &str) -> Result<Vec<RefTok>, usize> {
    let b = text.as_bytes();
    let mut i = 0;
    let mut out = Vec::new();
    while i < b.len() {
        let c = b[i];
        if c == b' ' || c == b'\t' || c == b'\r' {
            i += 1;
            continue;
        }
        // candidates: (len, token)
        let mut best: Option<(usize, Token)> = None;
        let mut consider = |len: usize, t: Token, best: &mut Option<(usize, Token)>| {
            if len > 0 && best.as_ref().map(|(l, _)| len > *l).unwrap_or(true) {
                *best = Some((len, t));
            }
        };
        // identifier / keyword
        if c.is_ascii_alphabetic() || c == b'_' {
            let mut j = i + 1;
            while j < b.len() && (b[j].is_ascii_alphanumeric() || b[j] == b'_') {
                j += 1;
            }
            let word = &text[i..j];
            let t = KEYWORDS.iter().find(|(k, _)| *k == word).map(|(_, f)| f()).unwrap_or_else(|| Token::Identifier(word.to_string()));
            consider(j - i, t, &mut best);
        }
        // string
        if c == b'"' {
            if let Some(rel) = b[i + 1..].iter().position(|x| *x == b'"') {
                let j = i + 1 + rel + 1;
                consider(j - i, Token::String(text[i + 1..j - 1].to_string()), &mut best);
            }
        }
        // numbers
        if is_digit(c) || c == b'.' {
            let mut j = i;
            while j < b.len() && is_digit(b[j]) {
                j += 1;
            }
            let int_end = j;
            let n_int = int_end - i;
            // alternative 1: \d+\.\d*  |  \d*\.\d+
            let mut float_len = 0;
            if int_end < b.len() && b[int_end] == b'.' {
                let mut k = int_end + 1;
                while k < b.len() && is_digit(b[k]) {
                    k += 1;
                }
                let n_frac = k - (int_end + 1);
                if n_int > 0 || n_frac > 0 {
                    float_len = k - i;
                }
            }
            // alternative 2: \d+e(-|\+)?\d+
            let mut exp_len = 0;
            if n_int > 0 && int_end < b.len() && b[int_end] == b'e' {
                let mut k = int_end + 1;
                if k < b.len() && (b[k] == b'-' || b[k] == b'+') {
                    k += 1;
                }
                let ds = k;
                while k < b.len() && is_digit(b[k]) {
                    k += 1;
                }
                if k > ds {
                    exp_len = k - i;
                }
            }
            let fl = float_len.max(exp_len);
            if fl > 0 && fl >= n_int {
                // Float has priority over Int on ties (cannot tie in practice: float is always longer)
                match text[i..i + fl].parse::<f64>() {
                    Ok(v) => consider(fl, Token::Float(v), &mut best),
                    Err(_) => return Err(i),
                }
            } else if n_int > 0 {
                match text[i..int_end].parse::<i64>() {
                    Ok(v) => consider(n_int, Token::Int(v), &mut best),
                    Err(_) => return Err(i),
                }
            }
        }
        // comment
        if c == b'/' && i + 1 < b.len() && b[i + 1] == b'/' {
            let mut j = i + 2;
            while j < b.len() && b[j] != b'\n' {
                j += 1;
            }
            consider(j - i, Token::Comment(text[i + 2..j].trim().to_string()), &mut best);
        }
        // punctuation
        for (p, f) in PUNCT {
            if b[i..].starts_with(p.as_bytes()) {
                consider(p.len(), f(), &mut best);
            }
        }
        match best {
            Some((len, t)) => {
                out.push(RefTok { token: t, start: i, end: i + len });
                i += len;
            }
            None => return Err(i),
        }
    }
    Ok(out)
}

/// Independent line index: for each char index, (line, col) 1-based; plus an end sentinel.
pub struct LineIndex {
    /// char index -> (line, col)
    pub pos: Vec<(usize, usize)>,
    /// byte offset -> char index (only at char boundaries), len+1 entries
    pub byte_to_char: Vec<usize>,
    /// (line) -> char index of first char of that line (line 1 at index 0)
    pub line_start: Vec<usize>,
    pub chars: Vec<char>,
}

impl LineIndex {
    pub fn new(text: &str) -> Self {
        let mut pos = Vec::new();
        let mut byte_to_char = vec![usize::MAX; text.len() + 1];
        let mut line_start = vec![0usize];
        let (mut line, mut col) = (1usize, 1usize);
        let mut chars = Vec::new();
        for (ci, (bi, ch)) in text.char_indices().enumerate() {
            byte_to_char[bi] = ci;
            pos.push((line, col));
            chars.push(ch);
            if ch == '\n' {
                line += 1;
                col = 1;
                line_start.push(ci + 1);
            } else {
                col += 1;
            }
        }
        byte_to_char[text.len()] = chars.len();
        pos.push((line, col)); // sentinel = position just after the last char
        LineIndex { pos, byte_to_char, line_start, chars }
    }
    /// (line, col) -> char index, if it denotes a position inside the text (or its end)
    pub fn offset(&self, line: usize, col: usize) -> Option<usize> {
        if line == 0 || col == 0 || line > self.line_start.len() {
            return None;
        }
        let o = self.line_start[line - 1] + (col - 1);
        if o > self.chars.len() {
            return None;
        }
        Some(o)
    }
}

fn canonical_text(t: &Token) -> Option<String> {
    for (k, f) in KEYWORDS {
        if &f() == t {
            return Some(k.to_string());
        }
    }
    for (p, f) in PUNCT {
        if &f() == t {
            return Some(p.to_string());
        }
    }
    match t {
        Token::Identifier(s) => Some(s.clone()),
        Token::String(s) => Some(format!("\"{}\"", s)),
        _ => None,
    }
}

#[derive(Debug)]
pub struct Verdict {
    pub ntokens: usize,
    pub lex_error: bool,
    pub multiline_string: bool,
    pub problems: Vec<String>,
}

/// The oracle for one text.
pub fn check_text(text: &str) -> Verdict {
    let real: Vec<PlacedToken> = string_to_tokens(0, text);
    let li = LineIndex::new(text);
    let reference = ref_lex(text);
    let mut problems = Vec::new();
    let multiline_string = match &reference {
        Ok(r) => r.iter().any(|t| matches!(&t.token, Token::String(s) if s.contains('\n'))),
        Err(_) => {
            // conservative: a quote and a newline both occur
            text.contains('"') && text.contains('\n')
        }
    };

    // (a) order, no overlap, only blanks between tokens — via the span -> offset mapping
    let mut prev_end = 0usize;
    let mut mapped: Vec<Option<(usize, usize)>> = Vec::new();
    for (k, pt) in real.iter().enumerate() {
        let s = li.offset(pt.span.line_start, pt.span.col_start);
        let e = li.offset(pt.span.line_end, pt.span.col_end);
        match (s, e) {
            (Some(s), Some(e)) if s <= e => {
                if s < prev_end {
                    problems.push(format!("a:overlap token#{} {:?} starts at char {} before previous end {}", k, pt.token, s, prev_end));
                } else {
                    for gi in prev_end..s.min(li.chars.len()) {
                        let g = li.chars[gi];
                        if !(g == ' ' || g == '\t' || g == '\r') {
                            problems.push(format!("a:gap non-blank {:?} at char {} before token#{} {:?}", g, gi, k, pt.token));
                            break;
                        }
                    }
                }
                prev_end = prev_end.max(e);
                mapped.push(Some((s, e)));
            }
            _ => {
                problems.push(format!("a:span token#{} {:?} span {:?} is not a range of the text", k, pt.token, pt.span));
                mapped.push(None);
            }
        }
    }
    for gi in prev_end..li.chars.len() {
        let g = li.chars[gi];
        if !(g == ' ' || g == '\t' || g == '\r') {
            problems.push(format!("a:tail non-blank {:?} at char {} after the last token", g, gi));
            break;
        }
    }

    match &reference {
        Ok(r) => {
            // (b) same tokens, same extents
            if r.len() != real.len() {
                problems.push(format!(
                    "b:count reference has {} tokens, tokenizer {}: ref={:?} real={:?}",
                    r.len(),
                    real.len(),
                    r.iter().map(|t| &t.token).collect::<Vec<_>>(),
                    real.iter().map(|t| &t.token).collect::<Vec<_>>()
                ));
            } else {
                for (k, (rt, pt)) in r.iter().zip(real.iter()).enumerate() {
                    if rt.token != pt.token {
                        problems.push(format!("b:kind token#{} reference {:?} tokenizer {:?}", k, rt.token, pt.token));
                        continue;
                    }
                    // (c) positions from the independent line index
                    let cs = li.byte_to_char[rt.start];
                    let ce = li.byte_to_char[rt.end];
                    let (ls, col_s) = li.pos[cs];
                    // end position: exclusive; expressed on the line of the last char of the token
                    let (le, col_e) = if ce > cs {
                        let (l, c) = li.pos[ce - 1];
                        (l, c + 1)
                    } else {
                        (ls, col_s)
                    };
                    let sp = pt.span;
                    if sp.line_start != ls || sp.col_start != col_s {
                        problems.push(format!(
                            "c:start token#{} {:?} reported {}:{} but its text starts at {}:{}",
                            k, pt.token, sp.line_start, sp.col_start, ls, col_s
                        ));
                    } else if sp.line_end != le || sp.col_end != col_e {
                        problems.push(format!(
                            "c:end token#{} {:?} reported end {}:{} but its text ends at {}:{}",
                            k, pt.token, sp.line_end, sp.col_end, le, col_e
                        ));
                    }
                }
            }
        }
        Err(_) => {
            // only (a) and the self-describing part of (c)
            for (k, (pt, m)) in real.iter().zip(mapped.iter()).enumerate() {
                // whatever the token is (also an error token that runs over several lines): the reported start and end
                // are the line/column of the characters they denote, not some other pair that happens to add up to
                // the same offset (a column past the end of its line)
                if let Some((s, e)) = m {
                    let sp = pt.span;
                    let after = li.pos[*e];
                    let last_plus_one = if e > s { (li.pos[*e - 1].0, li.pos[*e - 1].1 + 1) } else { li.pos[*s] };
                    if (sp.line_start, sp.col_start) != li.pos[*s] {
                        problems.push(format!("c:start token#{} {:?} reported {}:{} but that character is at {}:{}", k, pt.token, sp.line_start, sp.col_start, li.pos[*s].0, li.pos[*s].1));
                    } else if (sp.line_end, sp.col_end) != after && (sp.line_end, sp.col_end) != last_plus_one {
                        problems.push(format!("c:end token#{} {:?} reported end {}:{} but its text ends at {}:{} (or {}:{} counted from its last character)", k, pt.token, sp.line_end, sp.col_end, after.0, after.1, last_plus_one.0, last_plus_one.1));
                    }
                }
            }
            for (pt, m) in real.iter().zip(mapped.iter()) {
                if let (Some(txt), Some((s, e))) = (canonical_text(&pt.token), m) {
                    let have: String = li.chars[*s..(*e).min(li.chars.len())].iter().collect();
                    if have != txt {
                        problems.push(format!("c:text token {:?} span covers {:?}", pt.token, have));
                    }
                }
            }
        }
    }
    Verdict { ntokens: real.len(), lex_error: reference.is_err(), multiline_string, problems }
}

pub const ALPHA17: &[&str] = &["a", "e", "1", ".", "\"", "/", "<", ">", "=", "!", "-", "+", ":", "'", "\n", " ", "ä"];
pub const ALPHA40: &[&str] = &[
    "a", "e", "_", "Z", "0", "9", ".", "\"", "/", "<", ">", "=", "!", "-", "+", "*", ":", "'", "\n", " ", "\t", "\r", "ä", "€", "😀", "#", "(", ")",
    "[", "]", "{", "}", ",", "?", "|", "i", "f", "n", "@", "\\",
];

fn enumerate(alpha: &[&str], prefix: &str, max_extra: usize, f: &mut dyn FnMut(&str)) {
    fn rec(alpha: &[&str], buf: &mut String, left: usize, f: &mut dyn FnMut(&str)) {
        f(buf);
        if left == 0 {
            return;
        }
        for a in alpha {
            let l = buf.len();
            buf.push_str(a);
            rec(alpha, buf, left - 1, f);
            buf.truncate(l);
        }
    }
    let mut buf = prefix.to_string();
    rec(alpha, &mut buf, max_extra, f);
}

struct Params {
    len17: usize,
    len40: usize,
    random: u64,
}

fn params(ctx: &Ctx) -> Params {
    match ctx.tier {
        Tier::Quick => Params { len17: 6, len40: 4, random: 20_000 },
        Tier::Thorough => Params { len17: 7, len40: 5, random: 400_000 },
    }
}

fn judge(text: &str, st: &mut Stats, case: u64, family: &str, by_construction: bool) {
    let v = check_text(text);
    st.count("texts");
    st.add("tokens_checked", v.ntokens as u64);
    if v.lex_error {
        st.count("texts_with_lexical_error(only_a_and_c_checked)");
    }
    if v.multiline_string {
        st.count("texts_with_multiline_string_token");
    }
    if v.ntokens >= 2 && by_construction {
        st.distinct_by_construction += 1;
    }
    if !v.problems.is_empty() {
        let class = v.problems[0].split(' ').next().unwrap_or("?").to_string();
        let hazard = if v.multiline_string { Some("newline_in_string_token".to_string()) } else { None };
        if hazard.is_some() {
            st.count("hazard_case_violations(newline_in_string_token)");
        }
        st.violation(Violation {
            signature: format!("tok:{}", class),
            hazard,
            case,
            detail: J::obj()
                .with("family", J::s(family))
                .with("text", J::s(text))
                .with("problems", J::Arr(v.problems.iter().take(5).map(|p| J::s(p.clone())).collect()))
                .with("tokens", J::s(format!("{:?}", string_to_tokens(0, text)))),
        });
    }
}

impl Check for C17 {
    fn id(&self) -> &'static str {
        "C17"
    }
    fn plan(&self, ctx: &Ctx) -> u64 {
        let p = params(ctx);
        let n17 = (ALPHA17.len() * ALPHA17.len()) as u64; // blocks by 2-symbol prefix
        let n40 = (ALPHA40.len() * ALPHA40.len()) as u64;
        1 + n17 + n40 + KEYWORDS.len() as u64 + ((p.random as f64 * ctx.scale) as u64)
    }
    fn run_case(&self, ctx: &Ctx, index: u64, st: &mut Stats) {
        let p = params(ctx);
        let n17 = (ALPHA17.len() * ALPHA17.len()) as u64;
        let n40 = (ALPHA40.len() * ALPHA40.len()) as u64;
        let nk = KEYWORDS.len() as u64;
        if index == 0 {
            // lengths 0 and 1 of both alphabets
            judge("", st, index, "short", true);
            for a in ALPHA17.iter().chain(ALPHA40.iter()) {
                judge(a, st, index, "short", true);
            }
            st.sample(|| J::obj().with("family", J::s("exhaustive-17")).with("text", J::s("a\"e\n1.<")));
            // character census: every character of Latin-1 / Latin Extended-A / -B and every Unicode character with a
            // "blank", "line break", "invisible" or "special" reputation, alone and between tokens: only ' ', '\t', '\r'
            // may lie between tokens, whatever a character class of the lexer generator thinks a blank is
            // (non-ASCII decimal digits are left out: whether `\d` means them is not documented)
            let mut census: Vec<char> = (1u32..0x250).filter_map(char::from_u32).collect();
            for c in [0x0300u32, 0x0301, 0x034f, 0x061c, 0x1680, 0x180e, 0x2000, 0x2001, 0x2002, 0x2003, 0x2004, 0x2005, 0x2006, 0x2007, 0x2008, 0x2009, 0x200a, 0x200b, 0x200c, 0x200d, 0x200e, 0x200f, 0x2028, 0x2029, 0x202a, 0x202e, 0x202f, 0x205f, 0x2060, 0x2061, 0x2800, 0x3000, 0x3164, 0xe000, 0xfe0f, 0xfeff, 0xfffc, 0xfffd, 0xffff, 0x10000, 0x1d173, 0x1f600, 0xe0001, 0xe0020, 0x10ffff] {
                if let Some(ch) = char::from_u32(c) {
                    census.push(ch);
                }
            }
            let mut n = 0u64;
            for c in census {
                if c.is_numeric() && !c.is_ascii() {
                    continue;
                }
                for t in [format!("{}", c), format!("a{}b", c), format!("1{}2", c), format!("a {} b", c), format!("{}{}", c, c), format!("x\n{}y", c), format!("\"{}\"", c), format!("//{}\nz", c), format!("<{}=", c), format!(":{}:", c), format!("if{}x", c)] {
                    judge(&t, st, index, "character-census", false);
                    n += 1;
                }
            }
            st.add("character_census_texts", n);
            return;
        }
        let mut idx = index - 1;
        if idx < n17 {
            let a = ALPHA17[(idx as usize) / ALPHA17.len()];
            let b = ALPHA17[(idx as usize) % ALPHA17.len()];
            let prefix = format!("{}{}", a, b);
            let mut n = 0u64;
            enumerate(ALPHA17, &prefix, p.len17 - 2, &mut |t| {
                n += 1;
                judge(t, st, index, "exhaustive-17", true);
            });
            st.add("exhaustive17_strings", n);
            if idx == 20 {
                st.sample(|| J::obj().with("family", J::s("exhaustive-17 block")).with("prefix", J::s(prefix.clone())).with("strings_in_block", J::Int(n as i64)));
            }
            return;
        }
        idx -= n17;
        if idx < n40 {
            let a = ALPHA40[(idx as usize) / ALPHA40.len()];
            let b = ALPHA40[(idx as usize) % ALPHA40.len()];
            let prefix = format!("{}{}", a, b);
            let mut n = 0u64;
            enumerate(ALPHA40, &prefix, p.len40 - 2, &mut |t| {
                n += 1;
                judge(t, st, index, "exhaustive-40", true);
            });
            st.add("exhaustive40_strings", n);
            return;
        }
        idx -= n40;
        if idx < nk {
            let (k, _) = KEYWORDS[idx as usize];
            let others: Vec<&str> = ALPHA40.iter().copied().chain(["1", "x", "\"", "//"].into_iter()).collect();
            let mut texts: Vec<String> = vec![k.to_string()];
            for c in &others {
                texts.push(format!("{}{}", k, c));
                texts.push(format!("{}{}", c, k));
                texts.push(format!("{}{}{}", c, k, c));
            }
            for cut in 1..k.len() {
                texts.push(k[..cut].to_string());
                texts.push(format!("{} {}", &k[..cut], &k[cut..]));
            }
            for (k2, _) in KEYWORDS {
                texts.push(format!("{}{}", k, k2));
                texts.push(format!("{} {}", k, k2));
                texts.push(format!("{}\n{}", k, k2));
                texts.push(format!("{}.{}", k, k2));
            }
            for t in &texts {
                judge(t, st, index, "keywords", false);
                if check_text(t).ntokens >= 2 { st.nontrivial(hash64(t.as_bytes())); }
            }
            st.add("keyword_family_texts", texts.len() as u64);
            if idx == 3 {
                st.sample(|| J::obj().with("family", J::s("keywords")).with("texts", J::Arr(texts.iter().take(8).map(|t| J::s(t.clone())).collect())));
            }
            return;
        }
        idx -= nk;
        // random texts
        let mut rng = Rng::for_case(ctx.seed, "C17", idx);
        let len = 1 + rng.below(200);
        let mut t = String::new();
        let frags: &[&str] = &[
            "foo", "x1", "_", "if", "else", "end", "do", "fn", "ret", "loop", "123", "0", "1.5", ".5", "2.", "1e5", "1e-3", "1e+2", "9223372036854775807",
            "9223372036854775808", "1e999", "\"", "\"str\"", "\"multi\nline\"", "// comment", "//", "/", "/=", "<", "<=", "<=>", "<!>", "<<<<<<<", ">>>>>>>",
            "<<<<<<", "->", "-", "-=", ":", "::", ":=", "=", "==", "!", "!=", "'", ",", ".", "..", "(", ")", "[", "]", "{", "}", "\n", "\n\n", " ", "  ", "\t",
            "\r\n", "ä", "åäö", "€", "😀", "é", "#", "?", "|", "@", "$", "\\", "externblob", "external", "nil", "true", "false", "not", "and", "or",
        ];
        while t.chars().count() < len {
            t.push_str(*rng.pick(frags));
            if rng.chance(1, 3) {
                t.push(' ');
            }
        }
        judge(&t, st, index, "random", false);
        st.count("random_texts");
        let lines = t.matches('\n').count() as u64;
        st.maxi("lines_in_a_random_text", lines + 1);
        st.nontrivial(hash64(t.as_bytes()));
        if idx < 2 {
            st.sample(|| J::obj().with("family", J::s("random")).with("text", J::s(t.clone())));
        }
    }
    fn replay_witness(&self, _ctx: &Ctx, f: &Finding) -> Option<String> {
        let text = f.raw.get("witness_text").and_then(|x| x.as_str())?;
        let v = check_text(text);
        v.problems.first().map(|p| format!("tok:{}", p.split(' ').next().unwrap_or("?")))
    }
    fn finish(&self, ctx: &Ctx, st: &Stats) -> Finish {
        let p = params(ctx);
        let mut inconclusive = Vec::new();
        if st.get("tokens_checked") < 100_000 {
            inconclusive.push(format!("only {} tokens were checked", st.get("tokens_checked")));
        }
        Finish {
            level: "exploration",
            rule: format!(
                "exhaustive: all strings of length<= {} over the 17-symbol alphabet {:?} and of length<= {} over a 40-symbol alphabet; a character census (every character below U+0250 and 45 blank / invisible / special Unicode characters, alone and between tokens in 11 contexts); keyword families; {} random texts (<=200 chars). \
                 A text is non-trivial when the tokenizer returns >= 2 tokens; exhaustive texts are distinct by construction, random ones by content hash.",
                p.len17, ALPHA17, p.len40, st.get("random_texts")
            ),
            extra: J::obj().with("bounded_part_exhaustive", J::Bool(true)).with(
                "oracle",
                J::s("independent maximal-munch lexer + independent line index; texts with a lexical error are checked for tiling and self-describing token text only"),
            ),
            assumptions: vec![
                "\\d in the token table means ASCII digits (alphabets contain no other digits)".into(),
                "extent of error tokens is unspecified and not checked".into(),
                "a multi-line string token must end at (line of closing quote, column after it)".into(),
            ],
            exhaustive: true,
            inconclusive,
        }
    }
}

