//! C02 — type soundness: a program the compiler accepts never hits a dynamic
//! type error. Workload: almost-well-typed programs (a well-typed generated
//! program with 1-3 type-perturbing edits) and a list of tricky templates; those
//! the compiler accepts are executed under luamon's strict monitors.
use crate::ast::*;
use crate::c08_09_14::{apply_plant, scope_plants};
use crate::fw::*;
use crate::gen::{self, map_exprs_program, Cfg};
use crate::json::J;
use crate::lua::{self, Loaded};
use crate::print::*;
use crate::rel::{compile_budgeted, print_with};
use crate::rng::{hash64, Rng};
use crate::sy::Compiled;

pub struct C02;

fn random_literal(rng: &mut Rng) -> Expr {
    match rng.below(9) {
        0 => Expr::Int(rng.range(0, 9)),
        1 => Expr::Float(1.5, "1.5".into()),
        2 => Expr::Str("s".into()),
        3 => Expr::Bool(true),
        4 => Expr::Tuple(vec![Expr::Int(1), Expr::Str("t".into())]),
        5 => Expr::List(vec![Expr::Int(1)], Ty::Int),
        6 => Expr::Tuple(vec![]),
        7 => Expr::List(vec![Expr::Str("l".into())], Ty::Str),
        _ => Expr::Variant { en: EnumRef::Maybe(Ty::Int), variant: "None".into(), payload: None },
    }
}

/// apply one edit; returns a description or None when the edit found no site
fn perturb(p: &mut Program, rng: &mut Rng, typed_globals: &[BId]) -> Option<&'static str> {
    let kind = rng.below(12);
    if kind == 11 {
        // the operator of an assignment becomes another one (`=` `+=` `-=` `*=` `/=`): a compound assignment
        // applies its operator to target and value, whatever else the types are used for afterwards
        let mut total = 0usize;
        crate::visit::blocks_mut(p, &mut |b: &mut Block, _c: &crate::visit::BlockCtx| {
            total += b.stmts.iter().filter(|s| matches!(s, Stmt::Assign { .. })).count();
            false
        });
        if total == 0 {
            return None;
        }
        let target = rng.below(total);
        let new = [AssignOp::Set, AssignOp::Add, AssignOp::Sub, AssignOp::Mul, AssignOp::Div][rng.below(5)];
        let mut seen = 0usize;
        let mut changed = false;
        crate::visit::blocks_mut(p, &mut |b: &mut Block, _c: &crate::visit::BlockCtx| {
            for st in b.stmts.iter_mut() {
                if let Stmt::Assign { op, .. } = st {
                    if seen == target && *op != new {
                        *op = new;
                        changed = true;
                    }
                    seen += 1;
                }
            }
            false
        });
        return if changed { Some("assignment-operator-changed") } else { None };
    }
    if kind == 0 {
        // move a use out of its scope / before its declaration
        let plants = scope_plants(p);
        if plants.is_empty() {
            return None;
        }
        let pl = rng.pick(&plants).clone();
        *p = apply_plant(p, &pl);
        return Some("use-outside-scope");
    }
    if kind == 1 {
        // change the declared type of a local or parameter
        let cands: Vec<BId> = (0..p.binders.len()).filter(|b| *b != p.start && !p.binders[*b].ty.is_fn()).collect();
        if cands.is_empty() {
            return None;
        }
        let b = *rng.pick(&cands);
        let new = match rng.below(5) {
            0 => Ty::Int,
            1 => Ty::Str,
            2 => Ty::Float,
            3 => Ty::Bool,
            _ => Ty::Tuple(vec![Ty::Int, Ty::Int]),
        };
        if p.binders[b].ty == new {
            return None;
        }
        p.binders[b].ty = new;
        return Some("declared-type-changed");
    }
    // expression-level edits: pick the k-th node matching a predicate
    let want: &'static str = match kind {
        2 | 3 => "replace-subexpression-by-literal",
        4 => "call-arguments-changed",
        5 => "field-renamed",
        6 => "else-arm-dropped",
        7 => "variant-payload-changed",
        8 => "operand-swapped-with-literal",
        10 => "binary-operator-changed",
        _ => "call-of-non-function",
    };
    let mut total = 0usize;
    let matches_kind = |e: &Expr| -> bool {
        match want {
            "replace-subexpression-by-literal" => true,
            "call-arguments-changed" => matches!(e, Expr::Call { .. } | Expr::StdCall { .. }),
            "field-renamed" => matches!(e, Expr::Field(..)),
            "else-arm-dropped" => matches!(e, Expr::If { els: Some(_), .. } | Expr::Case { els: Some(_), .. }),
            "variant-payload-changed" => matches!(e, Expr::Variant { .. }),
            "operand-swapped-with-literal" | "binary-operator-changed" => matches!(e, Expr::Bin(..)),
            _ => matches!(e, Expr::Call { .. }),
        }
    };
    map_exprs_program(p, &mut |e: &mut Expr| {
        if matches_kind(e) {
            total += 1;
        }
    });
    if total == 0 {
        return None;
    }
    let target = rng.below(total);
    // replacement operands: literals or (half of the time) global constants of the four scalar types -
    // variables have larger inference classes than literals
    let pick = |rng: &mut Rng| -> Expr {
        if !typed_globals.is_empty() && rng.chance(1, 2) {
            Expr::Var(*rng.pick(typed_globals))
        } else {
            random_literal(rng)
        }
    };
    let lit = pick(rng);
    let lit2 = pick(rng);
    let r = rng.next();
    let mut seen = 0usize;
    map_exprs_program(p, &mut |e: &mut Expr| {
        if !matches_kind(e) {
            return;
        }
        if seen == target {
            match want {
                "replace-subexpression-by-literal" => *e = lit.clone(),
                "call-arguments-changed" => {
                    if let Expr::Call { args, .. } | Expr::StdCall { args, .. } = e {
                        match r % 4 {
                            0 if args.len() >= 2 => args.swap(0, 1),
                            1 if !args.is_empty() => {
                                args.pop();
                            }
                            2 => args.push(lit.clone()),
                            _ => {
                                if let Some(a) = args.first_mut() {
                                    *a = lit.clone();
                                }
                            }
                        }
                    }
                }
                "field-renamed" => {
                    if let Expr::Field(_, f) = e {
                        *f = ["f0", "f1", "f2", "m1", "nope", "g"][(r % 6) as usize].to_string();
                    }
                }
                "else-arm-dropped" => match e {
                    Expr::If { els, .. } => *els = None,
                    Expr::Case { els, .. } => *els = None,
                    _ => {}
                },
                "variant-payload-changed" => {
                    if let Expr::Variant { payload, .. } = e {
                        *payload = match r % 3 {
                            0 => None,
                            _ => Some(Box::new(lit.clone())),
                        };
                    }
                }
                "binary-operator-changed" => {
                    if let Expr::Bin(op, ..) = e {
                        let all = [BinOp::Add, BinOp::Sub, BinOp::Mul, BinOp::Div, BinOp::Eq, BinOp::Ne, BinOp::Lt, BinOp::Le, BinOp::Gt, BinOp::Ge, BinOp::And, BinOp::Or];
                        *op = all[(r % 12) as usize];
                    }
                }
                "operand-swapped-with-literal" => {
                    if let Expr::Bin(_, a, b) = e {
                        if r % 2 == 0 {
                            **a = lit.clone();
                        } else {
                            **b = lit2.clone();
                        }
                    }
                }
                _ => {
                    if let Expr::Call { callee, .. } = e {
                        **callee = lit.clone();
                    }
                }
            }
        }
        seen += 1;
    });
    Some(want)
}

/// Hand-written programs that probe known weak spots of the inference (each is judged like any other accepted program).
const TEMPLATES: &[(&str, Option<&str>, &str)] = &[
    (
        "function-typed parameter of generic type used at two types",
        Some("generic_function_parameter_used_at_two_types"),
        "inc :: fn x: int -> int do\n    x + 1\nend\n\ntwice :: fn f: fn *A -> *A -> void do\n    print(f(\"s\"))\n    print(f(1))\nend\n\nstart :: fn do\n    twice(inc)\nend\n",
    ),
    (
        "unannotated function parameter used at two types",
        Some("generic_function_parameter_used_at_two_types"),
        "inc :: fn x: int -> int do\n    x + 1\nend\n\nboth :: fn f: fn *A -> *A, a: *A, b: *B -> void do\n    print(f(a))\n    print(f(b))\nend\n\nstart :: fn do\n    both(inc, 1, \"s\")\nend\n",
    ),
    (
        "closure pushing into a captured empty list at two types",
        Some("closure_writes_captured_variable_at_two_types"),
        "start :: fn do\n    l := []\n    add :: fn x do\n        list.push(l, x)\n    end\n    add(1)\n    add(\"s\")\n    print(list.fold(l, 0, pu x, acc -> acc + x end))\nend\n",
    ),
    (
        "closure assigning a captured variable at two types",
        Some("closure_writes_captured_variable_at_two_types"),
        "start :: fn do\n    cell := Maybe.None\n    put :: fn x do\n        cell = Maybe.Just x\n    end\n    put(1)\n    put(\"s\")\n    case cell do\n        Just v -> print(v + 1) end\n        None -> print(0) end\n    end\nend\n",
    ),
    // ill-typed programs whose mismatch is only visible through inference (normally rejected; if a tree
    // accepts them, running them shows the dynamic type error)
    ("deferred `a - b` applied to an int and a str variable", None, "sub :: fn a, b ->\n    a - b\nend\n\nstart :: fn do\n    x := 1\n    y := \"s\"\n    print(sub(x, y))\nend\n"),
    ("deferred `a + 1` applied to a str variable after an int use", None, "inc :: fn a ->\n    a + 1\nend\n\nstart :: fn do\n    print(inc(1))\n    s :: \"x\"\n    print(inc(s))\nend\n"),
    ("deferred field access applied to a blob variable without the field", None, "Q :: blob {\n    y: int,\n}\n\nget :: fn p ->\n    p.x + 1\nend\n\nstart :: fn do\n    q := Q { y: 2 }\n    print(get(q))\nend\n"),
    ("deferred `a < b` applied to bool variables", None, "lt :: fn a, b ->\n    a < b\nend\n\nstart :: fn do\n    t := true\n    f := false\n    print(lt(t, f))\nend\n"),
    ("deferred `-a` applied to a str variable", None, "neg :: fn a ->\n    -a\nend\n\nstart :: fn do\n    s := \"abc\"\n    print(neg(s))\nend\n"),
    ("deferred call applied to an int variable", None, "app :: fn f: fn int -> int, x: int -> int do\n    f(x)\nend\n\nstart :: fn do\n    n := 3\n    g := n\n    print(app(g, 1))\nend\n"),
    ("deferred tuple index applied to a shorter tuple variable", None, "third :: fn t ->\n    t[2]\nend\n\nstart :: fn do\n    p := (1, 2)\n    print(third(p))\nend\n"),
    ("identity used at two types (sound)", None, "id :: fn x -> x end\n\nstart :: fn do\n    print(id(1) + 1)\n    print(id(\"a\") + \"b\")\nend\n"),
    ("list of Maybe from library and source (sound)", None, "start :: fn do\n    l := [1, 2]\n    m := [list.get(l, 0), Maybe.None, Maybe.Just 3]\n    print(m)\nend\n"),
    (
        "blob field of generic type read at another type",
        None,
        "G :: blob(*T) {\n    v: *T,\n}\n\nget :: fn g: G(*T) -> *T do\n    g.v\nend\n\nstart :: fn do\n    a := G { v: 1 }\n    b := G { v: \"s\" }\n    print(get(a) + 1)\n    print(get(b) + \"t\")\nend\n",
    ),
    (
        "recursive function with inferred return used as int and str",
        None,
        "f :: fn n: int ->\n    if n <= 0 do\n        ret 0\n    end\n    f(n - 1) + 1\nend\n\nstart :: fn do\n    print(f(3) + 1)\nend\n",
    ),
    (
        "mutable global holding a function reassigned with another signature",
        None,
        "h := fn x: int -> int do\n    x + 1\nend\n\nstart :: fn do\n    print(h(1))\n    h = fn x: int -> int do\n        x * 2\n    end\n    print(h(2))\nend\n",
    ),
    (
        "narrow blob assigned to a variable holding a wider blob, wide field read afterwards",
        None,
        "Zn :: blob {\n    a: int,\n}\n\nZw :: blob {\n    a: int,\n    b: int,\n}\n\nstart :: fn do\n    v := Zw { a: 1, b: 2 }\n    v = Zn { a: 10 }\n    print(v.a + v.b)\nend\n",
    ),
    (
        "if-expression whose later arm is a narrower blob, wide field read afterwards",
        None,
        "Zn :: blob {\n    a: int,\n}\n\nZw :: blob {\n    a: int,\n    b: int,\n}\n\npickb :: fn c: bool ->\n    if c do\n        Zw { a: 1, b: 2 }\n    else do\n        Zn { a: 10 }\n    end\nend\n\nstart :: fn do\n    print(pickb(false).b + 1)\nend\n",
    ),
    (
        "list of a wide and a narrow blob, wide field read from every element",
        None,
        "Zn :: blob {\n    a: int,\n}\n\nZw :: blob {\n    a: int,\n    b: int,\n}\n\nstart :: fn do\n    l := [Zw { a: 1, b: 2 }]\n    list.push(l, Zn { a: 3 })\n    list.for_each(l, fn e do\n        print(e.b + 1)\n    end)\nend\n",
    ),
    (
        "method reading a field of self that the blob lacks",
        None,
        "B :: blob {\n    n: int,\n    get: fn -> int,\n}\n\nstart :: fn do\n    b := B { n: 1, get: fn -> int do\n        self.m + 1\n    end }\n    print(b.get())\nend\n",
    ),
    (
        "method using a field of self at another type",
        None,
        "B :: blob {\n    n: int,\n    get: fn -> str,\n}\n\nstart :: fn do\n    b := B { n: 1, get: fn -> str do\n        self.n + \"s\"\n    end }\n    print(b.get())\nend\n",
    ),
    (
        "un-annotated recursive function whose own result is used at a type contradicting the definition",
        None,
        "f :: fn n ->\n    if n <= 0 do\n        ret \"s\"\n    end\n    if 1.5 <= f(n - 1) do\n        print(1)\n    end\n    \"t\"\nend\n\nstart :: fn do\n    print(f(2))\nend\n",
    ),
    (
        "un-annotated recursive function passing another type to itself",
        None,
        "f :: fn n, v ->\n    if n <= 0 do\n        ret v + 1\n    end\n    f(n - 1, \"s\")\nend\n\nstart :: fn do\n    print(f(2, 1))\nend\n",
    ),
    ("quotient of an un-annotated parameter compared with a str", None, "f :: fn p ->\n    (p / 2) > \"s\"\nend\n\nstart :: fn do\n    print(f(1.0))\nend\n"),
    ("quotient of an un-annotated parameter compared with the value of an else-less if", None, "f :: fn p, c ->\n    (p / 2) > (if c do\n        0.0\n    end)\nend\n\nstart :: fn do\n    print(f(1.0, false))\nend\n"),
    ("un-annotated recursive function called with another type from a nested closure", None, "count :: fn x, n do\n    if n > 0 do\n        again :: fn do\n            count(\"oops\", n - 1)\n        end\n        again()\n    end\n    y :: x + 1\n    print(y)\nend\n\nstart :: fn do\n    count(1, 1)\nend\n"),
    ("nested fold: inner callback returns the outer callback's list parameter where a str accumulates", None, "start :: fn do\n    x := fold([[\"l\"]], \"0\", pu h6, h7 ->\n            fold([9], h7, pu h8, h9 ->\n                    h6\n                end)\n        end)\n    print(x + \"-\")\nend\n"),
    ("tuple by number with an un-annotated str element", None, "half :: fn x do\n    q :: (x, 1.0) / 2.0\n    print(q)\nend\n\nstart :: fn do\n    half(\"abc\")\nend\n"),
    ("tuple subtraction with string elements", None, "start :: fn do\n    a := (\"ab\", 3)\n    b := (\"b\", 1)\n    print(a - b)\nend\n"),
    ("ret of a str inside the trailing if of an int function, result used as int", None, "classify :: fn x: int -> int do\n    if x < 0 do\n        ret \"negative\"\n    else do\n        1\n    end\nend\n\nstart :: fn do\n    a: int = classify(-3)\n    print(a + 1)\nend\n"),
    ("ret of a str inside the trailing case of an int function, result used as int", None, "pick :: fn m: Maybe(int) -> int do\n    case m do\n        Just v -> v end\n        None -> ret \"none\" end\n    end\nend\n\nstart :: fn do\n    print(pick(Maybe.None) * 3)\nend\n"),
    ("ret of a tuple inside the trailing if of a function with inferred int result", None, "half :: fn x: int ->\n    if x < 0 do\n        ret (x, x)\n    else do\n        x\n    end\nend\n\nstart :: fn do\n    print(half(-2) + 1)\nend\n"),
    ("deferred tuple comparison applied to a str element", None, "lt :: fn p ->\n    (p, 1) < (6, 1)\nend\n\nstart :: fn do\n    s := \"x\"\n    print(lt(s))\nend\n"),
    ("deferred tuple subtraction applied to a str element", None, "sub :: fn p ->\n    (p, 1) - (6, 1)\nend\n\nstart :: fn do\n    s := \"x\"\n    print(sub(s))\nend\n"),
    ("tuple addition with string elements (sound: concatenation)", None, "start :: fn do\n    t := (1, \"a\") + (2, \"b\")\n    print(t)\n    u := t\n    u += (1, \"c\")\n    print(u)\nend\n"),
    // a local defined from the previous / outer variable of the same name: the initialiser is evaluated before the
    // new variable exists (sound programs: judged like any other accepted program, they must not read a nil local)
    ("inner local defined from the outer one through a call taking a function literal", None, "apply :: fn f: fn int -> int, v: int -> int do\n    ret f(v)\nend\n\nstart :: fn do\n    n := 3\n    do\n        n := apply(fn x: int -> int do ret x * 2 end, n)\n        print(n + 1)\n    end\n    print(n + 1)\nend\n"),
    ("local redefined from itself through an arrow call taking a function literal", None, "apply_to :: fn v: int, f: fn int -> int -> int do\n    ret f(v)\nend\n\nstart :: fn do\n    total := 10\n    total := total -> apply_to(fn x: int -> int do ret x + 1 end)\n    print(total + 1)\nend\n"),
    ("list redefined from itself through map and filter", None, "start :: fn do\n    xs := [1, 2, 3]\n    xs := xs -> map(pu x -> x * 2 end)\n    xs := filter(xs, pu x -> x > 2 end)\n    print(fold(xs, 0, pu x, acc -> acc + x end) + 1)\nend\n"),
    ("local redefined from itself by plain arithmetic, in a loop body", None, "start :: fn do\n    n := 1\n    i := 0\n    loop i < 2 do\n        i += 1\n        n := n + i\n        print(n * 2)\n    end\n    print(n * 2)\nend\n"),
    ("function literal argument reading the outer variable of the name being defined", None, "apply :: fn f: fn int -> int, v: int -> int do\n    ret f(v)\nend\n\nstart :: fn do\n    k := 5\n    do\n        k := apply(fn x: int -> int do ret x + k end, 1)\n        print(k + 1)\n    end\nend\n"),
    // the value of a compound assignment is its own target (nothing to unify)
    ("bool *= itself", None, "start :: fn do\n    m := false\n    m *= m\n    print(1)\nend\n"),
    ("annotated bool += itself in a nested block", None, "start :: fn do\n    i := 0\n    if i < 100 do\n        m: bool = false\n        m += m\n    end\n    print(i)\nend\n"),
    ("str -= itself", None, "start :: fn do\n    s := \"a\"\n    s -= s\n    print(s)\nend\n"),
    ("str field *= itself", None, "B :: blob {\n    s: str,\n}\n\nstart :: fn do\n    b := B { s: \"a\" }\n    b.s *= b.s\n    print(1)\nend\n"),
    // assignment through a constant index (only tuples have one, and they are immutable)
    ("assignment to a tuple element", None, "start :: fn do\n    t := (1, 2)\n    t[0] = 5\n    print(t)\nend\n"),
    ("compound assignment to a tuple element held in a blob", None, "B :: blob {\n    pair: (int, int),\n}\n\nstart :: fn do\n    b := B { pair: (1, 2) }\n    b.pair[1] += 7\n    print(b.pair)\nend\n"),
    ("assignment to an element of a nested tuple", None, "start :: fn do\n    tt := ((1, 2), 3)\n    tt[0][1] = 5\n    print(tt)\nend\n"),
    // the name of a type where a value is expected
    // `self` of a blob literal exists only once the blob is built: code that runs while the fields are being evaluated must not read it
    ("self read by a function literal that a field initialiser calls at once", None, "R :: blob {\n    w: int,\n    h: int,\n    area: int,\n}\n\nnow :: fn f: fn -> int -> int do\n    f()\nend\n\nstart :: fn do\n    r := R { w: 2, h: 3, area: now(fn -> int do self.w * self.h end) }\n    print(r.area + 1)\nend\n"),
    ("self read in another argument of the call that initialises a method field", None, "C :: blob {\n    base: int,\n    next: fn -> int,\n}\n\noffset :: fn b: int, step: fn -> int -> fn -> int do\n    fn -> int do b + step() end\nend\n\nstart :: fn do\n    c := C { base: 10, next: offset(self.base, fn -> int do 1 end) }\n    print(c.next() + 1)\nend\n"),
    ("self read directly by a field initialiser", None, "R :: blob {\n    w: int,\n    twice: int,\n}\n\nstart :: fn do\n    r := R { w: 2, twice: self.w * 2 }\n    print(r.twice + 1)\nend\n"),
    ("self read by a function literal that is called where it is written", None, "R :: blob {\n    w: int,\n    twice: int,\n}\n\nstart :: fn do\n    r := R { w: 2, twice: (fn -> int do self.w * 2 end)() }\n    print(r.twice + 1)\nend\n"),
    ("self read by a function literal inside a list that a field initialiser folds at once", None, "R :: blob {\n    w: int,\n    sum: int,\n}\n\nstart :: fn do\n    r := R { w: 2, sum: fold([1, 2], 0, fn e: int, acc: int -> int do acc + e + self.w end) }\n    print(r.sum + 1)\nend\n"),
    ("self read in an arrow call that initialises a field", None, "R :: blob {\n    w: int,\n    twice: int,\n}\n\ndbl :: fn a: int -> int do\n    a * 2\nend\n\nstart :: fn do\n    r := R { w: 2, twice: self.w -> dbl() }\n    print(r.twice + 1)\nend\n"),
    ("self read by a method only after construction (sound)", None, "R :: blob {\n    w: int,\n    get: fn -> int,\n}\n\nstart :: fn do\n    r := R { w: 2, get: fn -> int do self.w * 2 end }\n    print(r.get() + 1)\nend\n"),
    ("self of the outer blob read by the method of an inner blob literal", None, "I :: blob {\n    get: fn -> int,\n}\n\nO :: blob {\n    w: int,\n    mk: fn -> I,\n}\n\nstart :: fn do\n    o := O { w: 2, mk: fn -> I do\n        I { get: fn -> int do 7 end }\n    end }\n    print(o.mk().get() + o.w)\nend\n"),
    ("field read on the name of a blob type", None, "B :: blob {\n    n: int,\n}\n\nstart :: fn do\n    print(B.n)\nend\n"),
    ("field assignment on the name of a blob type", None, "B :: blob {\n    n: int,\n}\n\nstart :: fn do\n    B.n = 5\n    print(1)\nend\n"),
    ("name of a blob type stored in a variable and read through it", None, "B :: blob {\n    n: int,\n}\n\nstart :: fn do\n    y := B\n    print(y.n + 1)\nend\n"),
    ("name of a blob type passed to a function expecting an instance", None, "B :: blob {\n    n: int,\n}\n\nget :: fn b: B -> int do\n    b.n\nend\n\nstart :: fn do\n    print(get(B) + 1)\nend\n"),
    // compound assignments whose target and value have the same type, for which the operator is not defined; the
    // result only flows to places whose type is already known (declared result, plain `=`, a condition)
    ("str *= str in a loop, result only returned through a declared str", None, "rep :: fn s: str, n: int -> str do\n    out := s\n    i := 1\n    loop i < n do\n        out *= s\n        i += 1\n    end\n    out\nend\n\nstart :: fn do\n    print(rep(\"ab\", 3))\nend\n"),
    ("str -= str, result only stored by a plain assignment", None, "start :: fn do\n    a := \"ab\"\n    b := \"b\"\n    a -= b\n    c := \"\"\n    c = a\n    print(\"done\")\nend\n"),
    ("bool += bool, result only used as a condition", None, "either :: fn a: bool, b: bool -> bool do\n    seen := a\n    seen += b\n    seen\nend\n\nstart :: fn do\n    if either(false, true) do\n        print(\"yes\")\n    end\nend\n"),
    ("bool *= bool on a blob field", None, "B :: blob {\n    on: bool,\n}\n\nstart :: fn do\n    b := B { on: true }\n    b.on *= false\n    if b.on do\n        print(1)\n    end\nend\n"),
    (
        "fn field declared to return a later-declared blob given a fn returning a str",
        None,
        "Shape :: blob {\n    origin: fn int -> Point,\n}\n\nPoint :: blob {\n    x: int,\n}\n\nstart :: fn do\n    s := Shape { origin: fn k: int -> str do\n        ret \"nowhere\"\n    end }\n    print(s.origin(2).x + 1)\nend\n",
    ),
    (
        "case binding of a generic Maybe used after unification with another payload",
        None,
        "start :: fn do\n    m := Maybe.None\n    case m do\n        Just v -> print(v + 1) end\n        None -> print(0) end\n    end\n    n := Maybe.Just \"s\"\n    print(n == n)\nend\n",
    ),
];

fn all_annot(_s: AnnotSite) -> bool {
    true
}
fn no_annot(_s: AnnotSite) -> bool {
    false
}

/// Execute an accepted program under the strict monitors; Some(signature) if a dynamic type error was observed.
fn dynamic_type_event(lua_text: &str, st: &mut Stats) -> Option<(String, String)> {
    let chunk = match lua::load(lua_text) {
        Loaded::Ok(c) => c,
        Loaded::GreyZone(_) => {
            st.count("no_verdict:grey_zone");
            return None;
        }
        Loaded::Error { class, line, msg } => return Some((format!("load:{}", class), format!("line {}: {}", line, msg))),
    };
    let rr = lua::run(&chunk, true);
    st.count("accepted_programs_executed");
    st.add("tag_checks:arithmetic_ops", rr.counters.arith_ops);
    st.add("tag_checks:calls", rr.counters.calls);
    st.add("tag_checks:field_reads", rr.counters.field_reads);
    st.add("tag_checks:variable_reads", rr.counters.v_reads_checked);
    st.add("tag_checks:comparisons", rr.counters.compares);
    let line_of = |n: u32| lua_text.lines().nth(n.saturating_sub(1) as usize).unwrap_or("").trim().to_string();
    for e in &rr.events {
        match e {
            lua::Event::Coercion { op, line, from } if *op != ".." => return Some((format!("dynamic:coercion:{}", op), format!("{} operand coerced at line {}: {}", from, line, line_of(*line)))),
            lua::Event::MissingField { field, line } => return Some(("dynamic:missing-field".into(), format!("field {} at line {}: {}", field, line, line_of(*line)))),
            lua::Event::UninitRead { name, kind, line } => {
                let l = line_of(*line);
                if l.starts_with("do return V") || l.starts_with("return V") {
                    continue;
                }
                return Some((format!("dynamic:uninitialised-read:{}", kind), format!("{} at line {}: {}", name, line, l)));
            }
            lua::Event::Interference { name, line, .. } => return Some(("dynamic:interference".into(), format!("{} at line {}", name, line))),
            _ => {}
        }
    }
    match &rr.outcome {
        lua::Outcome::Ok | lua::Outcome::Budget(_) => {
            st.count("executions:ok_or_budget");
            None
        }
        lua::Outcome::Error(e) => match &e.class {
            lua::ErrClass::AssertFailed | lua::ErrClass::StackOverflow => {
                st.count("executions:sylt_defined_failure");
                None
            }
            lua::ErrClass::Crash(m) if m.starts_with("Reached unreachable code") => {
                st.count("executions:sylt_defined_failure");
                None
            }
            other => Some((format!("dynamic:{}", lua::class_name(other)), format!("{} (line {}): {}", e.msg, e.line, line_of(e.line)))),
        },
    }
}

impl Check for C02 {
    fn id(&self) -> &'static str {
        "C02"
    }
    fn plan(&self, ctx: &Ctx) -> u64 {
        scaled(ctx, 12_000, 300_000)
    }
    fn run_case(&self, ctx: &Ctx, index: u64, st: &mut Stats) {
        let mut rng = Rng::for_case(ctx.seed, "C02", index);
        if (index as usize) < TEMPLATES.len() * 2 {
            // tricky templates, with and without std shortcuts (second pass identical; kept for stable indices)
            let (name, hazard, text) = TEMPLATES[(index as usize) % TEMPLATES.len()];
            st.count("templates_tried");
            match compile_budgeted(text) {
                Compiled::Ok(b) => {
                    st.count("templates_accepted");
                    if let Some((sig, what)) = dynamic_type_event(&String::from_utf8_lossy(&b), st) {
                        st.violation(Violation { signature: sig, hazard: hazard.map(|s| s.to_string()), case: index, detail: J::obj().with("template", J::s(name)).with("source", J::s(text)).with("observed", J::s(what)) });
                    }
                }
                Compiled::Err { .. } => st.count("templates_rejected"),
                _ => {}
            }
            return;
        }
        let p0 = gen::generate(&mut rng, Cfg::general(2));
        let mut p = p0.clone();
        // four global constants, one per scalar type, as replacement operands
        let mut typed_globals = Vec::new();
        for (hint, ty, init) in [("zgi", Ty::Int, Expr::Int(1)), ("zgs", Ty::Str, Expr::Str("s".into())), ("zgb", Ty::Bool, Expr::Bool(true)), ("zgf", Ty::Float, Expr::Float(1.5, "1.5".into()))] {
            let b = p.new_binder(hint, ty, false, BKind::Global);
            p.items.insert(0, Item::Global { b, init });
            typed_globals.push(b);
        }
        let nedits = 1 + rng.below(3);
        let mut edits = Vec::new();
        for _ in 0..nedits {
            if let Some(e) = perturb(&mut p, &mut rng, &typed_globals) {
                edits.push(e);
            }
        }
        if edits.is_empty() {
            st.count("no_edit_site");
            return;
        }
        for e in &edits {
            st.count(&format!("edit_tried:{}", e));
        }
        let name = default_name(&p);
        // the same program with its top-level items reversed / shuffled: initialisation order must
        // still put every global before its readers (reads through if/case arms, closures, calls)
        let n_items = p.items.len();
        let reversed: Vec<usize> = (0..n_items).rev().collect();
        let mut shuffled: Vec<usize> = (0..n_items).collect();
        rng.shuffle(&mut shuffled);
        let renderings: [(&str, &dyn Fn(AnnotSite) -> bool, Option<&[usize]>); 4] = [
            ("annotated", &all_annot, None),
            ("annotations erased", &no_annot, None),
            ("annotated, top-level items reversed", &all_annot, Some(&reversed)),
            ("annotations erased, top-level items shuffled", &no_annot, Some(&shuffled)),
        ];
        for (label, annot, order) in renderings {
            let text = print_with(&p, &name, annot, None, None, order);
            st.count("perturbed_programs_compiled");
            match compile_budgeted(&text) {
                Compiled::Err { .. } => st.count("perturbed:rejected"),
                Compiled::Fuel => st.count("perturbed:compile_budget"),
                Compiled::Panic { location, .. } => st.violation(Violation { signature: format!("compile:panic@{}", location), hazard: None, case: index, detail: J::obj().with("source", J::s(text.clone())) }),
                Compiled::Ok(b) => {
                    st.count("perturbed:accepted");
                    for e in &edits {
                        st.count(&format!("edit_accepted:{}", e));
                    }
                    let lua_text = String::from_utf8_lossy(&b).to_string();
                    match dynamic_type_event(&lua_text, st) {
                        Some((sig, what)) => {
                            st.violation(Violation {
                                signature: sig,
                                hazard: None,
                                case: index,
                                detail: J::obj().with("edits", J::Arr(edits.iter().map(|e| J::s(*e)).collect())).with("rendering", J::s(label)).with("source", J::s(text.clone())).with("observed", J::s(what)),
                            });
                        }
                        None => {
                            st.nontrivial(hash64(text.as_bytes()));
                            if st.samples.len() < 3 {
                                let t = text.clone();
                                let ed = edits.clone();
                                st.sample(|| J::obj().with("accepted_perturbed_program", J::s(t)).with("edits", J::Arr(ed.iter().map(|e| J::s(*e)).collect())));
                            }
                        }
                    }
                }
            }
        }
    }
    fn replay_witness(&self, _ctx: &Ctx, f: &Finding) -> Option<String> {
        let text = f.raw.get("witness_text").and_then(|x| x.as_str())?;
        let mut st = Stats::default();
        match compile_budgeted(text) {
            Compiled::Ok(b) => dynamic_type_event(&String::from_utf8_lossy(&b), &mut st).map(|(s, _)| s),
            _ => None,
        }
    }
    fn finish(&self, ctx: &Ctx, st: &Stats) -> Finish {
        let mut inconclusive = Vec::new();
        let floor = if ctx.tier == Tier::Quick { 200 } else { 2000 };
        if st.get("accepted_programs_executed") < floor {
            inconclusive.push(format!("only {} accepted perturbed programs were executed (< {})", st.get("accepted_programs_executed"), floor));
        }
        if st.get("tag_checks:variable_reads") < 10_000 {
            inconclusive.push("blind-monitor guard: fewer than 10000 variable reads observed".into());
        }
        Finish {
            level: "exploration",
            rule: "almost-well-typed programs: a well-typed generated program with 1-3 type-perturbing edits on the abstract program (sub-expression replaced by a literal of another type, call arguments swapped/dropped/added/retyped, field renamed, else arm dropped, variant payload changed, binary operand retyped, callee replaced by a non-function, declared type of a binder changed, a use moved outside its scope or before its declaration), rendered fully annotated and with all annotations erased, each also with the top-level items reversed / shuffled (definition order must not let a global be read before it is initialised); plus hand-written probes of inference weak spots. Programs the compiler accepts are executed under luamon with strict monitors: any Lua error of class arith/call/index/compare/concat or a failed preamble assertion, a string coerced in arithmetic, a missing blob field, an uninitialised variable read is a violation; <=> failure, <!>, budgets and stack overflow are Sylt-defined outcomes. Non-trivial: accepted and executed perturbed programs; distinct by source hash.".into(),
            extra: J::obj(),
            assumptions: vec!["luamon's strict monitors define 'dynamic type error'; rejected perturbed programs are only counted".into()],
            exhaustive: false,
            inconclusive,
        }
    }
}
