//! C07 — the compiler is total: compile + render every error never panics,
//! aborts, returns an empty error list, or exhausts the logical fuel.
use crate::fw::*;
use crate::gen::{self, Cfg};
use crate::json::J;
use crate::rng::{hash64, Rng};
use crate::sy::{self, Compiled, CompileOpts, Files};
use std::sync::OnceLock;

const CENSUS_TARGETS: &[&str] = &["x", "t[0]", "t[1]", "tt[0][1]", "tt[0]", "l[0]", "b.n", "b.pair[1]", "b.inner.m", "b.inner.q[0]", "b.l[0]", "b.l", "(t)[0]", "mk().n", "mk().pair[0]", "b.f()", "x.y", "x[0]", "mk", "B.n", "t[2]", "b.nope"];
const CENSUS_SLOTS: u64 = 22 * 5 * 4;

pub struct C07;

pub const FUEL: u64 = 30_000_000;

fn corpus() -> &'static Vec<(String, String)> {
    static C: OnceLock<Vec<(String, String)>> = OnceLock::new();
    C.get_or_init(|| {
        let mut out = Vec::new();
        fn walk(dir: &std::path::Path, out: &mut Vec<(String, String)>) {
            let Ok(rd) = std::fs::read_dir(dir) else { return };
            let mut entries: Vec<_> = rd.flatten().map(|e| e.path()).collect();
            entries.sort();
            for p in entries {
                if p.is_dir() {
                    walk(&p, out);
                } else if p.extension().map(|e| e == "sy").unwrap_or(false) {
                    if let Ok(t) = std::fs::read_to_string(&p) {
                        out.push((p.display().to_string(), t));
                    }
                }
            }
        }
        walk(std::path::Path::new("/repo/tests"), &mut out);
        walk(std::path::Path::new("/repo/std"), &mut out);
        out
    })
}

const TOKENS: &[&str] = &[
    "a", "b", "x", "f", "start", "self", "Foo", "Bar", "A", "print", "list", "Maybe", "Just", "None", "1", "0", "2.5", ".5", "1e5", "\"s\"", "\"\"", "true", "false", "nil", "void",
    "bool", "int", "float", "str", "if", "elif", "else", "case", "is", "break", "continue", "in", "loop", "blob", "externblob", "enum", "ret", "do", "end", "fn", "pu", "and", "or", "not",
    "use", "from", "as", "external", "+", "-", "*", "/", "+=", "-=", "*=", "/=", "#", ":", "::", ":=", "=", "==", "!=", "<=>", "<!>", "(", ")", "[", "]", "{", "}", ">", ">=", "<", "<=",
    "!", "?", "|", "'", ",", ".", "->", "\n", "\n", "\n", "// c\n", "<<<<<<<", ">>>>>>>", "=======", "@", "$", "ä", "9999999999999999999999", "1.2.3", "_", "__NIL", "V1",
];

fn random_tokens(rng: &mut Rng) -> String {
    let n = 1 + rng.below(120);
    let mut out = String::new();
    let mut stack: Vec<&str> = Vec::new();
    for _ in 0..n {
        if rng.chance(7, 10) {
            // structural bias: open/close brackets in a balanced way, depth <= 8
            match rng.below(12) {
                0 if stack.len() < 8 => {
                    let (o, c) = *rng.pick(&[("(", ")"), ("[", "]"), ("{", "}"), ("do\n", "end\n"), ("fn do\n", "end\n"), ("if true do\n", "end\n")]);
                    out.push_str(o);
                    stack.push(c);
                    continue;
                }
                1 if !stack.is_empty() => {
                    out.push_str(stack.pop().unwrap());
                    out.push(' ');
                    continue;
                }
                _ => {}
            }
        }
        out.push_str(*rng.pick(TOKENS));
        out.push(' ');
    }
    if rng.chance(1, 2) {
        while let Some(c) = stack.pop() {
            out.push_str(c);
            out.push(' ');
        }
    }
    out
}

fn char_boundary(s: &str, mut i: usize) -> usize {
    while i < s.len() && !s.is_char_boundary(i) {
        i += 1;
    }
    i.min(s.len())
}

fn mutate(rng: &mut Rng, text: &str, other: &str) -> String {
    let mut t = text.to_string();
    let n = 1 + rng.below(3);
    for _ in 0..n {
        if t.is_empty() {
            t.push_str(*rng.pick(TOKENS));
            continue;
        }
        let a = char_boundary(&t, rng.below(t.len()));
        let b = char_boundary(&t, (a + rng.below(40)).min(t.len()));
        match rng.below(10) {
            0 => t.replace_range(a..b, ""),
            1 => {
                let seg = t[a..b].to_string();
                t.insert_str(a, &seg);
            }
            2 => t.insert_str(a, &format!(" {} ", rng.pick(TOKENS))),
            3 => t.truncate(a),
            4 => {
                // splice with another file
                let c = char_boundary(other, rng.below(other.len().max(1)));
                t = format!("{}{}", &t[..a], &other[c..]);
            }
            5 => {
                // replace an identifier-like word with a keyword
                let words: Vec<(usize, usize)> = word_spans(&t);
                if !words.is_empty() {
                    let (s, e) = words[rng.below(words.len())];
                    t.replace_range(s..e, *rng.pick(TOKENS));
                }
            }
            6 => t = t.replacen("end", "", 1 + rng.below(2)),
            7 => t.insert_str(a, "\nend\n"),
            8 => {
                // swap two lines
                let mut lines: Vec<&str> = t.lines().collect();
                if lines.len() >= 2 {
                    let i = rng.below(lines.len());
                    let j = rng.below(lines.len());
                    lines.swap(i, j);
                    t = lines.join("\n");
                }
            }
            _ => {
                // change one character
                let ch = *rng.pick(&['(', ')', '{', '}', '"', '\'', ':', '.', ',', '\n', ' ', '-', '>', 'ä', '#']);
                t.replace_range(a..char_boundary(&t, a + 1), &ch.to_string());
            }
        }
    }
    t
}

fn word_spans(t: &str) -> Vec<(usize, usize)> {
    let b = t.as_bytes();
    let mut out = Vec::new();
    let mut i = 0;
    while i < b.len() {
        if b[i].is_ascii_alphabetic() || b[i] == b'_' {
            let s = i;
            while i < b.len() && (b[i].is_ascii_alphanumeric() || b[i] == b'_') {
                i += 1;
            }
            out.push((s, i));
        } else {
            i += 1;
        }
    }
    out
}

/// near-valid programs: things later phases assume earlier ones filtered
fn near_valid(rng: &mut Rng) -> (String, Option<&'static str>) {
    let decls_in_fn: &[(&str, Option<&'static str>)] = &[
        ("    Inner :: blob { a: int }\n    x := Inner { a: 1 }\n", None),
        ("    Inner :: enum A, B end\n", None),
        ("    Outer :: blob { a: int }\n", Some("type_declared_in_function_shadowing_a_global_type")),
        ("    OuterE :: enum X, Y end\n", Some("type_declared_in_function_shadowing_a_global_type")),
        ("    use list\n", None),
        ("    from list use push\n", None),
        ("    ext: fn -> int : external\n", None),
        ("    self.x = 1\n", None),
        ("    x := self\n", None),
        ("    start()\n", None),
        ("    q := start\n", None),
        ("    y :: fn self do end\n", None),
        ("    Outer.a = 1\n", None),
        ("    z := Outer\n", None),
        ("    z := OuterE.X.Y\n", None),
        ("    z := list\n", None),
        ("    list = 1\n", None),
        ("    z := list.nope\n", None),
        ("    z := list.push.x\n", None),
        ("    case 1 do end\n", None),
        ("    case OuterE.X do else end end\n", None),
        ("    x := ()\n    y := x[0]\n", None),
        ("    x := (1,)[0]\n", None),
        ("    x : Outer(int) = 1\n", None),
        ("    x : Maybe(int, int) = Maybe.None\n", None),
        ("    x : *T = 1\n", None),
        ("    x : fn *A -> *B : fn a do a end\n", None),
        ("    f :: fn<N: Num> a: *N do end\n", None),
        ("    x : fn<N: Nope> *N -> *N : fn a do a end\n", None),
        ("    x := fn -> do end\n", None),
        ("    ret ret\n", None),
        ("    loop loop do end do end\n", None),
        ("    x := if true do 1 end\n", None),
        ("    x := if true do else do end\n", None),
        ("    x := 1 <=> 1 <=> 1\n", None),
        ("    x := 9223372036854775807 + 1\n", None),
        ("    x := -9223372036854775808\n", None),
        ("    x := 1e999\n", None),
        ("    x := \"multi\nline\"\n", None),
        ("    cy := 1\n    cz := [cy]\n", None),
        ("    q1 := list.get([1], 0)\n    q2 := [q1, q1]\n    q1 == q1\n", None),
    ];
    // a variable unified with a composite containing itself (no occurs check), then used with an operator
    let cyclic: &[&str] = &[
        "zcyc :: fn x do\n    y := x\n    y = (y,)\n    y + y\nend\n",
        "zcyc :: fn x do\n    y := x\n    y = (y, 1)\n    z := y < y\nend\n",
        "zcyc :: fn x do\n    y := x\n    y = (y,)\n    z := y == y\nend\n",
        "zcyc :: fn x do\n    y := x\n    y = [y]\n    print(y)\nend\n",
        "zcyc :: fn x do\n    y := x\n    y = (1, (y, 2))\n    z := y * y\nend\n",
        "zcyc :: fn x ->\n    y := x\n    y = (y,)\n    y - y\nend\nzuse :: fn do\n    zcyc(1)\nend\n",
    ];
    if rng.chance(1, 6) {
        let c = cyclic[rng.below(cyclic.len())];
        return (format!("{}start :: fn do\nend\n", c), Some("cyclic_type_through_assignment"));
    }
    // an error whose source line holds multi-byte characters in front of (or inside) the reported span:
    // rendering reads the file again and underlines by column (materialised on disk by the caller)
    if rng.chance(1, 8) {
        let pieces = ["å", "ö", "é", "日", "本", "😀", "a", "b", " ", "ß", "€"];
        let n = 1 + rng.below(14);
        let lit: String = (0..n).map(|_| pieces[rng.below(pieces.len())]).collect();
        let line = match rng.below(6) {
            0 => format!("    x := \"{}\" + 1\n", lit),
            1 => format!("    x := \"{}\" undefined_q\n", lit),
            2 => format!("    x := (\"{}\", \"{}\") + 1\n", lit, lit),
            3 => format!("    print(\"{}\", \"{}\", 1 +)\n", lit, lit),
            4 => format!("    y := \"{}\"    z := undefined_name_q // {}\n", lit, lit),
            _ => format!("\tx := \"{}\" - \"{}\" // {}\n", lit, lit, lit),
        };
        return (format!("start :: fn do\n{}end\n", line), None);
    }
    // a cyclic structural type that only has to be PRINTED in a diagnostic (no operator rule recurses
    // into it): must give a rendered error, not an abort - not a hazard case
    let cyclic_printed: &[&str] = &[
        "zcyc :: fn do\n    l := []\n    l = [l]\n    x : int = l\nend\n",
        "zcyc :: fn do\n    t := (1, [])\n    t = (2, [t])\n    t + \"a\"\nend\n",
        "zcyc :: fn do\n    l := []\n    l = [l]\n    l.nofield\nend\n",
        "zcyc :: fn do\n    l := []\n    l = [l]\n    l()\nend\n",
        "zcyc :: fn x do\n    y := x\n    y = (y,)\n    z : str = y\nend\n",
        "zcyc :: fn do\n    l := []\n    l = [(1, l)]\n    not l\nend\n",
        "zcyc :: fn do\n    l := []\n    l = [l]\n    if l do\n    end\nend\n",
    ];
    if rng.chance(1, 8) {
        let c = cyclic_printed[rng.below(cyclic_printed.len())];
        return (format!("{}start :: fn do\nend\n", c), None);
    }
    // entry-point oddities: no `start` definition of its own, but the name is introduced otherwise
    let entry: &[&str] = &[
        "use list as start\n",
        "from list use push as start\n",
        "from list use (push as start, len)\n",
        "use maybe as start\nx :: 1\n",
        "start : fn -> void : external\n",
        "start :: blob { a: int }\n",
        "start :: enum A, B end\n",
        "Start :: fn do end\n",
        "x :: start\n",
        "x :: fn do start() end\n",
        "from main use start\n",
        "use main as start\n",
    ];
    if rng.chance(1, 6) {
        return (entry[rng.below(entry.len())].to_string(), None);
    }
    let outers: &[&str] = &[
        "Outer :: blob { a: int }\nOuterE :: enum X, Y end\n",
        "Outer :: blob { a: int, a: str }\nOuterE :: enum X, X end\n",
        "Outer :: blob(*T) { a: *T }\nOuterE :: enum(*T) X *T, Y end\n",
        "Outer :: blob { a: Outer }\nOuterE :: enum X OuterE, Y end\n",
        "Outer :: blob { a: Nope }\nOuterE :: enum X Nope, Y end\n",
        "Outer :: externblob { a: int }\nOuterE :: enum X, Y end\n",
        "Outer :: 1\nOuterE :: enum X, Y end\n",
    ];
    let tops: &[&str] = &[
        "",
        "start :: 1\n",
        "use start\n",
        "start := fn do end\n",
        "x :: y\ny :: x\n",
        "x :: x\n",
        "u :: x\nx :: x + 1\n",
        "u :: fn do print(x) end\nx :: x + 1\n",
        "u :: x\nx :: y\ny :: x\n",
        "x :: u\nu :: u\n",
        "f :: fn do g() end\ng :: fn do f() end\n",
        "x := 1\nx := 2\n",
        "break\n",
        "ret 1\n",
        "1 + 1\n",
        "x = 1\n",
        "loop do end\n",
        "if true do end\n",
        "x: int : external\n",
        "from main use start\n",
        "use main\n",
        "use /main as m\n",
        "use nope\n",
        "use nope/\n",
        "from list use nope\n",
        "from list use push as start\n",
    ];
    let (d, hz) = decls_in_fn[rng.below(decls_in_fn.len())];
    let mut t = String::new();
    t.push_str(outers[rng.below(outers.len())]);
    t.push_str(tops[rng.below(tops.len())]);
    t.push_str("start :: fn do\n");
    t.push_str(d);
    if rng.chance(1, 3) {
        t.push_str(decls_in_fn[rng.below(decls_in_fn.len())].0);
    }
    t.push_str("end\n");
    (t, hz)
}

fn multi_file(rng: &mut Rng) -> (Files, String) {
    let mut files = Files::new();
    let bodies: &[&str] = &[
        "x :: 1\n",
        "use b\nx :: b.x\n",
        "use a\nx :: 2\n",
        "use main\nx :: 3\n",
        "from a use x\ny :: x\n",
        "from b use (x as z, x)\n",
        "use c/\n",
        "use /c/d\n",
        "use c/d as e\nx :: e.x\n",
        "use list\nx :: 1\n",
        "use a\nuse a\nx :: 1\n",
        "use a as b\nuse b\nx :: 1\n",
        "x :: 1\nx :: 2\n",
        "x :: y\n",
        "",
        "\n\n// only a comment",
        "<<<<<<< HEAD\nx :: 1\n=======\nx :: 2\n>>>>>>> other\n",
        "start :: fn do end\n",
    ];
    let names = ["a.sy", "b.sy", "c/d.sy", "c/exports.sy", "list.sy", "math.sy", "c/c.sy"];
    let n = rng.below(names.len() + 1);
    let mut desc = String::new();
    for k in 0..n {
        if rng.chance(3, 4) {
            let b = bodies[rng.below(bodies.len())];
            files.insert(names[k].to_string(), b.to_string());
            desc.push_str(&format!("{}:{} ", names[k], hash64(b.as_bytes()) % 1000));
        }
    }
    let imports: &[&str] = &["use a\n", "use b\n", "use c/\n", "use c/d\n", "use /c/d as q\n", "from a use x\n", "from a use (x, y)\n", "use list\n", "use math\n", "use a as list\n", "use nope\n", "use c/c\n", "use main\n"];
    let mut main = String::new();
    for _ in 0..rng.below(4) {
        main.push_str(imports[rng.below(imports.len())]);
    }
    if rng.chance(1, 8) {
        main.push_str(*rng.pick(&["use a as start\n", "from a use x as start\n", "from b use (x as start)\n", "use c/ as start\n"]));
        files.insert("main.sy".to_string(), main);
        return (files, desc);
    }
    main.push_str(*rng.pick(&["start :: fn do end\n", "start :: fn do\n    print(a.x)\nend\n", "start :: fn do\n    print(x)\nend\n", "start :: fn do\n    print(c.x + d.x)\nend\n", ""]));
    files.insert("main.sy".to_string(), main);
    (files, desc)
}

fn judge(st: &mut Stats, case: u64, family: &str, files: &Files, main: &str, no_std: bool, hazard: Option<String>) {
    let r = sy::compile_files(files, main, &CompileOpts { no_std, require: None, fuel: Some(FUEL) });
    st.count("compilations");
    st.count(&format!("family:{}", family));
    st.maxi("fuel_used_by_one_compilation", sy::last_fuel_used());
    let detail = |extra: J| {
        J::obj()
            .with("family", J::s(family))
            .with("no_std", J::Bool(no_std))
            .with("main", J::s(main))
            .with("files", J::Obj(files.iter().map(|(k, v)| (k.clone(), J::s(v.clone()))).collect()))
            .with("observed", extra)
    };
    match r {
        Compiled::Ok(b) => {
            st.count("outcome:accepted");
            if b.is_empty() {
                st.violation(Violation { signature: "total:accepted-but-no-output".into(), hazard, case, detail: detail(J::Null) });
            }
        }
        Compiled::Err { errors, .. } => {
            st.count("outcome:rejected");
            st.add("errors_rendered", errors.len() as u64);
            if errors.is_empty() {
                st.violation(Violation { signature: "total:empty-error-list".into(), hazard, case, detail: detail(J::Null) });
            } else if let Some(e) = errors.iter().find(|e| e.display.trim().is_empty() || e.debug.trim().is_empty()) {
                st.violation(Violation { signature: format!("total:error-renders-to-nothing:{}", e.kind), hazard, case, detail: detail(J::s(e.debug.clone())) });
            }
        }
        Compiled::Panic { msg, location, .. } => {
            st.count("outcome:panic");
            st.violation(Violation { signature: format!("total:panic@{}", location), hazard, case, detail: detail(J::s(msg)) });
        }
        Compiled::Fuel => {
            st.count("outcome:fuel-exhausted");
            st.violation(Violation { signature: "total:fuel-exhausted".into(), hazard, case, detail: detail(J::s(format!("more than {} logical steps", FUEL))) });
        }
    }
}

/// Compile in a child process (default 8 MB main-thread stack) so that an abort - native stack
/// overflow, allocation failure - is observed and attributed instead of killing the worker.
fn judge_in_child(st: &mut Stats, case: u64, family: &str, files: &Files, no_std: bool, hazard: Option<String>) {
    let root = verif_root().join(".target").join("runs");
    let _ = std::fs::create_dir_all(&root);
    let path = root.join(format!("c07-{}-{}.json", std::process::id(), case));
    let j = J::obj().with("files", J::Obj(files.iter().map(|(k, v)| (k.clone(), J::s(v.clone()))).collect())).with("no_std", J::Bool(no_std));
    if std::fs::write(&path, j.to_string()).is_err() {
        return;
    }
    let Ok(exe) = std::env::current_exe() else { return };
    let out = std::process::Command::new(exe).arg("c07child").arg(&path).output();
    let _ = std::fs::remove_file(&path);
    st.count("compilations_in_child_processes");
    let Ok(out) = out else { return };
    let text = String::from_utf8_lossy(&out.stdout).to_string();
    let err = String::from_utf8_lossy(&out.stderr).to_string();
    let normal = out.status.code() == Some(0) && text.contains("RESULT");
    if !normal {
        let what = if err.contains("stack overflow") { "stack-overflow" } else if err.contains("memory allocation") { "out-of-memory" } else { "abort" };
        st.count("outcome:abort");
        st.violation(Violation {
            signature: format!("total:abort:{}", what),
            hazard,
            case,
            detail: J::obj()
                .with("family", J::s(family))
                .with("files", J::Obj(files.iter().map(|(k, v)| (k.clone(), J::s(v.clone()))).collect()))
                .with("status", J::s(format!("{:?}", out.status)))
                .with("stderr_tail", J::s(err.chars().rev().take(300).collect::<String>().chars().rev().collect::<String>())),
        });
    }
}

pub fn child_main(path: &str) -> i32 {
    let Ok(text) = std::fs::read_to_string(path) else { return 3 };
    let Ok(j) = crate::json::parse(&text) else { return 3 };
    let mut files = Files::new();
    if let Some(m) = j.get("files").and_then(|x| x.as_obj()) {
        for (k, v) in m {
            files.insert(k.clone(), v.as_str().unwrap_or("").to_string());
        }
    }
    let no_std = matches!(j.get("no_std"), Some(J::Bool(true)));
    let r = sy::compile_files(&files, "main.sy", &CompileOpts { no_std, require: None, fuel: Some(FUEL) });
    println!("RESULT {}", r.brief());
    0
}

/// 10% of the cases are materialised on disk so that error rendering takes the file-reading path.
fn judge_on_disk(st: &mut Stats, case: u64, family: &str, files: &Files, hazard: Option<String>) {
    let dir = verif_root().join(".target").join("runs").join(format!("c07disk-{}-{}", std::process::id(), case));
    let _ = std::fs::remove_dir_all(&dir);
    let mut disk = Files::new();
    for (k, v) in files {
        let p = dir.join(k);
        if let Some(parent) = p.parent() {
            let _ = std::fs::create_dir_all(parent);
        }
        let _ = std::fs::write(&p, v);
        disk.insert(p.display().to_string(), v.clone());
    }
    let main = dir.join("main.sy").display().to_string();
    judge(st, case, &format!("{}(on-disk)", family), &disk, &main, false, hazard);
    let _ = std::fs::remove_dir_all(&dir);
}

impl Check for C07 {
    fn id(&self) -> &'static str {
        "C07"
    }
    fn plan(&self, ctx: &Ctx) -> u64 {
        scaled(ctx, 40_000, 1_200_000)
    }
    fn run_case(&self, ctx: &Ctx, index: u64, st: &mut Stats) {
        if index < CENSUS_SLOTS {
            // assignment census: every form an assignment target can take x every assignment operator x 4 value forms;
            // valid or not, each must come back as Ok or as rendered errors
            let (t, o, v) = ((index as usize) % CENSUS_TARGETS.len(), (index as usize / CENSUS_TARGETS.len()) % 5, (index as usize / (CENSUS_TARGETS.len() * 5)) % 4);
            let stmt = format!("{} {} {}", CENSUS_TARGETS[t], ["=", "+=", "-=", "*=", "/="][o], ["5", "x", "t[0]", "b.n"][v]);
            let text = format!(
                "I :: blob {{\n    m: int,\n    q: (int, int),\n}}\n\nB :: blob {{\n    n: int,\n    pair: (int, int),\n    l: [int],\n    inner: I,\n    f: fn -> int,\n}}\n\nmk :: fn -> B do\n    B {{ n: 1, pair: (1, 2), l: [1], inner: I {{ m: 1, q: (1, 2) }}, f: fn -> int do\n        self.n = 2\n        self.pair[0] = 3\n        self.n\n    end }}\nend\n\nstart :: fn do\n    x := 1\n    t := (1, 2)\n    tt := ((1, 2), 3)\n    l := [1, 2]\n    b := mk()\n    {}\n    print(x)\nend\n",
                stmt
            );
            st.count("assignment_census_programs");
            judge(st, index, "assignment-census", &sy::one_file(&text), "main.sy", false, None);
            st.nontrivial(hash64(text.as_bytes()));
            return;
        }
        let mut rng = Rng::for_case(ctx.seed, "C07", index);
        let corp = corpus();
        let no_std = rng.chance(1, 3);
        let fam = index % 10;
        let (family, files, hazard): (&str, Files, Option<String>) = match fam {
            0 | 1 => ("random-token-sequence", sy::one_file(&random_tokens(&mut rng)), None),
            2 | 3 | 4 => {
                if corp.is_empty() {
                    st.note("inconclusive: corpus /repo/tests not readable");
                    return;
                }
                let (_, a) = &corp[rng.below(corp.len())];
                let (_, b) = &corp[rng.below(corp.len())];
                ("mutated-corpus-file", sy::one_file(&mutate(&mut rng, a, b)), None)
            }
            5 | 6 => {
                let p = gen::generate(&mut rng, Cfg::general(2));
                let t = crate::print::canonical(&p);
                let p2 = gen::generate(&mut rng, Cfg::general(1));
                let t2 = crate::print::canonical(&p2);
                ("mutated-generated-program", sy::one_file(&mutate(&mut rng, &t, &t2)), Some("valid_program_with_many_function_reads".to_string()))
            }
            7 => {
                let (t, hz) = near_valid(&mut rng);
                ("near-valid-program", sy::one_file(&t), hz.map(|s| s.to_string()))
            }
            8 => {
                let (f, _) = multi_file(&mut rng);
                ("multi-file-project", f, None)
            }
            _ => {
                // an unmutated generated program: a valid input must not exhaust the fuel either
                let p = gen::generate(&mut rng, Cfg::general(2 + (index % 3) as u32));
                ("generated-valid-program", sy::one_file(&crate::print::canonical(&p)), Some("valid_program_with_many_function_reads".to_string()))
            }
        };
        let text_hash = hash64(format!("{:?}", files).as_bytes());
        if family == "near-valid-program" {
            // first in a child (an abort must not take the worker down), then in process for the details
            let before = st.violations_total;
            judge_in_child(st, index, family, &files, no_std, hazard.clone());
            if st.violations_total > before {
                st.nontrivial(text_hash);
                return;
            }
        }
        judge(st, index, family, &files, "main.sy", no_std, hazard.clone());
        st.nontrivial(text_hash);
        let non_ascii = files.values().any(|t| !t.is_ascii());
        if index % 10 == 3 || index % 97 == 8 || (family == "near-valid-program" && non_ascii) {
            if non_ascii {
                st.count("rendered_from_disk_with_non_ascii_source");
            }
            judge_on_disk(st, index, family, &files, hazard.clone());
        }
        if index < 12 {
            let f2 = files.clone();
            st.sample(|| J::obj().with("family", J::s(family)).with("files", J::Obj(f2.iter().map(|(k, v)| (k.clone(), J::s(v.chars().take(400).collect::<String>()))).collect())));
        }
    }
    fn replay_witness(&self, _ctx: &Ctx, f: &Finding) -> Option<String> {
        let path = verif_root().join(&f.witness);
        let text = match f.raw.get("witness_text").and_then(|x| x.as_str()) {
            Some(t) => t.to_string(),
            None => std::fs::read_to_string(&path).ok()?,
        };
        if f.feature == "cyclic_type_through_assignment" {
            let mut st = Stats::default();
            judge_in_child(&mut st, 0, "witness", &sy::one_file(&text), false, None);
            return st.violations.first().map(|v| v.signature.clone());
        }
        let r = sy::compile_files(&sy::one_file(&text), "main.sy", &CompileOpts { no_std: false, require: None, fuel: Some(FUEL) });
        match r {
            Compiled::Panic { location, .. } => Some(format!("total:panic@{}", location)),
            Compiled::Fuel => Some("total:fuel-exhausted".into()),
            Compiled::Err { errors, .. } if errors.is_empty() => Some("total:empty-error-list".into()),
            _ => None,
        }
    }
    fn finish(&self, _ctx: &Ctx, st: &Stats) -> Finish {
        let mut inconclusive = Vec::new();
        for fam in ["random-token-sequence", "mutated-corpus-file", "mutated-generated-program", "near-valid-program", "multi-file-project", "generated-valid-program"] {
            if st.get(&format!("family:{}", fam)) == 0 {
                inconclusive.push(format!("input family never run: {}", fam));
            }
        }
        if st.get("outcome:rejected") < 100 || st.get("outcome:accepted") < 100 {
            inconclusive.push("too few accepted or rejected inputs".into());
        }
        Finish {
            level: "exploration",
            rule: format!(
                "inputs: random sequences over the token alphabet (balanced-bracket bias, depth <= 8); byte/token/line mutations, truncations and splices of the {} corpus files and of generated programs; near-valid programs (declarations inside functions, self/start/namespace misuse, recursive and duplicate types, generics, odd literals); multi-file projects with missing/cyclic/self/diamond/conflicting imports and std-named files; valid generated programs; each with or without std; ~10% materialised on disk so that rendering reads the files. Oracle: compile + Display + Debug of every error inside catch_unwind with a logical fuel of {} ticks. Distinct by content hash; all inputs count as non-trivial.",
                corpus().len(),
                FUEL
            ),
            extra: J::obj().with("fuel_limit", J::Int(FUEL as i64)),
            assumptions: vec![
                "non-termination is decided on logical steps (ticks in the parser's token(), typechecker find/inner_copy/check_constraints, module work list), not wall-clock".into(),
                "native stack overflow would kill the worker and be attributed by the journal (none is expected at nesting depth <= 8)".into(),
            ],
            exhaustive: false,
            inconclusive,
        }
    }
}
