//! C20 — driver contract: exit status, all-or-nothing output, flags.
//! The built `sylt` binary is run as a subprocess over an exhaustive matrix of
//! modes x flags x program kinds x output-path states, with `lua` on PATH being
//! the luamon CLI.
use crate::fw::*;
use crate::gen::{self, Cfg};
use crate::json::J;
use crate::lua;
use crate::rng::{hash64, Rng};
use crate::sy::{self, Compiled, CompileOpts};
use std::os::unix::fs::PermissionsExt;
use std::path::{Path, PathBuf};
use std::process::Command;

pub struct C20;

const MODES: &[&str] = &["run", "file", "stdout"];
const PROGS: &[&str] = &["accepted", "rejected", "fails-assert", "reaches-unreachable"];
/// `--require M`: a file name with the .lua suffix, a dotted submodule name, a plain name
const REQUIRES: &[Option<&str>] = &[None, Some("mymod.lua"), Some("pkg.sub"), Some("plain")];
const MODULE_SRC: &str = "MYMOD_LOADED = true\nreturn {}\n";

/// the module name the emitted `require` must carry: M without a trailing `.lua`
fn required_name(m: &str) -> String {
    m.strip_suffix(".lua").unwrap_or(m).to_string()
}

const FILE_STATES: &[&str] = &["absent", "present", "present-larger", "present-empty", "present-prefix", "present-extended", "present-identical", "missing-dir", "readonly-dir", "is-a-directory"];

#[derive(Clone, Debug)]
struct Cell {
    mode: &'static str,
    /// the M of `--require M` (None: flag absent)
    require: Option<&'static str>,
    no_std: bool,
    prog: &'static str,
    file_state: &'static str,
    variant: u64,
}

fn cells() -> Vec<Cell> {
    let mut v = Vec::new();
    for variant in 0..9 {
        for mode in MODES {
            for require in REQUIRES {
                for no_std in [false, true] {
                    for prog in PROGS {
                        if *mode == "file" {
                            for fs in FILE_STATES {
                                v.push(Cell { mode, require: *require, no_std, prog, file_state: fs, variant });
                            }
                        } else {
                            v.push(Cell { mode, require: *require, no_std, prog, file_state: "n/a", variant });
                        }
                    }
                }
            }
        }
    }
    v
}

fn sylt_bin() -> PathBuf {
    verif_root().join(".target/repo-bin/release/sylt")
}
fn lua_bin() -> PathBuf {
    verif_root().join(".target/luamon/release/lua")
}

fn program(kind: &str, no_std: bool, variant: u64, seed: u64) -> String {
    // std-free programs observe through <=> only
    match (kind, no_std) {
        // programs whose emitted Lua has very long lines (a 12 kB string literal, a 1500-element list)
        // preceded by a varying amount of code: output is written in chunks, every byte has to arrive
        ("accepted", false) if variant == 7 => {
            let pad: String = (0..(seed % 23)).map(|k| format!("    p{} := {} + {}\n", k, k, seed % 97)).collect();
            format!("start :: fn do\n{}    s := \"{}\"\n    print(s == s)\n    t := \"{}\"\n    print(t == s)\nend\n", pad, "x".repeat(12_000), "yz".repeat(1_700))
        }
        ("accepted", false) if variant == 8 => {
            let pad: String = (0..(seed % 17)).map(|k| format!("    p{} := {} * 3\n", k, k)).collect();
            let list: String = (0..1500).map(|k| k.to_string()).collect::<Vec<_>>().join(", ");
            format!("start :: fn do\n{}    l := [{}]\n    print(list.len(l))\n    u := \"{}\"\n    print(u == u)\nend\n", pad, list, "q".repeat(3_000))
        }
        ("accepted", true) if variant >= 7 => {
            let pad: String = (0..(seed % 19 + variant)).map(|k| format!("    p{} := {} + 1\n", k, k)).collect();
            format!("start :: fn do\n{}    s := \"{}\"\n    s <=> s\n    t := \"{}\"\n    t <=> t\nend\n", pad, "x".repeat(9_000 + 1000 * variant as usize), "w".repeat(2_500))
        }
        ("accepted", false) => {
            if variant == 0 {
                "start :: fn do\n    x := 1 + 2\n    print(x)\n    x <=> 3\nend\n".to_string()
            } else {
                let mut rng = Rng::for_case(seed, "C20prog", variant);
                // a generated program that terminates normally according to the reference model
                for _ in 0..50 {
                    let p = gen::generate(&mut rng, Cfg::general(2));
                    let r = crate::refsem::run_program(&p, 60_000);
                    if r.outcome == crate::refsem::Outcome::Ok && !r.order_sensitive_field && !r.order_sensitive_var {
                        return crate::print::canonical(&p);
                    }
                }
                "start :: fn do\n    print(1)\nend\n".to_string()
            }
        }
        ("accepted", true) => format!("k :: {}\n\nf :: fn a: int -> int do\n    a * 2\nend\n\nstart :: fn do\n    x := f(k) + 1\n    x <=> {}\nend\n", variant + 1, (variant + 1) * 2 + 1),
        ("rejected", _) => {
            let fixed = [
                "start :: fn do\n    x := 1 + \"s\"\nend\n",
                "start :: fn do\n    x := 1 +\nend\n",
                "start :: fn do\n    y := undefined_q\nend\n",
                "a :: b + 1\nb :: a\nstart :: fn do\nend\n",
                "u :: step\nstep :: step + 1\nstart :: fn do\nend\n",
                "start :: fn do\n    q := step\nend\nstep :: step + 1\n",
                "use nope\nstart :: fn do\nend\n",
                "start :: fn do\nend\nstart :: fn do\nend\n",
                "<<<<<<< HEAD\nstart :: fn do\nend\n",
                // several files: errors in the main file, in a file it imports, in a file that one imports, and a missing file
                "use helper_q\nstart :: fn do\n    x := 1 +\nend\n",
                "use helper_q\nstart :: fn do\nend\n",
                "use okhelper_q\nstart :: fn do\n    y := )\nend\n",
                "use okhelper_q\nuse helper_q\nstart :: fn do\nend\n",
                // several missing files at once
                "use gone_q\nuse gone2_q\nuse okhelper_q\nuse gone3_q\nstart :: fn do\nend\n",
                // errors without a line of their own (the file ends inside a construct; there is no `start`) followed or
                // accompanied by errors in other files: every one of them still has to be printed
                "use helper_q\nstart :: fn do\n    a := (1 +\n",
                "use okhelper_q\nstart :: fn do\n    a := [1,\n",
                "use gone_q\nuse okhelper_q\n\nstart :: fn do\n    a := (1 +\n",
                "use gone_q\nuse gone2_q\nstart :: fn do\n    f(1",
                "k :: 1\n",
                "",
            ];
            // error-count ladder: programs for which the compiler reports N errors at once
            // (N broken lines; an initialisation cycle through N definitions)
            const LADDER: &[usize] = &[2, 3, 16, 100, 255, 256, 257, 511, 512, 513, 768, 1024];
            let k = (variant % (fixed.len() + 2 * LADDER.len()) as u64) as usize;
            if k < fixed.len() {
                fixed[k].to_string()
            } else if k < fixed.len() + LADDER.len() {
                let n = LADDER[k - fixed.len()];
                let mut t = String::new();
                for i in 0..n {
                    t.push_str(&format!("c{} :: )\n", i));
                }
                t.push_str("start :: fn do\nend\n");
                t
            } else {
                let n = LADDER[k - fixed.len() - LADDER.len()];
                let mut t = String::new();
                for i in 0..n {
                    t.push_str(&format!("v{} :: v{} + 1\n", i, (i + 1) % n));
                }
                t.push_str("start :: fn do\nend\n");
                t
            }
        }
        ("fails-assert", _) => format!("start :: fn do\n    x := {}\n    x <=> {}\nend\n", variant, variant + 1),
        (_, _) => format!("start :: fn do\n    x := {}\n    if x == {} do\n        <!>\n    end\nend\n", variant, variant),
    }
}

struct Obs {
    status: Option<i32>,
    stdout: Vec<u8>,
    stderr: Vec<u8>,
}

fn run_sylt(dir: &Path, args: &[String], bindir: &Path) -> Obs {
    let path = format!("{}:/usr/bin:/bin", bindir.display());
    let out = Command::new(sylt_bin()).args(args).current_dir(dir).env("PATH", path).env("NO_COLOR", "1").env_remove("LUAMON_REQUIRE_LOG").output();
    match out {
        Ok(o) => Obs { status: o.status.code(), stdout: o.stdout, stderr: o.stderr },
        Err(e) => Obs { status: None, stdout: Vec::new(), stderr: format!("spawn failed: {}", e).into_bytes() },
    }
}

fn judge_cell(c: &Cell, seed: u64, case: u64, st: &mut Stats) {
    let base = verif_root().join(".target/runs").join(format!("c20-{}-{}", std::process::id(), case));
    let _ = std::fs::remove_dir_all(&base);
    let work = base.join("w");
    let bindir = base.join("bin");
    let _ = std::fs::create_dir_all(&work);
    let _ = std::fs::create_dir_all(&bindir);
    let _ = std::os::unix::fs::symlink(lua_bin(), bindir.join("lua"));
    // rejected programs: the cell's coordinates pick one of 9 hand-written rejections or a rung of the error-count ladder
    let pv = if c.prog == "rejected" { c.variant + 9 * (hash64(format!("{:?}{:?}{}{}", c.mode, c.require, c.no_std, c.file_state).as_bytes()) % 997) } else { c.variant };
    let src = program(c.prog, c.no_std, pv, seed);
    let _ = std::fs::write(work.join("prog.sy"), &src);
    let _ = std::fs::write(work.join("mymod.lua"), MODULE_SRC);
    let _ = std::fs::write(work.join("plain.lua"), MODULE_SRC);
    let _ = std::fs::create_dir_all(work.join("pkg"));
    let _ = std::fs::write(work.join("pkg/sub.lua"), MODULE_SRC);
    // files some rejected programs import: one with a syntax error on line 2 that imports a missing file, and a
    // valid one that imports a file with a syntax error on line 1
    let extras: [(&str, &str); 3] = [("helper_q.sy", "use gone_q\nhv_q :: 1 +\n"), ("okhelper_q.sy", "use deep_q\nov_q :: 1\n"), ("deep_q.sy", "dv_q :: )\n")];
    let mut project = sy::one_file(&src);
    for (n, t) in extras {
        let _ = std::fs::write(work.join(n), t);
        if src.contains("helper_q") {
            project.insert(n.to_string(), t.to_string());
        }
    }
    // what the driver has to mention, known from how these files were written (not from the compiler)
    let mut must_mention: Vec<&str> = Vec::new();
    if src.contains("use helper_q") {
        must_mention.extend(["helper_q.sy:2", "gone_q"]);
    }
    if src.contains("use okhelper_q") {
        must_mention.push("deep_q.sy:1");
    }
    for g in ["gone_q", "gone2_q", "gone3_q"] {
        if src.contains(&format!("use {}\n", g)) {
            must_mention.push(g);
        }
    }
    if src.starts_with("use ") && (src.contains("    x := 1 +\n") || src.contains("    y := )\n")) {
        must_mention.push("prog.sy:3");
    }
    if src.is_empty() || src == "k :: 1\n" {
        must_mention.push("start");
    }
    // expected compile result (in process, same flags)
    let opts = CompileOpts { no_std: c.no_std, require: c.require.map(|m| m.to_string()), fuel: None };
    let expect = sy::compile_files(&project, "main.sy", &opts);
    let compile_ok = expect.is_ok();
    if let Compiled::Panic { msg, location, .. } = &expect {
        st.violation(Violation {
            signature: format!("driver:errors-cannot-be-rendered:panic@{}", location),
            hazard: None,
            case,
            detail: J::obj().with("cell", J::s(format!("{:?}", c))).with("source", J::s(src.clone())).with("panic", J::s(msg.clone())),
        });
        return;
    }
    let expected_bytes: Vec<u8> = match &expect {
        Compiled::Ok(b) => b.clone(),
        _ => Vec::new(),
    };
    // expected run result of the emitted chunk under luamon (in process)
    let mut expected_prints: Vec<String> = Vec::new();
    let run_ok = if compile_ok {
        let text = String::from_utf8_lossy(&expected_bytes).to_string();
        match lua::load(&text) {
            lua::Loaded::Ok(ch) => {
                let mut o = lua::run_opts(false);
                o.modules = vec![("mymod".to_string(), MODULE_SRC.to_string()), ("plain".to_string(), MODULE_SRC.to_string()), ("pkg.sub".to_string(), MODULE_SRC.to_string())];
                o.max_steps = 5_000_000;
                let rr = luamon::run(&ch, &o);
                // the require contract, observed on the real emitted chunk
                if let Some(m) = c.require {
                    let want = required_name(m);
                    let reqs = &ch.census.require_calls;
                    let marker = ch.census.marker_line;
                    let first_user_line = text.lines().enumerate().skip(marker as usize).find(|(_, l)| !l.trim().is_empty()).map(|(i, _)| i as u32 + 1).unwrap_or(0);
                    let ok = reqs.len() == 1 && reqs[0].1 == want && reqs[0].0 > marker && reqs[0].0 <= first_user_line;
                    st.count("require_contract_checked");
                    if !ok {
                        st.violation(Violation {
                            signature: "driver:require-placement".into(),
                            hazard: None,
                            case,
                            detail: J::obj().with("cell", J::s(format!("{:?}", c))).with("require_calls", J::s(format!("{:?}", reqs))).with("marker_line", J::Int(marker as i64)).with("first_line_after_preamble", J::Int(first_user_line as i64)),
                        });
                    }
                    let req_events = rr.events.iter().filter(|e| matches!(e, lua::Event::Require { .. })).count();
                    if matches!(rr.outcome, lua::Outcome::Ok) && req_events != 1 {
                        st.violation(Violation { signature: "driver:require-executed-count".into(), hazard: None, case, detail: J::obj().with("cell", J::s(format!("{:?}", c))).with("executed", J::Int(req_events as i64)) });
                    }
                } else if !ch.census.require_calls.is_empty() {
                    st.violation(Violation { signature: "driver:require-without-flag".into(), hazard: None, case, detail: J::obj().with("cell", J::s(format!("{:?}", c))) });
                }
                expected_prints = rr.prints.clone();
                matches!(rr.outcome, lua::Outcome::Ok)
            }
            _ => false,
        }
    } else {
        false
    };

    // output path state
    let (out_path, pre_content): (PathBuf, Option<Vec<u8>>) = match c.file_state {
        "present" => {
            let p = work.join("out.lua");
            let _ = std::fs::write(&p, b"-- OLD CONTENT --\n");
            (p, Some(b"-- OLD CONTENT --\n".to_vec()))
        }
        "present-larger" => {
            // an earlier, larger build result: the new program must replace it completely
            let p = work.join("out.lua");
            let mut old = Vec::new();
            while old.len() < 200_000 {
                old.extend_from_slice(b"local stale = stale_fn(1, 2, 3) -- OLD BUILD --\n");
            }
            let _ = std::fs::write(&p, &old);
            (p, Some(old))
        }
        "present-empty" | "present-prefix" | "present-extended" | "present-identical" => {
            // the old content stands in every relation to the new output: nothing, a proper prefix of it (an
            // earlier build cut short), the output followed by more text, exactly the output
            let p = work.join("out.lua");
            let old: Vec<u8> = match c.file_state {
                "present-empty" => Vec::new(),
                "present-prefix" => expected_bytes[..expected_bytes.len().min(1000).min(expected_bytes.len().saturating_sub(1))].to_vec(),
                "present-extended" => {
                    let mut o = expected_bytes.clone();
                    o.extend_from_slice(b"print(\"appended by hand\")\n");
                    o
                }
                _ => expected_bytes.clone(),
            };
            let _ = std::fs::write(&p, &old);
            (p, Some(old))
        }
        "missing-dir" => (work.join("no/such/dir/out.lua"), None),
        "readonly-dir" => {
            let d = work.join("ro");
            let _ = std::fs::create_dir_all(&d);
            let _ = std::fs::set_permissions(&d, std::fs::Permissions::from_mode(0o555));
            (d.join("out.lua"), None)
        }
        "is-a-directory" => {
            let d = work.join("outdir");
            let _ = std::fs::create_dir_all(&d);
            (d, None)
        }
        _ => (work.join("out.lua"), None),
    };
    let mut args: Vec<String> = Vec::new();
    if let Some(m) = c.require {
        args.push("--require".into());
        args.push(m.into());
    }
    if c.no_std {
        args.push("--no-std".into());
    }
    match c.mode {
        "file" => {
            args.push("-o".into());
            args.push(out_path.display().to_string());
        }
        "stdout" => {
            args.push("-o".into());
            args.push("-".into());
        }
        _ => {}
    }
    args.push("prog.sy".into());
    let ob = run_sylt(&work, &args, &bindir);
    st.count("driver_invocations");
    st.count(&format!("mode:{}", c.mode));
    st.count(&format!("program:{}", c.prog));
    if c.mode == "file" {
        st.count(&format!("output_path:{}", c.file_state));
    }
    let running_as_root = unsafe { libc_geteuid() } == 0;
    let write_should_fail = match c.file_state {
        "missing-dir" | "is-a-directory" => true,
        "readonly-dir" => !running_as_root, // root ignores directory permissions
        _ => false,
    };
    let expect_success = match c.mode {
        "run" => compile_ok && run_ok,
        "file" => compile_ok && !write_should_fail,
        _ => compile_ok,
    };
    let cell = format!("{:?}", c);
    let detail = |what: &str| {
        J::obj()
            .with("cell", J::s(cell.clone()))
            .with("what", J::s(what))
            .with("args", J::Arr(args.iter().map(|a| J::s(a.clone())).collect()))
            .with("program", J::s(src.clone()))
            .with("exit_status", ob.status.map(|s| J::Int(s as i64)).unwrap_or(J::Null))
            .with("stdout_head", J::s(String::from_utf8_lossy(&ob.stdout).chars().take(400).collect::<String>()))
            .with("stderr_head", J::s(String::from_utf8_lossy(&ob.stderr).chars().take(400).collect::<String>()))
    };
    let mut bad: Option<(&str, String)> = None;
    let success = ob.status == Some(0);
    if success != expect_success {
        bad = Some(("driver:exit-status", format!("exit status {:?} but success expected = {}", ob.status, expect_success)));
    }
    if bad.is_none() && !expect_success {
        // every error is printed (stdout for compile errors and run errors; stderr for panics such as unwritable paths)
        let said = if c.mode == "stdout" && compile_ok { !ob.stderr.is_empty() } else { !(ob.stdout.is_empty() && ob.stderr.is_empty()) };
        if !said {
            bad = Some(("driver:silent-failure", "failed without printing anything".into()));
        }
        if !compile_ok && bad.is_none() {
            // every error the compiler returned is printed: its rendering (colours stripped) appears on stdout
            let text = sy::strip_ansi(&String::from_utf8_lossy(&ob.stdout));
            for m in &must_mention {
                if !text.contains(m) {
                    bad = Some(("driver:planted-error-not-printed", format!("nothing on stdout mentions `{}`", m)));
                }
            }
            if let Compiled::Err { errors, .. } = &expect {
                for e in errors {
                    let first = e.display.lines().find(|l| !l.trim().is_empty()).unwrap_or("").trim().to_string();
                    // in-process paths are "main.sy", the driver saw "prog.sy"
                    let first = first.replace("main.sy", "prog.sy");
                    if !first.is_empty() && !text.contains(&first) {
                        bad = Some(("driver:error-not-printed", format!("the error `{}` is not on stdout", first)));
                        break;
                    }
                }
            }
        }
    }
    if bad.is_none() && c.mode == "file" {
        let now = std::fs::read(&out_path).ok();
        if expect_success {
            if now.as_deref() != Some(&expected_bytes[..]) {
                bad = Some(("driver:file-content", format!("output file has {} bytes, the compiler produced {}", now.map(|b| b.len()).unwrap_or(0), expected_bytes.len())));
            }
        } else if c.file_state.starts_with("present") || c.file_state == "absent" {
            // all-or-nothing: untouched on failure
            if now != pre_content {
                bad = Some(("driver:file-touched-on-failure", format!("output path changed although the command failed (now {:?} bytes)", now.map(|b| b.len()))));
            }
        }
    }
    if bad.is_none() && c.mode == "stdout" && compile_ok && ob.stdout != expected_bytes {
        bad = Some(("driver:stdout-content", format!("-o - wrote {} bytes, the compiler produced {}", ob.stdout.len(), expected_bytes.len())));
    }
    if bad.is_none() && c.mode == "run" && compile_ok && run_ok {
        // what the program printed through the `lua` on PATH must be what luamon printed in process
        st.count("run_mode_executions_compared");
        let mut exp = expected_prints.join("\n");
        if !expected_prints.is_empty() {
            exp.push('\n');
        }
        if String::from_utf8_lossy(&ob.stdout) != exp {
            bad = Some(("driver:run-output", format!("run mode printed {:?}, expected {:?}", String::from_utf8_lossy(&ob.stdout).chars().take(200).collect::<String>(), exp.chars().take(200).collect::<String>())));
        }
    }
    // --no-std changes nothing for std-free programs
    if bad.is_none() && c.no_std && compile_ok {
        let with_std = sy::compile_files(&sy::one_file(&src), "main.sy", &CompileOpts { no_std: false, require: opts.require.clone(), fuel: None });
        match with_std {
            Compiled::Ok(b) => {
                let run = |bytes: &[u8]| -> String {
                    match lua::load(&String::from_utf8_lossy(bytes)) {
                        lua::Loaded::Ok(ch) => {
                            let mut o = lua::run_opts(false);
                            o.modules = vec![("mymod".to_string(), "return {}\n".to_string()), ("plain".to_string(), "return {}\n".to_string()), ("pkg.sub".to_string(), "return {}\n".to_string())];
                            let rr = luamon::run(&ch, &o);
                            format!("{:?} {:?}", rr.prints, match rr.outcome {
                                lua::Outcome::Ok => "ok".to_string(),
                                lua::Outcome::Budget(b) => format!("budget {}", b),
                                lua::Outcome::Error(e) => lua::class_name(&e.class),
                            })
                        }
                        other => format!("{:?}", other).chars().take(80).collect(),
                    }
                };
                st.count("no_std_equivalence_checked");
                if run(&b) != run(&expected_bytes) {
                    bad = Some(("driver:no-std-changes-behaviour", format!("with std: {} / without: {}", run(&b), run(&expected_bytes))));
                }
            }
            _ => bad = Some(("driver:no-std-changes-acceptance", "accepted with --no-std but rejected without".into())),
        }
    }
    match bad {
        Some((sig, what)) => st.violation(Violation { signature: sig.to_string(), hazard: None, case, detail: detail(&what) }),
        None => {
            st.count("cells_as_specified");
            st.nontrivial(hash64(cell.as_bytes()));
            if case < 3 {
                st.sample(|| detail("as specified"));
            }
        }
    }
    // cleanup (read-only dir must be made writable first)
    let _ = std::fs::set_permissions(work.join("ro"), std::fs::Permissions::from_mode(0o755));
    let _ = std::fs::remove_dir_all(&base);
}

extern "C" {
    #[link_name = "geteuid"]
    fn libc_geteuid() -> u32;
}

impl Check for C20 {
    fn id(&self) -> &'static str {
        "C20"
    }
    fn plan(&self, ctx: &Ctx) -> u64 {
        let n = cells().len() as u64;
        match ctx.tier {
            Tier::Quick => n,
            Tier::Thorough => n * 4,
        }
    }
    fn run_case(&self, ctx: &Ctx, index: u64, st: &mut Stats) {
        if !sylt_bin().exists() || !lua_bin().exists() {
            st.note("inconclusive: the sylt binary or the lua shim has not been built (./check builds them for C20)");
            return;
        }
        let cs = cells();
        let mut c = cs[(index as usize) % cs.len()].clone();
        c.variant += 3 * (index / cs.len() as u64);
        judge_cell(&c, ctx.seed, index, st);
    }
    fn finish(&self, _ctx: &Ctx, st: &Stats) -> Finish {
        let mut inconclusive = Vec::new();
        if st.get("driver_invocations") < 300 {
            inconclusive.push(format!("only {} driver invocations", st.get("driver_invocations")));
        }
        for m in MODES {
            if st.get(&format!("mode:{}", m)) == 0 {
                inconclusive.push(format!("mode never run: {}", m));
            }
        }
        Finish {
            level: "fault_enumeration",
            rule: "exhaustive matrix: {run (lua on PATH = luamon CLI), -o FILE, -o -} x {no --require, --require mymod.lua, --require pkg.sub (dotted submodule), --require plain} x {--no-std, std} x {accepted, rejected, fails <=>, reaches <!>} x (for -o FILE) {FILE absent, present with short old content, present with a larger earlier build result, present and empty, present holding a proper prefix of the new output, the new output plus appended text, exactly the new output, in a missing directory, in a read-only directory, is a directory}, 9 program variants per cell (hand-written, generated, and programs whose emitted Lua has 3-12 kB lines; rejected programs: 20 hand-written kinds (9 of them spread over several files or importing several missing ones, 6 with errors that have no line of their own - the file ends inside a construct, there is no `start` - with errors planted at known file:line places that the output has to mention) plus an error-count ladder - N broken lines or an initialisation cycle through N definitions, N in 2..1024 around 256 and 512). Oracle per cell: exit status 0 iff compile (and run) succeed and the output is writable; errors printed; FILE byte-equal to the in-process compilation or untouched on failure; -o - stdout byte-equal; exactly one `require` call naming M (without a trailing .lua), placed after the preamble marker and not after the first emitted statement, executed once; std-free programs behave the same with and without --no-std. Non-trivial & distinct: matrix cells.".into(),
            extra: J::obj().with("matrix_cells", J::Int(cells().len() as i64)),
            assumptions: vec![
                "the `lua` the driver spawns is the luamon CLI (no real Lua in the sandbox); when running as root a read-only directory is writable, that column then expects success".into(),
                "a panic (exit 101, message on stderr) counts as a printed error with non-zero status".into(),
            ],
            exhaustive: true,
            inconclusive,
        }
    }
}
