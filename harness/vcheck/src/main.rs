//! vcheck — runtime-monitoring checks for sylt-lang (see /verif/DESIGN.md).
mod fw;
mod json;
mod rng;
mod sy;

mod ast;
mod c01;
mod c02;
mod c06;
mod c07;
mod c08_09_14;
mod c11_12;
mod c13;
mod c15;
mod c16;
mod c17;
mod c18;
mod c19;
mod c20;
mod gen;
mod lua;
mod plant;
mod print;
mod refsem;
mod rel;
mod scope;
mod visit;

use fw::{Check, Tier};

fn registry() -> Vec<&'static dyn Check> {
    vec![&c01::C01, &c02::C02, &c01::C10, &c11_12::C11, &c11_12::C12, &plant::C03, &plant::C04, &plant::C05, &c06::C06, &c07::C07, &c08_09_14::C08, &c08_09_14::C09, &c13::C13, &c08_09_14::C14, &c15::C15, &c16::C16, &c17::C17, &c18::C18, &c19::C19, &c20::C20]
}

fn find(id: &str) -> Option<&'static dyn Check> {
    registry().into_iter().find(|c| c.id() == id)
}

fn usage() -> ! {
    eprintln!("usage: vcheck <Cnn> <quick|thorough>\n       vcheck replay <Cnn> <tier> <seed> <case>\n       vcheck worker ... (internal)\n       vcheck selftest");
    std::process::exit(2)
}

fn tier(s: &str) -> Tier {
    match s {
        "quick" => Tier::Quick,
        "thorough" => Tier::Thorough,
        _ => usage(),
    }
}

fn main() {
    let args: Vec<String> = std::env::args().skip(1).collect();
    if args.is_empty() {
        usage();
    }
    match args[0].as_str() {
        "worker" => {
            if args.len() != 7 {
                usage();
            }
            let Some(c) = find(&args[1]) else { usage() };
            let mut ctx = fw::ctx_from_env(tier(&args[2]));
            ctx.seed = args[3].parse().unwrap_or(1);
            let shard: u64 = args[4].parse().unwrap_or(0);
            let shards: u64 = args[5].parse().unwrap_or(1);
            std::process::exit(fw::worker_main(c, ctx, shard, shards, args[6].clone()));
        }
        "genprobe" => {
            let n: u64 = args.get(1).and_then(|s| s.parse().ok()).unwrap_or(1000);
            let seed: u64 = args.get(2).and_then(|s| s.parse().ok()).unwrap_or(1);
            let show: usize = args.get(3).and_then(|s| s.parse().ok()).unwrap_or(5);
            fw::on_big_stack(move || gen_probe(n, seed, show));
        }
        "luarun" => {
            let text = std::fs::read_to_string(&args[1]).expect("read");
            match lua::load(&text) {
                lua::Loaded::Ok(c) => {
                    let r = lua::run(&c, true);
                    for p in r.prints.iter().take(40) {
                        println!("{}", p);
                    }
                    println!("outcome: {:?}\nevents: {:?}\ncounters: {:?}", r.outcome, r.events.iter().take(5).collect::<Vec<_>>(), r.counters);
                }
                other => println!("{:?}", other),
            }
        }
        "fuel" => {
            let text = std::fs::read_to_string(&args[1]).expect("read");
            let t0 = std::time::Instant::now();
            let r = sy::compile_files(&sy::one_file(&text), "main.sy", &sy::CompileOpts { fuel: Some(50_000_000), ..Default::default() });
            println!("{} ticks={} ms={}", r.brief(), sy::last_fuel_used(), t0.elapsed().as_millis());
        }
        "c07child" => {
            std::process::exit(c07::child_main(args.get(1).map(|s| s.as_str()).unwrap_or("")));
        }
        "c16child" => {
            std::process::exit(c16::child_main(args.get(1).map(|s| s.as_str()).unwrap_or("")));
        }
        "replay" => {
            if args.len() != 5 {
                usage();
            }
            let Some(c) = find(&args[1]) else { usage() };
            let mut ctx = fw::ctx_from_env(tier(&args[2]));
            ctx.seed = args[3].parse().unwrap_or(1);
            let case: u64 = args[4].parse().unwrap_or(0);
            std::process::exit(fw::replay_case(c, ctx, case));
        }
        id => {
            if args.len() != 2 {
                usage();
            }
            let Some(c) = find(id) else {
                eprintln!("unknown property {}", id);
                std::process::exit(2)
            };
            let ctx = fw::ctx_from_env(tier(&args[1]));
            std::process::exit(fw::master_main(c, ctx));
        }
    }
}

pub fn gen_probe(n: u64, seed: u64, show: usize) {
    use std::collections::BTreeMap;
    let mut reasons: BTreeMap<String, (u64, String)> = BTreeMap::new();
    let (mut ok, mut dropped, mut tag) = (0u64, 0u64, 0u64);
    let mut outcomes: BTreeMap<String, u64> = BTreeMap::new();
    let mut fuels: Vec<(u64, u64, usize)> = Vec::new();
    for i in 0..n {
        let mut rng = rng::Rng::for_case(seed, "probe", i);
        let mut cfg = gen::Cfg::general(2 + (i % 2) as u32);
        if i % 4 == 3 {
            cfg.profile = gen::Profile::Reentrant;
        }
        let p = gen::generate(&mut rng, cfg);
        let text = print::canonical(&p);
        let r = refsem::run_program(&p, 50_000);
        *outcomes.entry(format!("{:?}", r.outcome).chars().take(60).collect()).or_insert(0) += 1;
        match &r.outcome {
            refsem::Outcome::OutOfDomain(_) | refsem::Outcome::Budget => dropped += 1,
            refsem::Outcome::TagError(e) => {
                tag += 1;
                if tag <= show as u64 {
                    println!("=== TAG ERROR {}\n{}", e, text);
                }
            }
            _ => {}
        }
        let t0 = std::time::Instant::now();
        let cr = sy::compile_files(&sy::one_file(&text), "main.sy", &sy::CompileOpts { fuel: Some(3_000_000), ..Default::default() });
        fuels.push((sy::last_fuel_used(), t0.elapsed().as_micros() as u64, text.len()));
        match cr {
            sy::Compiled::Ok(_) => ok += 1,
            sy::Compiled::Err { errors, .. } => {
                let d = errors.first().map(|e| e.display.clone()).unwrap_or_default();
                let key: String = d.lines().skip(1).take(2).collect::<Vec<_>>().join(" | ").chars().filter(|c| !c.is_ascii_digit()).take(110).collect();
                let e = reasons.entry(key).or_insert((0, String::new()));
                e.0 += 1;
                if e.1.is_empty() {
                    e.1 = format!("{}\n-----\n{}", d, text);
                }
            }
            other => {
                let e = reasons.entry(other.brief()).or_insert((0, String::new()));
                e.0 += 1;
                if e.1.is_empty() {
                    e.1 = text.clone();
                }
            }
        }
        if i < show as u64 && false {
            println!("{}", text);
        }
    }
    println!("generated {} accepted {} dropped(ref) {} tagerrors {}", n, ok, dropped, tag);
    fuels.sort();
    let q = |f: f64| fuels[((fuels.len() - 1) as f64 * f) as usize];
    println!("fuel/us/len p50 {:?} p90 {:?} p99 {:?} p999 {:?} max {:?}", q(0.5), q(0.9), q(0.99), q(0.999), q(1.0));
    for (k, v) in &outcomes {
        println!("  outcome {:<60} {}", k, v);
    }
    let mut rs: Vec<_> = reasons.into_iter().collect();
    rs.sort_by_key(|(_, (c, _))| std::cmp::Reverse(*c));
    let _ = std::fs::create_dir_all("/tmp/sy/rej");
    for (n, (k, (c, ex))) in rs.iter().take(show).enumerate() {
        let (err, text) = ex.split_once("\n-----\n").unwrap_or(("", ex));
        let _ = std::fs::write(format!("/tmp/sy/rej/r{}.sy", n), text);
        println!("### {} x {}\n{}\n   -> /tmp/sy/rej/r{}.sy", c, k, err, n);
    }
}
