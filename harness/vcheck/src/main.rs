//! vcheck — runtime-monitoring checks for sylt-lang (see /verif/DESIGN.md).
mod fw;
mod json;
mod rng;
mod sy;

mod c17;

use fw::{Check, Tier};

fn registry() -> Vec<&'static dyn Check> {
    vec![&c17::C17]
}

fn find(id: &str) -> Option<&'static dyn Check> {
    registry().into_iter().find(|c| c.id() == id)
}

fn usage() -> ! {
    eprintln!("usage: vcheck <Cnn> <quick|thorough>\n       vcheck replay <Cnn> <tier> <seed> <case>\n       vcheck worker ... (internal)\n       vcheck selftest");
    std::process::exit(2)
}

fn tier(s: &str) -> Tier {
    match s {
        "quick" => Tier::Quick,
        "thorough" => Tier::Thorough,
        _ => usage(),
    }
}

fn main() {
    let args: Vec<String> = std::env::args().skip(1).collect();
    if args.is_empty() {
        usage();
    }
    match args[0].as_str() {
        "worker" => {
            if args.len() != 7 {
                usage();
            }
            let Some(c) = find(&args[1]) else { usage() };
            let mut ctx = fw::ctx_from_env(tier(&args[2]));
            ctx.seed = args[3].parse().unwrap_or(1);
            let shard: u64 = args[4].parse().unwrap_or(0);
            let shards: u64 = args[5].parse().unwrap_or(1);
            std::process::exit(fw::worker_main(c, ctx, shard, shards, args[6].clone()));
        }
        "replay" => {
            if args.len() != 5 {
                usage();
            }
            let Some(c) = find(&args[1]) else { usage() };
            let mut ctx = fw::ctx_from_env(tier(&args[2]));
            ctx.seed = args[3].parse().unwrap_or(1);
            let case: u64 = args[4].parse().unwrap_or(0);
            std::process::exit(fw::replay_case(c, ctx, case));
        }
        id => {
            if args.len() != 2 {
                usage();
            }
            let Some(c) = find(id) else {
                eprintln!("unknown property {}", id);
                std::process::exit(2)
            };
            let ctx = fw::ctx_from_env(tier(&args[1]));
            std::process::exit(fw::master_main(c, ctx));
        }
    }
}
