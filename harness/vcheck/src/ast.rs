//! Abstract typed Sylt programs (the generator's own AST — independent of the repo's parser).
//! Every binder, call site, function and loop carries a stable id so that the
//! printer can render the same program in many surface forms.

pub type BId = usize; // binder id

#[derive(Clone, Debug, PartialEq)]
pub enum Ty {
    Int,
    Float,
    Str,
    Bool,
    Void,
    Tuple(Vec<Ty>),
    List(Box<Ty>),
    Blob(usize),
    Enum(usize),
    Fn(Vec<Ty>, Box<Ty>),
    Maybe(Box<Ty>),
}

impl Ty {
    pub fn is_num(&self) -> bool {
        matches!(self, Ty::Int | Ty::Float)
    }
    pub fn is_fn(&self) -> bool {
        matches!(self, Ty::Fn(..))
    }
    /// can values of this type be printed deterministically?
    pub fn printable(&self, p: &Program) -> bool {
        match self {
            Ty::Int | Ty::Float | Ty::Str | Ty::Bool => true,
            Ty::Void | Ty::Fn(..) => false,
            Ty::Tuple(ts) => ts.iter().all(|t| t.printable(p)),
            Ty::List(t) | Ty::Maybe(t) => t.printable(p),
            Ty::Blob(_) => false, // hash order of fields
            Ty::Enum(e) => p.enums[*e].variants.iter().all(|(_, t)| t.as_ref().map(|t| t.printable(p)).unwrap_or(true)),
        }
    }
    /// can `==` be applied (structurally) without touching functions?
    pub fn comparable(&self, p: &Program) -> bool {
        match self {
            Ty::Int | Ty::Float | Ty::Str | Ty::Bool => true,
            Ty::Void | Ty::Fn(..) => false,
            Ty::Tuple(ts) => ts.iter().all(|t| t.comparable(p)),
            Ty::List(t) | Ty::Maybe(t) => t.comparable(p),
            Ty::Blob(b) => p.blobs[*b].fields.iter().all(|(_, t)| t.comparable(p)),
            Ty::Enum(e) => p.enums[*e].variants.iter().all(|(_, t)| t.as_ref().map(|t| t.comparable(p)).unwrap_or(true)),
        }
    }
    pub fn orderable(&self) -> bool {
        match self {
            Ty::Int | Ty::Float | Ty::Str => true,
            Ty::Tuple(ts) => !ts.is_empty() && ts.iter().all(|t| t.orderable()),
            _ => false,
        }
    }
}

#[derive(Clone, Copy, Debug, PartialEq, Eq)]
pub enum BKind {
    Global,
    Param,
    Local,
    CaseBind,
}

#[derive(Clone, Debug)]
pub struct Binder {
    pub hint: String,
    pub ty: Ty,
    pub mutable: bool,
    pub kind: BKind,
}

#[derive(Clone, Copy, Debug, PartialEq, Eq)]
pub enum BinOp {
    Add,
    Sub,
    Mul,
    Div,
    Eq,
    Ne,
    Lt,
    Le,
    Gt,
    Ge,
    And,
    Or,
}
impl BinOp {
    pub fn text(self) -> &'static str {
        match self {
            BinOp::Add => "+",
            BinOp::Sub => "-",
            BinOp::Mul => "*",
            BinOp::Div => "/",
            BinOp::Eq => "==",
            BinOp::Ne => "!=",
            BinOp::Lt => "<",
            BinOp::Le => "<=",
            BinOp::Gt => ">",
            BinOp::Ge => ">=",
            BinOp::And => "and",
            BinOp::Or => "or",
        }
    }
}

#[derive(Clone, Copy, Debug, PartialEq, Eq)]
pub enum UnOp {
    Neg,
    Not,
}

#[derive(Clone, Copy, Debug, PartialEq, Eq)]
pub enum AssignOp {
    Set,
    Add,
    Sub,
    Mul,
    Div,
}
impl AssignOp {
    pub fn text(self) -> &'static str {
        match self {
            AssignOp::Set => "=",
            AssignOp::Add => "+=",
            AssignOp::Sub => "-=",
            AssignOp::Mul => "*=",
            AssignOp::Div => "/=",
        }
    }
}

/// Built-in / std functions the generator may call (all referenced through std names).
#[derive(Clone, Copy, Debug, PartialEq, Eq)]
pub enum Std {
    Print,     // print(x) -> void
    ListPush,  // list.push(l, x) -> void
    ListLen,   // list.len(l) -> int
    ListGet,   // list.get(l, i) -> Maybe(T)
    ListPop,   // list.pop(l) -> Maybe(T)
    AsStr,     // as_str(x) -> str   (only int/bool/str operands are generated)
    ForEach,   // for_each(l, f) -> void
    ListMap,   // map(l, pu f) -> [U]
    ListFold,  // fold(l, init, pu f) -> U
}
impl Std {
    pub fn text(self) -> &'static str {
        match self {
            Std::Print => "print",
            Std::ListPush => "list.push",
            Std::ListLen => "list.len",
            Std::ListGet => "list.get",
            Std::ListPop => "list.pop",
            Std::AsStr => "as_str",
            Std::ForEach => "for_each",
            Std::ListMap => "map",
            Std::ListFold => "fold",
        }
    }
}

#[derive(Clone, Debug)]
pub enum Expr {
    Int(i64),
    /// value and the source text of the literal
    Float(f64, String),
    Str(String),
    Bool(bool),
    Var(BId),
    SelfRef(usize), // blob id
    Bin(BinOp, Box<Expr>, Box<Expr>),
    Un(UnOp, Box<Expr>),
    Call { callee: Box<Expr>, args: Vec<Expr>, site: u32 },
    StdCall { f: Std, args: Vec<Expr>, site: u32 },
    If { branches: Vec<(Expr, Block)>, els: Option<Block> },
    Case { scrut: Box<Expr>, en: EnumRef, arms: Vec<CaseArm>, els: Option<Block> },
    Tuple(Vec<Expr>),
    List(Vec<Expr>, Ty),
    BlobNew { blob: usize, fields: Vec<(String, Expr)> },
    Variant { en: EnumRef, variant: String, payload: Option<Box<Expr>> },
    Field(Box<Expr>, String),
    TupleIndex(Box<Expr>, usize),
    Lambda(Box<FnDef>),
    /// `a <=> b` used as an expression (value bool)
    AssertEq(Box<Expr>, Box<Expr>),
}

#[derive(Clone, Debug, PartialEq)]
pub enum EnumRef {
    User(usize),
    Maybe(Ty),
}

#[derive(Clone, Debug)]
pub struct CaseArm {
    pub variant: String,
    pub bind: Option<BId>,
    pub body: Block,
}

#[derive(Clone, Debug)]
pub struct FnDef {
    pub id: u32,
    pub params: Vec<BId>,
    pub ret: Ty,
    pub body: Block,
    pub pure: bool,
}

#[derive(Clone, Debug, Default)]
pub struct Block {
    pub stmts: Vec<Stmt>,
    /// trailing expression (value of the block / implicit return)
    pub value: Option<Box<Expr>>,
}

#[derive(Clone, Debug)]
pub enum LValue {
    Var(BId),
    Field(Box<Expr>, String),
}

#[derive(Clone, Debug)]
pub enum Stmt {
    Def { b: BId, init: Expr },
    Assign { target: LValue, op: AssignOp, value: Expr },
    Loop { id: u32, cond: Option<Expr>, body: Block },
    Break,
    Continue,
    Ret(Option<Expr>),
    Block(Block),
    /// expression statement (calls, if/case in statement position, `<=>`, …)
    Expr(Expr),
    Unreachable,
    /// verbatim source lines (planted snippets); not executable by the reference model
    Raw(Vec<String>),
}

#[derive(Clone, Debug)]
pub struct BlobDecl {
    pub name: String,
    pub fields: Vec<(String, Ty)>,
}

#[derive(Clone, Debug)]
pub struct EnumDecl {
    pub name: String,
    pub variants: Vec<(String, Option<Ty>)>,
}

#[derive(Clone, Debug)]
pub enum Item {
    Blob(usize),
    Enum(usize),
    Global { b: BId, init: Expr },
    /// verbatim top-level text (one definition); ignored by the reference model
    Raw(String),
}

#[derive(Clone, Debug, Default)]
pub struct Program {
    pub binders: Vec<Binder>,
    pub blobs: Vec<BlobDecl>,
    pub enums: Vec<EnumDecl>,
    /// top-level items in canonical order; `start` is the last global
    pub items: Vec<Item>,
    pub start: BId,
    pub n_sites: u32,
    pub n_fns: u32,
    pub n_loops: u32,
    /// features used (for coverage histograms and hazard classification)
    pub features: std::collections::BTreeSet<&'static str>,
}

impl Program {
    pub fn new_binder(&mut self, hint: &str, ty: Ty, mutable: bool, kind: BKind) -> BId {
        self.binders.push(Binder { hint: hint.to_string(), ty, mutable, kind });
        self.binders.len() - 1
    }
    pub fn site(&mut self) -> u32 {
        self.n_sites += 1;
        self.n_sites
    }
    pub fn fn_id(&mut self) -> u32 {
        self.n_fns += 1;
        self.n_fns
    }
    pub fn loop_id(&mut self) -> u32 {
        self.n_loops += 1;
        self.n_loops
    }
    pub fn variant_payload(&self, en: &EnumRef, variant: &str) -> Option<Ty> {
        match en {
            EnumRef::User(e) => self.enums[*e].variants.iter().find(|(n, _)| n == variant).and_then(|(_, t)| t.clone()),
            EnumRef::Maybe(t) => {
                if variant == "Just" {
                    Some(t.clone())
                } else {
                    None
                }
            }
        }
    }
    pub fn enum_variants(&self, en: &EnumRef) -> Vec<(String, Option<Ty>)> {
        match en {
            EnumRef::User(e) => self.enums[*e].variants.clone(),
            EnumRef::Maybe(t) => vec![("Just".to_string(), Some(t.clone())), ("None".to_string(), None)],
        }
    }
}

// ---------------------------------------------------------------- generic traversal

pub fn walk_expr(e: &Expr, f: &mut dyn FnMut(&Expr)) {
    f(e);
    match e {
        Expr::Int(_) | Expr::Float(..) | Expr::Str(_) | Expr::Bool(_) | Expr::Var(_) | Expr::SelfRef(_) => {}
        Expr::Bin(_, a, b) | Expr::AssertEq(a, b) => {
            walk_expr(a, f);
            walk_expr(b, f);
        }
        Expr::Un(_, a) | Expr::Field(a, _) | Expr::TupleIndex(a, _) => walk_expr(a, f),
        Expr::Call { callee, args, .. } => {
            walk_expr(callee, f);
            for a in args {
                walk_expr(a, f);
            }
        }
        Expr::StdCall { args, .. } => {
            for a in args {
                walk_expr(a, f);
            }
        }
        Expr::If { branches, els } => {
            for (c, b) in branches {
                walk_expr(c, f);
                walk_block(b, f);
            }
            if let Some(b) = els {
                walk_block(b, f);
            }
        }
        Expr::Case { scrut, arms, els, .. } => {
            walk_expr(scrut, f);
            for a in arms {
                walk_block(&a.body, f);
            }
            if let Some(b) = els {
                walk_block(b, f);
            }
        }
        Expr::Tuple(xs) | Expr::List(xs, _) => {
            for x in xs {
                walk_expr(x, f);
            }
        }
        Expr::BlobNew { fields, .. } => {
            for (_, x) in fields {
                walk_expr(x, f);
            }
        }
        Expr::Variant { payload, .. } => {
            if let Some(p) = payload {
                walk_expr(p, f);
            }
        }
        Expr::Lambda(fd) => walk_block(&fd.body, f),
    }
}

pub fn walk_block(b: &Block, f: &mut dyn FnMut(&Expr)) {
    for s in &b.stmts {
        walk_stmt(s, f);
    }
    if let Some(v) = &b.value {
        walk_expr(v, f);
    }
}

pub fn walk_stmt(s: &Stmt, f: &mut dyn FnMut(&Expr)) {
    match s {
        Stmt::Def { init, .. } => walk_expr(init, f),
        Stmt::Assign { target, value, .. } => {
            if let LValue::Field(e, _) = target {
                walk_expr(e, f);
            }
            walk_expr(value, f);
        }
        Stmt::Loop { cond, body, .. } => {
            if let Some(c) = cond {
                walk_expr(c, f);
            }
            walk_block(body, f);
        }
        Stmt::Ret(Some(e)) | Stmt::Expr(e) => walk_expr(e, f),
        Stmt::Block(b) => walk_block(b, f),
        Stmt::Break | Stmt::Continue | Stmt::Ret(None) | Stmt::Unreachable | Stmt::Raw(_) => {}
    }
}

pub fn walk_program(p: &Program, f: &mut dyn FnMut(&Expr)) {
    for it in &p.items {
        if let Item::Global { init, .. } = it {
            walk_expr(init, f);
        }
    }
}
