//! C11 (top-level order is irrelevant) and C12 (modules): several renderings of
//! one program — permuted top-level order, or split over files with different
//! import forms — must be accepted alike and behave alike under luamon.
use crate::ast::*;
use crate::fw::*;
use crate::gen::{self, Cfg};
use crate::json::J;
use crate::lua::{self, Loaded};
use crate::print::*;
use crate::rng::{hash64, Rng};
use crate::sy::{self, Compiled, CompileOpts, Files};
use std::collections::{BTreeMap, BTreeSet};

#[derive(Debug, Clone, PartialEq)]
pub enum Behaviour {
    Rejected(String),
    Ran { prints: Vec<String>, outcome: String, monitor: Option<String> },
    NoVerdict(String),
    Broken(String),
}

pub fn behaviour(files: &Files, main: &str) -> Behaviour {
    let r = sy::compile_files(files, main, &CompileOpts { fuel: Some(crate::rel::CAMPAIGN_FUEL), ..Default::default() });
    match r {
        Compiled::Fuel => Behaviour::NoVerdict("compile-budget".into()),
        Compiled::Panic { location, .. } => Behaviour::Broken(format!("panic@{}", location)),
        Compiled::Err { errors, .. } if errors.is_empty() => Behaviour::Broken("rejected-with-an-empty-error-list".into()),
        Compiled::Err { errors, .. } => Behaviour::Rejected(errors.first().map(|e| e.display.clone()).unwrap_or_default()),
        Compiled::Ok(b) => {
            let text = String::from_utf8_lossy(&b).to_string();
            match lua::load(&text) {
                Loaded::GreyZone(g) => Behaviour::NoVerdict(format!("grey-zone-{}", g)),
                Loaded::Error { class, line, msg } => Behaviour::Broken(format!("load:{} line {}: {} | {}", class, line, msg, text.lines().nth(line.saturating_sub(1) as usize).unwrap_or("").trim())),
                Loaded::Ok(c) => {
                    let rr = lua::run(&c, true);
                    let outcome = match &rr.outcome {
                        lua::Outcome::Ok => "ok".to_string(),
                        lua::Outcome::Budget(b) => return Behaviour::NoVerdict(format!("run-budget-{}", b)),
                        // (line numbers in messages depend on the layout: masked)
                        lua::Outcome::Error(e) => format!("{} [{}]", lua::class_name(&e.class), e.msg.chars().filter(|c| !c.is_ascii_digit()).take(80).collect::<String>()),
                    };
                    let monitor = rr.events.iter().find_map(|e| match e {
                        lua::Event::UninitRead { name, kind, line } => {
                            let l = text.lines().nth(line.saturating_sub(1) as usize).unwrap_or("").trim();
                            if l.starts_with("do return V") || l.starts_with("return V") {
                                None
                            } else {
                                Some(format!("uninitialised-read:{}:{} at `{}`", kind, name, l))
                            }
                        }
                        lua::Event::Interference { name, origin, .. } => Some(format!("interference:{}:{}", origin, name)),
                        _ => None,
                    });
                    Behaviour::Ran { prints: rr.prints, outcome, monitor }
                }
            }
        }
    }
}

fn all_annot(_s: AnnotSite) -> bool {
    true
}

/// extra top-level definitions that exercise every dependency kind, and the statements of `start` that observe them
const EXTRA_ITEMS: &[&str] = &[
    "zpure1 :: fn a: int -> int do\n    a * 2 + zbase\nend\n",
    "zbase :: 7\n",
    "zderived :: zpure1(3) + 1\n",
    "zcell := zderived\n",
    "zsetter :: fn do\n    zcell = zcell + 1\nend\n",
    "zadder :: fn d: int do\n    zcell += d\n    zlog = zlog + \"+\"\nend\n",
    "zlog := \"log\"\n",
    "ZT :: blob {\n    f: ZU,\n}\n",
    "ZU :: blob {\n    g: int,\n}\n",
    "zinst :: ZT { f: ZU { g: zbase } }\n",
    "ZE :: enum\n    P ZU,\n    Q,\nend\n",
    "zvar :: ZE.P (ZU { g: zderived })\n",
    "zthunk :: fn -> fn -> int do\n    fn -> int do\n        zbase + zcell\n    end\nend\n",
    "zclosure :: zthunk()\n",
    "zlist :: [zbase, zderived, zcell]\n",
];

const OBSERVE: &[&str] = &[
    "zsetter()",
    "zadder(5)",
    "print(zcell)",
    "print(zlog)",
    "print(zderived)",
    "print(zinst.f.g)",
    "print(zclosure())",
    "print(zlist)",
    "case zvar do",
    "    P zu ->",
    "        print(zu.g)",
    "    end",
    "    Q ->",
    "        print(0)",
    "    end",
    "end",
];

fn augmented(rng: &mut Rng, depth: u32) -> Program {
    let mut p = gen::generate(rng, Cfg::general(depth));
    for t in EXTRA_ITEMS {
        p.items.push(Item::Raw(t.to_string()));
    }
    // observe the extra globals at the beginning of start
    let start = p.start;
    for it in p.items.iter_mut() {
        if let Item::Global { b, init: Expr::Lambda(fd) } = it {
            if *b == start {
                fd.body.stmts.insert(0, Stmt::Raw(OBSERVE.iter().map(|s| s.to_string()).collect()));
            }
        }
    }
    p
}

// ------------------------------------------------------------------ C11

pub struct C11;

fn cyclic_items(rng: &mut Rng) -> Vec<String> {
    const APPLY: &str = "zapply :: fn f: fn -> int -> int do\n    f()\nend\n";
    match rng.below(20) {
        // the value only MENTIONS a function (stored, passed on, reached through a call chain) that reads it
        15 => vec!["zhooks :: [zon]\n".into(), "zon :: fn do\n    print(list.len(zhooks))\nend\n".into()],
        16 => vec!["Zcy2 :: blob {\n    n: int,\n    f: fn -> int,\n}\n".into(), "zcfg :: Zcy2 { n: 1, f: zon2 }\n".into(), "zon2 :: fn -> int do\n    zcfg.n\nend\n".into()],
        17 => vec!["zkeep :: fn f: fn -> int -> int do\n    1\nend\n".into(), "zca :: zkeep(zcf3)\n".into(), "zcf3 :: fn -> int do\n    zca\nend\n".into()],
        18 => vec!["zct2 :: (1, zon4)\n".into(), "zon4 :: fn -> int do\n    zct2[0]\nend\n".into()],
        19 => vec!["zca5 :: zwrap5()\n".into(), "zwrap5 :: fn -> int do\n    zinner5()\nend\n".into(), "zinner5 :: fn -> int do\n    zca5\nend\n".into()],
        // cycles that pass through a function literal handed to a call / stored in a value
        7 => vec![APPLY.into(), "zca :: zapply(fn -> int do zca end)\n".into()],
        8 => vec!["zpick :: fn f: fn -> int, o: int -> int do\n    o\nend\n".into(), "zca :: zpick(fn -> int do 1 end, zca)\n".into()],
        9 => vec![APPLY.into(), "zca :: zapply(fn -> int do zcb end)\n".into(), "zcb :: zca\n".into()],
        10 => vec!["zcl :: [fn -> int do list.len(zcl) end]\n".into()],
        11 => vec![APPLY.into(), "zca :: 1 + zapply(fn -> int do zca end)\n".into()],
        12 => vec![APPLY.into(), "zca :: if true do zapply(fn -> int do zca end) else do 2 end\n".into()],
        13 => vec!["Zcy :: blob {\n    n: int,\n    f: fn -> int,\n}\n".into(), "zca :: Zcy { n: 1, f: fn -> int do zca.n end }\n".into()],
        14 => vec!["zct :: (1, fn -> int do zct[0] end)\n".into()],
        4 => vec!["zcu :: zca\n".into(), "zca :: zca + 1\n".into()],
        5 => vec!["zcu :: fn -> int do\n    zca\nend\n".into(), "zca :: zca + 1\n".into()],
        6 => vec!["zcu :: zca + 1\n".into(), "zca :: zcb\n".into(), "zcb :: zca\n".into()],
        0 => vec!["zca :: zcb + 1\n".into(), "zcb :: zca\n".into()],
        1 => vec!["zca :: zcb\n".into(), "zcb :: zcc\n".into(), "zcc :: zca + 1\n".into()],
        2 => vec!["zca :: zcf()\n".into(), "zcf :: fn -> int do\n    zca\nend\n".into()],
        _ => vec!["zca :: zca + 1\n".into()],
    }
}

/// Dependency positions: a function reads (or assigns) a global at exactly ONE syntactic position and a
/// global is initialised by calling that function; the four top-level items are tried in six orders
/// and must behave like the order in which every definition precedes its users.
/// (position name, which global kind the function touches, function body)
const DEP_POSITIONS: &[(&str, &str, &str)] = &[
    ("ret value", "int", "ret dgv + 1"),
    ("trailing expression", "int", "dgv + 1"),
    ("if condition", "int", "if dgv > 5 do\n    ret 1\nend\n0"),
    ("elif condition", "int", "if false do\n    ret 2\nelif dgv > 5 do\n    ret 1\nend\n0"),
    ("loop condition", "int", "i := 0\nloop i < dgv do\n    i += 1\nend\ni"),
    ("case scrutinee", "enum", "case dgv do\n    A q -> q end\n    else 0 end\nend"),
    ("case arm body", "int", "case DG_E.B do\n    A q -> q end\n    B -> dgv end\nend"),
    ("case else body", "int", "case DG_E.B do\n    A q -> q end\n    else dgv end\nend"),
    ("call argument", "int", "dg_id(dgv)"),
    ("prime call argument", "int", "dg_id' dgv"),
    ("arrow call receiver", "int", "dgv -> dg_id()"),
    ("tuple element", "int", "(dgv, 1)[0]"),
    ("list element", "int", "k :: [dgv]\nfold(k, 0, pu x, acc -> acc + x end)"),
    ("blob field initialiser", "int", "b :: DG_B { f: dgv }\nb.f"),
    ("unary operand", "int", "-dgv"),
    ("left operand of and", "int", "k :: dgv > 5 and true\nif k do\n    ret 1\nend\n0"),
    ("right operand of or", "int", "k :: false or dgv > 5\nif k do\n    ret 1\nend\n0"),
    ("assert operand", "int", "dgv <=> 10\n0"),
    ("index base", "tuple", "dgv[0]"),
    ("field base", "blob", "dgv.f"),
    ("assignment right-hand side", "int", "x := 0\nx = dgv\nx"),
    ("compound assignment right-hand side", "int", "x := 1\nx += dgv\nx"),
    ("constant definition", "int", "x :: dgv\nx"),
    ("typed definition", "int", "x: int = dgv\nx"),
    ("closure body", "int", "h :: fn -> int do\n    dgv\nend\nh()"),
    ("lambda argument body", "int", "dg_apply(fn -> int do\n    dgv\nend)"),
    ("method body", "int", "o :: DG_M { m: fn -> int do\n    dgv\nend }\no.m()"),
    ("nested block", "int", "x := 0\ndo\n    x = dgv\nend\nx"),
    ("if arm body", "int", "x := 0\nif true do\n    x = dgv\nend\nx"),
    ("else arm body", "int", "x := 0\nif false do\n    x = 1\nelse do\n    x = dgv\nend\nx"),
    ("loop body", "int", "x := 0\ni := 0\nloop i < 1 do\n    i += 1\n    x = dgv\nend\nx"),
    ("if-expression arm value", "int", "if true do\n    dgv\nelse do\n    0\nend"),
    ("fold callback", "int", "fold([1], 0, pu x, acc -> acc + dgv end)"),
    ("after an early ret", "int", "if false do\n    ret 0\nend\ndgv"),
    ("assignment target", "mutable", "dgv = 8\ndgv"),
    ("compound assignment target", "mutable", "dgv += 1\ndgv"),
    ("field assignment base", "blob", "dgv.f = 9\ndgv.f"),
];

fn dependency_position_case(index: u64, st: &mut Stats) {
    let (pos, kind, body) = DEP_POSITIONS[index as usize % DEP_POSITIONS.len()];
    let fixed = "DG_E :: enum\n    A int,\n    B,\nend\n\nDG_B :: blob {\n    f: int,\n}\n\nDG_M :: blob {\n    m: fn -> int,\n}\n\ndg_id :: fn a: int -> int do\n    a\nend\n\ndg_apply :: fn f: fn -> int -> int do\n    f()\nend\n\n";
    let g = match kind {
        "int" => "dgv :: 10\n",
        "enum" => "dgv :: DG_E.A 3\n",
        "tuple" => "dgv :: (4, 5)\n",
        "blob" => "dgv :: DG_B { f: 6 }\n",
        _ => "dgv := 7\n",
    };
    let f = format!("dgf :: fn -> int do\n{}\nend\n", body.lines().map(|l| format!("    {}", l)).collect::<Vec<_>>().join("\n"));
    let r = "dgr :: dgf()\n";
    let s = "start :: fn do\n    print(dgr)\nend\n";
    let items = [g, f.as_str(), r, s];
    // item indices: 0 = global, 1 = function, 2 = global initialised through the function, 3 = start
    let orders: [[usize; 4]; 6] = [[0, 1, 2, 3], [1, 2, 0, 3], [2, 1, 0, 3], [3, 2, 1, 0], [1, 0, 2, 3], [2, 0, 1, 3]];
    let render = |o: &[usize; 4]| format!("{}{}", fixed, o.iter().map(|i| items[*i]).collect::<Vec<_>>().join("\n"));
    st.count("dependency_position_programs");
    st.count(&format!("dependency_position:{}", pos));
    let reference = behaviour(&sy::one_file(&render(&orders[0])), "main.sy");
    let viol = |sig: &str, order: &[usize; 4], b: &Behaviour| Violation {
        signature: sig.to_string(),
        hazard: None,
        case: index,
        detail: J::obj()
            .with("position", J::s(pos))
            .with("order", J::s(format!("{:?} (0 = global, 1 = function reading it, 2 = global initialised by calling the function, 3 = start)", order)))
            .with("program", J::s(render(order)))
            .with("behaviour", J::s(format!("{:?}", b).chars().take(500).collect::<String>()))
            .with("reference_behaviour", J::s(format!("{:?}", reference).chars().take(500).collect::<String>())),
    };
    match &reference {
        Behaviour::Ran { outcome, monitor: None, prints } if outcome == "ok" && prints.len() == 1 => {}
        other => {
            st.violation(viol("order:dependency-position-template-broken", &orders[0], other));
            return;
        }
    }
    for o in &orders[1..] {
        st.count("dependency_position_orders_compiled");
        let b = behaviour(&sy::one_file(&render(o)), "main.sy");
        if b != reference {
            st.violation(viol(&format!("order:dependency-position-differs:{}", pos), o, &b));
            return;
        }
    }
    st.count("dependency_position_programs_order_independent");
}

/// Type-reference positions: a blob `TR_T` declared somewhere in the file is mentioned at exactly ONE position
/// of a type expression (bare, element, parameter, result, argument of a generic user type or of std's Maybe, nested)
/// written in one of four holders (blob field, enum payload, function parameter, annotated constant).
/// A value that fits must be accepted with the same behaviour in six top-level orders; a value of another type
/// at exactly that position must be rejected in all six - wherever `TR_T` and the generic `TR_G` are declared.
/// (type expression, fitting value, value of another type)
const TYPE_REFS: &[(&str, &str, &str)] = &[
    ("TR_T", "TR_T { x: 1 }", "\"s\""),
    ("[TR_T]", "[TR_T { x: 1 }]", "[\"s\"]"),
    ("(int, TR_T)", "(1, TR_T { x: 1 })", "(1, \"s\")"),
    ("fn TR_T -> int", "fn t: TR_T -> int do t.x end", "fn t: str -> int do 0 end"),
    ("fn -> TR_T", "fn -> TR_T do TR_T { x: 1 } end", "fn -> str do \"s\" end"),
    ("TR_G(TR_T)", "TR_G { g: TR_T { x: 1 } }", "TR_G { g: \"s\" }"),
    ("Maybe(TR_T)", "Maybe.Just TR_T { x: 1 }", "Maybe.Just \"s\""),
    ("TR_G(TR_G(TR_T))", "TR_G { g: TR_G { g: TR_T { x: 1 } } }", "TR_G { g: TR_G { g: 42 } }"),
    ("[TR_G(TR_T)]", "[TR_G { g: TR_T { x: 1 } }]", "[TR_G { g: 42 }]"),
    ("(int, Maybe(TR_T))", "(1, Maybe.Just TR_T { x: 1 })", "(1, Maybe.Just 42)"),
    ("fn TR_G(TR_T) -> int", "fn t: TR_G(TR_T) -> int do t.g.x end", "fn t: TR_G(str) -> int do 0 end"),
    ("TR_G(Maybe(TR_T))", "TR_G { g: Maybe.Just TR_T { x: 1 } }", "TR_G { g: Maybe.Just \"s\" }"),
    ("TR_G([TR_T])", "TR_G { g: [TR_T { x: 1 }] }", "TR_G { g: [1] }"),
];

const TYPE_REF_HOLDERS: usize = 4;

fn type_reference_case(index: u64, st: &mut Stats) {
    let (ty, good, bad) = TYPE_REFS[index as usize % TYPE_REFS.len()];
    let holder = (index as usize / TYPE_REFS.len()) % TYPE_REF_HOLDERS;
    // (declaration mentioning the type, statement storing VALUE there)
    let (hname, decl, user): (&str, String, &str) = match holder {
        0 => ("blob field", format!("TR_H :: blob {{\n    n: int,\n    f: {},\n}}\n", ty), "trv :: TR_H { n: 1, f: VALUE }\n"),
        1 => ("enum payload", format!("TR_H :: enum\n    V {},\n    N,\nend\n", ty), "trv :: TR_H.V VALUE\n"),
        2 => ("function parameter", format!("tr_h :: fn a: {} -> int do\n    1\nend\n", ty), "trv :: tr_h(VALUE)\n"),
        _ => ("annotated constant", "tr_unused :: 0\n".to_string(), "trv : TYPE : VALUE\n"),
    };
    let t = "TR_T :: blob {\n    x: int,\n}\n";
    let g = "TR_G :: blob(*E) {\n    g: *E,\n}\n";
    let s = "start :: fn do\n    zz :: trv\n    print(\"ran\")\nend\n";
    let orders: [[usize; 5]; 6] = [[0, 1, 2, 3, 4], [2, 1, 0, 3, 4], [3, 2, 1, 0, 4], [4, 3, 2, 1, 0], [2, 3, 0, 1, 4], [1, 2, 3, 0, 4]];
    let render = |value: &str, o: &[usize; 5]| {
        let u = user.replace("VALUE", value).replace("TYPE", ty);
        let items = [t, g, decl.as_str(), u.as_str(), s];
        o.iter().map(|i| items[*i]).collect::<Vec<_>>().join("\n")
    };
    st.count("type_reference_programs");
    st.count(&format!("type_reference:{} in {}", ty, hname));
    let viol = |sig: String, value: &str, order: &[usize; 5], b: &Behaviour| Violation {
        signature: sig,
        hazard: None,
        case: index,
        detail: J::obj()
            .with("type_expression", J::s(ty))
            .with("holder", J::s(hname))
            .with("order", J::s(format!("{:?} (0 = TR_T, 1 = TR_G, 2 = declaration mentioning the type, 3 = value stored there, 4 = start)", order)))
            .with("program", J::s(render(value, order)))
            .with("behaviour", J::s(format!("{:?}", b).chars().take(500).collect::<String>())),
    };
    let reference = behaviour(&sy::one_file(&render(good, &orders[0])), "main.sy");
    match &reference {
        Behaviour::Ran { outcome, monitor: None, prints } if outcome == "ok" && prints.len() == 1 => {}
        other => {
            st.violation(viol("order:type-reference-template-broken".into(), good, &orders[0], other));
            return;
        }
    }
    for o in &orders {
        st.count("type_reference_orders_compiled");
        let b = behaviour(&sy::one_file(&render(good, o)), "main.sy");
        if b != reference {
            st.violation(viol(format!("order:type-reference-differs:{}", hname), good, o, &b));
            return;
        }
        match behaviour(&sy::one_file(&render(bad, o)), "main.sy") {
            Behaviour::Rejected(_) => st.count("type_reference_mismatches_rejected"),
            Behaviour::NoVerdict(_) => st.count("type_reference_no_verdict"),
            other => {
                st.violation(viol(format!("order:type-reference-mismatch-accepted:{}", hname), bad, o, &other));
                return;
            }
        }
    }
    st.count("type_reference_programs_order_independent");
}

/// Entry-point family: the program's `start` is the main file's, whatever else is called `start` and wherever
/// the main file's items stand. An imported library has its own `start`; the main file mentions it in one of
/// 6 ways (not at all, from a helper function, from `start` itself, stored in a global, under an import alias,
/// from-imported under another name); the main file's three items are tried in all 6 orders.
/// (name, import line, [three top-level items of the main file], expected prints)
const ENTRY_SHAPES: &[(&str, &str, [&str; 3], &[&str])] = &[
    ("library start not mentioned", "use lib\n", ["k :: lib.greeting\n", "demo :: fn do\n    print(k)\nend\n", "start :: fn do\n    print(\"main\")\n    demo()\nend\n"], &["main", "hello"]),
    ("called from a helper function", "use lib\n", ["demo :: fn do\n    lib.start()\nend\n", "k :: 1\n", "start :: fn do\n    print(\"main\")\n    demo()\nend\n"], &["main", "lib"]),
    ("called from the main start", "use lib\n", ["k :: 1\n", "demo :: fn do\n    print(k)\nend\n", "start :: fn do\n    print(\"main\")\n    lib.start()\n    demo()\nend\n"], &["main", "lib", "1"]),
    ("stored in a global", "use lib\n", ["held :: lib.start\n", "demo :: fn do\n    held()\nend\n", "start :: fn do\n    print(\"main\")\n    demo()\nend\n"], &["main", "lib"]),
    ("through an import alias", "use lib as l\n", ["demo :: fn do\n    l.start()\nend\n", "k :: l.greeting\n", "start :: fn do\n    print(\"main\")\n    demo()\n    print(k)\nend\n"], &["main", "lib", "hello"]),
    ("from-imported under another name", "from lib use start as lib_start\n", ["demo :: fn do\n    lib_start()\nend\n", "k :: 1\n", "start :: fn do\n    print(\"main\")\n    demo()\nend\n"], &["main", "lib"]),
    ("never called, only mentioned in a global initialised before start", "use lib\n", ["held :: lib.start\n", "k :: 2\n", "start :: fn do\n    print(\"main\")\n    print(k)\nend\n"], &["main", "2"]),
];

fn entry_point_case(index: u64, st: &mut Stats) {
    let (name, import, items, expect) = ENTRY_SHAPES[index as usize % ENTRY_SHAPES.len()];
    let lib = "greeting :: \"hello\"\n\nstart :: fn do\n    print(\"lib\")\nend\n";
    let orders: [[usize; 3]; 6] = [[0, 1, 2], [0, 2, 1], [1, 0, 2], [1, 2, 0], [2, 0, 1], [2, 1, 0]];
    st.count("entry_point_programs");
    for o in &orders {
        let main = format!("{}\n{}", import, o.iter().map(|i| items[*i]).collect::<Vec<_>>().join("\n"));
        let mut files = sy::Files::new();
        files.insert("main.sy".into(), main.clone());
        files.insert("lib.sy".into(), lib.to_string());
        st.count("entry_point_orders_compiled");
        let b = behaviour(&files, "main.sy");
        let ok = matches!(&b, Behaviour::Ran { outcome, monitor: None, prints } if outcome == "ok" && prints.iter().map(|s| s.as_str()).collect::<Vec<_>>() == *expect);
        if !ok {
            st.violation(Violation {
                signature: format!("order:entry-point:{}", name),
                hazard: None,
                case: index,
                detail: J::obj()
                    .with("shape", J::s(name))
                    .with("order", J::s(format!("{:?}", o)))
                    .with("main.sy", J::s(main))
                    .with("lib.sy", J::s(lib))
                    .with("expected_prints", J::Arr(expect.iter().map(|e| J::s(*e)).collect()))
                    .with("behaviour", J::s(format!("{:?}", b).chars().take(500).collect::<String>())),
            });
            return;
        }
    }
    st.count("entry_point_programs_order_independent");
}

// ---- import order: the import statements of a file are top-level items like any other; whatever they bind,
// permuting them must not change acceptance or behaviour (a clash is a clash in every order).
// (name, import lines, rest of main.sy)
const IMPORT_ORDERS: &[(&str, &[&str], &str)] = &[
    ("one constant name from two modules", &["from ia use x", "from ib use x"], "start :: fn do\n    print(x)\nend\n"),
    ("one function name from two modules", &["from ia use f", "from ib use f"], "start :: fn do\n    print(f())\nend\n"),
    ("one type name from two modules", &["from ia use T", "from ib use T"], "start :: fn do\n    t :: T { v: 1 }\n    print(1)\nend\n"),
    ("an alias equal to a name imported from another module", &["from ia use x", "from ib use (y as x)"], "start :: fn do\n    print(x)\nend\n"),
    ("one name from three modules", &["from ia use x", "from ib use x", "from ic use x"], "start :: fn do\n    print(x)\nend\n"),
    ("a from-imported name equal to a namespace", &["use ia", "from ib use (x as ia)"], "start :: fn do\n    print(ia)\nend\n"),
    ("one alias for two namespaces", &["use ia as m", "use ib as m"], "start :: fn do\n    print(m.x)\nend\n"),
    ("the same name imported twice from one module", &["from ia use x", "from ia use x"], "start :: fn do\n    print(x)\nend\n"),
    ("the same name imported from one module, plainly and in a list", &["from ia use x", "from ia use (x, y)"], "start :: fn do\n    print(x)\n    print(y)\nend\n"),
    ("different names from three modules (valid)", &["from ia use x", "from ib use y", "use ic"], "start :: fn do\n    print(x)\n    print(y)\n    print(ic.x)\nend\n"),
    ("aliases keeping two equal names apart (valid)", &["from ia use (x as xa)", "from ib use (x as xb)", "from ic use x"], "start :: fn do\n    print(xa)\n    print(xb)\n    print(x)\nend\n"),
    ("a from-imported name equal to an own definition", &["from ia use x", "from ib use y"], "x :: 5\n\nstart :: fn do\n    print(x)\n    print(y)\nend\n"),
];

fn import_order_case(index: u64, st: &mut Stats) {
    let (name, imports, rest) = IMPORT_ORDERS[index as usize % IMPORT_ORDERS.len()];
    let mut files = sy::Files::new();
    files.insert("ia.sy".into(), "x :: 10\ny :: 11\n\nf :: fn -> int do\n    1\nend\n\nT :: blob {\n    v: int,\n}\n".into());
    files.insert("ib.sy".into(), "x :: 99\ny :: 98\n\nf :: fn -> int do\n    2\nend\n\nT :: blob {\n    v: int,\n    w: int,\n}\n".into());
    files.insert("ic.sy".into(), "x :: 7\ny :: 8\n".into());
    // all permutations of the import lines; the rest of the file before or after them
    let n = imports.len();
    let mut perms: Vec<Vec<usize>> = vec![vec![]];
    for _ in 0..n {
        let mut next = Vec::new();
        for p in &perms {
            for i in 0..n {
                if !p.contains(&i) {
                    let mut q = p.clone();
                    q.push(i);
                    next.push(q);
                }
            }
        }
        perms = next;
    }
    st.count("import_order_programs");
    let mut first: Option<(String, Behaviour)> = None;
    for (pi, perm) in perms.iter().enumerate() {
        for imports_first in [true, false] {
            let lines = perm.iter().map(|i| imports[*i]).collect::<Vec<_>>().join("\n");
            let main = if imports_first { format!("{}\n\n{}", lines, rest) } else { format!("{}\n{}\n", rest, lines) };
            let mut f = files.clone();
            f.insert("main.sy".into(), main.clone());
            st.count("import_orders_compiled");
            let b = behaviour(&f, "main.sy");
            // a rejection is compared as a rejection (the message may name either of the clashing lines)
            let key = match &b {
                Behaviour::Rejected(_) => Behaviour::Rejected(String::new()),
                other => other.clone(),
            };
            if matches!(key, Behaviour::NoVerdict(_)) {
                continue;
            }
            match &first {
                None => first = Some((main, key)),
                Some((m0, k0)) => {
                    if *k0 != key {
                        st.violation(Violation {
                            signature: format!("order:imports:{}", name),
                            hazard: None,
                            case: index,
                            detail: J::obj()
                                .with("shape", J::s(name))
                                .with("permutation", J::s(format!("{:?} (#{}), imports first: {}", perm, pi, imports_first)))
                                .with("main.sy (first order)", J::s(m0.clone()))
                                .with("behaviour (first order)", J::s(format!("{:?}", k0).chars().take(400).collect::<String>()))
                                .with("main.sy (this order)", J::s(main))
                                .with("behaviour (this order)", J::s(format!("{:?}", b).chars().take(400).collect::<String>())),
                        });
                        return;
                    }
                }
            }
        }
    }
    match first {
        Some((_, Behaviour::Rejected(_))) => st.count("import_order_programs_rejected_in_every_order"),
        Some(_) => st.count("import_order_programs_same_behaviour_in_every_order"),
        None => {}
    }
}

impl Check for C11 {
    fn id(&self) -> &'static str {
        "C11"
    }
    fn plan(&self, ctx: &Ctx) -> u64 {
        scaled(ctx, 4_000, 100_000)
    }
    fn run_case(&self, ctx: &Ctx, index: u64, st: &mut Stats) {
        if (index as usize) < DEP_POSITIONS.len() {
            dependency_position_case(index, st);
        }
        if (index as usize) < TYPE_REFS.len() * TYPE_REF_HOLDERS {
            type_reference_case(index, st);
        }
        if (index as usize) < ENTRY_SHAPES.len() {
            entry_point_case(index, st);
        }
        if (index as usize) < IMPORT_ORDERS.len() {
            import_order_case(index, st);
        }
        let mut rng = Rng::for_case(ctx.seed, "C11", index);
        let p = augmented(&mut rng, 2);
        let name = default_name(&p);
        let n = p.items.len();
        let mut orders: Vec<(String, Vec<usize>)> = vec![("as generated".into(), (0..n).collect()), ("reversed".into(), (0..n).rev().collect())];
        for k in 0..4 {
            let mut o: Vec<usize> = (0..n).collect();
            rng.shuffle(&mut o);
            orders.push((format!("shuffle#{}", k), o));
        }
        // users first: functions before the globals/types they use
        let mut uf: Vec<usize> = (0..n).collect();
        uf.sort_by_key(|i| match &p.items[*i] {
            Item::Global { init: Expr::Lambda(_), .. } => 0,
            Item::Raw(t) if t.contains(":: fn") => 0,
            Item::Global { .. } | Item::Raw(_) => 1,
            _ => 2,
        });
        orders.push(("functions, then values, then types".into(), uf));
        let mut results: Vec<(String, Behaviour, String)> = Vec::new();
        for (label, o) in &orders {
            let text = crate::rel::print_with(&p, &name, &all_annot, None, None, Some(o));
            // inversions: a definition placed after its first textual user (cheap proxy: position of the raw items)
            let b = behaviour(&sy::one_file(&text), "main.sy");
            results.push((label.clone(), b, text));
        }
        st.add("permutations_compiled", results.len() as u64);
        st.add("top_level_items_permuted", n as u64);
        if results.iter().any(|(_, b, _)| matches!(b, Behaviour::NoVerdict(_))) {
            st.count("discarded:no_verdict(budget_or_grey_zone)");
            return;
        }
        if results.iter().all(|(_, b, _)| matches!(b, Behaviour::Rejected(_))) {
            st.count("discarded:rejected_in_every_order");
            return;
        }
        // compare everything with the first
        let (l0, b0, t0) = &results[0];
        let mut violated = false;
        for (l, b, t) in &results[1..] {
            if b != b0 {
                let sig = match (b0, b) {
                    (Behaviour::Rejected(_), _) | (_, Behaviour::Rejected(_)) => "order:acceptance-differs".to_string(),
                    (Behaviour::Broken(x), _) | (_, Behaviour::Broken(x)) => format!("order:broken:{}", x.split(' ').next().unwrap_or("")),
                    (Behaviour::Ran { monitor: m0, prints: p0, outcome: o0 }, Behaviour::Ran { monitor: m1, prints: p1, outcome: o1 }) => {
                        if p0 != p1 {
                            "order:trace-differs".to_string()
                        } else if o0 != o1 {
                            "order:outcome-differs".to_string()
                        } else {
                            format!("order:monitor:{}", m0.clone().or(m1.clone()).unwrap_or_default().split(':').take(2).collect::<Vec<_>>().join(":"))
                        }
                    }
                    _ => "order:differs".to_string(),
                };
                st.violation(Violation {
                    signature: sig,
                    hazard: None,
                    case: index,
                    detail: J::obj()
                        .with("order_a", J::s(l0.clone()))
                        .with("order_b", J::s(l.clone()))
                        .with("behaviour_a", J::s(format!("{:?}", b0).chars().take(1500).collect::<String>()))
                        .with("behaviour_b", J::s(format!("{:?}", b).chars().take(1500).collect::<String>()))
                        .with("text_a", J::s(t0.clone()))
                        .with("text_b", J::s(t.clone())),
                });
                violated = true;
                break;
            }
        }
        if !violated {
            if let Behaviour::Ran { monitor: Some(m), .. } = b0 {
                st.violation(Violation { signature: format!("order:monitor:{}", m.split(':').take(2).collect::<Vec<_>>().join(":")), hazard: None, case: index, detail: J::obj().with("event", J::s(m.clone())).with("text", J::s(t0.clone())) });
                violated = true;
            }
        }
        if !violated {
            st.count("programs_with_identical_behaviour_in_all_orders");
            if let Behaviour::Ran { prints, .. } = b0 {
                st.add("print_events_compared", (prints.len() * (results.len() - 1)) as u64);
            }
            st.nontrivial(hash64(t0.as_bytes()));
            if index < 2 {
                let t = results[3].2.clone();
                st.sample(|| J::obj().with("one_shuffled_rendering", J::s(t)));
            }
        }
        // a definite mismatch against a *declared type* must be rejected wherever the type's declaration stands
        let ill: &[&[&str]] = &[
            &["ZShape :: enum\n    Circle,\n    Square,\nend\n", "ZTile :: enum\n    Hex,\nend\n", "zside :: fn s: ZShape -> int do\n    1\nend\n", "zbadcall :: zside(ZTile.Hex)\n"],
            &["ZMode :: enum\n    On,\n    Off,\nend\n", "ZCfg :: blob {\n    m: ZMode,\n}\n", "zbadcfg :: ZCfg { m: \"on\" }\n"],
            &["ZMode2 :: enum\n    On,\n    Off,\nend\n", "zbadval : ZMode2 : 1\n"],
            &["ZPa :: blob {\n    a: int,\n}\n", "ZPb :: blob {\n    b: int,\n}\n", "ztake :: fn p: ZPa -> int do\n    p.a\nend\n", "zbadblob :: ztake(ZPb { b: 1 })\n"],
            &["ZPay :: enum\n    Num int,\n    Non,\nend\n", "zunwrap :: fn p: ZPay -> int do\n    case p do\n        Num n ->\n            n\n        end\n        Non ->\n            0\n        end\n    end\nend\n", "zbadpay :: zunwrap(ZPay.Num \"s\")\n"],
        ];
        let chosen = ill[rng.below(ill.len())];
        let mut p3 = p.clone();
        for c in chosen.iter() {
            p3.items.push(Item::Raw(c.to_string()));
        }
        let n3 = p3.items.len();
        for k in 0..4 {
            let mut o: Vec<usize> = (0..n3).collect();
            match k {
                0 => {}
                1 => o.reverse(),
                _ => rng.shuffle(&mut o),
            }
            let text = crate::rel::print_with(&p3, &name, &all_annot, None, None, Some(&o));
            st.count("ill_typed_variants_tried");
            match behaviour(&sy::one_file(&text), "main.sy") {
                Behaviour::Rejected(_) => st.count("ill_typed_variants_rejected"),
                Behaviour::NoVerdict(_) => st.count("ill_typed_variants_no_verdict"),
                other => st.violation(Violation {
                    signature: "order:ill-typed-program-accepted-in-some-order".into(),
                    hazard: None,
                    case: index,
                    detail: J::obj().with("planted", J::Arr(chosen.iter().map(|c| J::s(*c)).collect())).with("order", J::Int(k)).with("behaviour", J::s(format!("{:?}", other).chars().take(400).collect::<String>())).with("text", J::s(text)),
                }),
            }
        }
        // cyclic initialisers must be rejected in every order
        let cyc = cyclic_items(&mut rng);
        let mut p2 = p.clone();
        for c in &cyc {
            p2.items.push(Item::Raw(c.clone()));
        }
        let n2 = p2.items.len();
        for k in 0..3 {
            let mut o: Vec<usize> = (0..n2).collect();
            if k > 0 {
                rng.shuffle(&mut o);
            }
            let text = crate::rel::print_with(&p2, &name, &all_annot, None, None, Some(&o));
            st.count("cyclic_variants_tried");
            match behaviour(&sy::one_file(&text), "main.sy") {
                Behaviour::Rejected(e) => {
                    st.count("cyclic_variants_rejected");
                    if e.to_lowercase().contains("depend") || e.to_lowercase().contains("cycl") {
                        st.count("cyclic_variants_rejected_with_dependency_error");
                    }
                }
                Behaviour::NoVerdict(_) => st.count("cyclic_variants_no_verdict"),
                other => st.violation(Violation {
                    signature: "order:cyclic-initialisers-accepted".into(),
                    hazard: None,
                    case: index,
                    detail: J::obj().with("cycle", J::Arr(cyc.iter().map(|c| J::s(c.clone())).collect())).with("behaviour", J::s(format!("{:?}", other).chars().take(600).collect::<String>())).with("text", J::s(text)),
                }),
            }
        }
    }
    fn finish(&self, _ctx: &Ctx, st: &Stats) -> Finish {
        let mut inconclusive = Vec::new();
        let ok = st.get("programs_with_identical_behaviour_in_all_orders");
        if ok * 10 < st.evaluations * 6 {
            inconclusive.push(format!("only {} of {} programs were judged", ok, st.evaluations));
        }
        if st.get("cyclic_variants_tried") == 0 {
            inconclusive.push("no cyclic variant tried".into());
        }
        Finish {
            level: "exploration",
            rule: "generated programs extended with 15 top-level definitions covering every dependency kind (reads, call in an initialiser, assignment from a function, compound assignment, types used before declaration, nested blob instantiation, variant construction, closure returned by a function, list of globals) are rendered in 7 top-level orders (as generated, reversed, 4 shuffles, users-first); acceptance, print trace, outcome and uninitialised-read monitor events under luamon must agree. Variants with cyclic initialisers (20 shapes: direct, through function literals given to a call or stored in a list, tuple or blob, and through functions that are only mentioned - stored, passed on, reached through a call chain) must be rejected in 3 orders, and variants with a definite mismatch against a declared enum/blob type (5 shapes) in 4 orders, wherever the type's declaration stands. Non-trivial: every judged program; distinct by source hash.".into(),
            extra: J::obj(),
            assumptions: vec!["global initialisers are side-effect free (the generator only builds such), so the expected behaviour is order-independent by construction".into(), "luamon models Lua 5.3".into()],
            exhaustive: false,
            inconclusive,
        }
    }
}

// ------------------------------------------------------------------ C12

pub struct C12;

#[derive(Clone, Debug)]
struct FileSpec {
    path: String,       // e.g. "lib/util.sy"
    module: String,     // e.g. "util"
}

struct Layout {
    files: Vec<FileSpec>,      // index 0 = main.sy
    /// which file each item lives in
    item_file: Vec<usize>,
}

/// how file `from` refers to a global/type that lives in file `to`
#[derive(Clone, Debug, PartialEq)]
enum ImportForm {
    Qualified,      // use m          -> m.x
    Alias(String),  // use m as q     -> q.x
    From,           // from m use x   -> x
    FromAs(String), // from m use x as y -> y   (per name)
}

fn rel_use_path(from: &str, to: &str, rooted: bool) -> String {
    // path for `use`: relative to the directory of `from`, or rooted with a leading '/'
    let to_noext = to.trim_end_matches(".sy");
    if rooted {
        return format!("/{}", to_noext);
    }
    let fdir: Vec<&str> = from.split('/').collect::<Vec<_>>()[..from.split('/').count() - 1].to_vec();
    let tparts: Vec<&str> = to_noext.split('/').collect();
    // only descend (the layouts place imported files in the same dir or below, or use rooted paths)
    if tparts.len() > fdir.len() && tparts[..fdir.len()] == fdir[..] {
        let rel = tparts[fdir.len()..].join("/");
        // a single-component path that names a std module means the std module: use the rooted form
        if ["math", "list", "set", "dict", "maybe", "common", "container", "unsafe", "preamble"].contains(&rel.as_str()) {
            return format!("/{}", to_noext);
        }
        rel
    } else {
        format!("/{}", to_noext)
    }
}

impl C12 {
    fn render(p: &Program, rng: &mut Rng, st: &mut Stats) -> Option<(Files, String)> {
        // choose a layout
        let dirs = ["", "lib/", "lib/deep/", "other/"];
        let nfiles = 2 + rng.below(4);
        let mut files = vec![FileSpec { path: "main.sy".into(), module: "main".into() }];
        let names = ["alpha", "beta", "gamma", "delta", "epsi"];
        // a user module in a sub-folder may be called like a std module (`use lib/math as m`)
        let std_names = ["math", "list", "set", "dict", "maybe", "common"];
        let mut std_named: BTreeSet<usize> = BTreeSet::new();
        for k in 1..nfiles {
            let d = dirs[rng.below(dirs.len())];
            if !d.is_empty() && rng.chance(1, 4) {
                let n = std_names[rng.below(std_names.len())];
                if !files.iter().any(|f| f.module == n) {
                    files.push(FileSpec { path: format!("{}{}.sy", d, n), module: n.to_string() });
                    std_named.insert(k);
                    st.count("layout:user_module_named_like_a_std_module");
                    continue;
                }
            }
            files.push(FileSpec { path: format!("{}{}.sy", d, names[k - 1]), module: names[k - 1].to_string() });
        }
        // assign items to files; start stays in main
        let mut item_file = Vec::new();
        for it in &p.items {
            let f = match it {
                Item::Global { b, .. } if *b == p.start => 0,
                _ => rng.below(nfiles),
            };
            item_file.push(f);
        }
        let layout = Layout { files, item_file };
        // owner of each global binder / blob / enum
        let mut owner_b: BTreeMap<BId, usize> = BTreeMap::new();
        let mut owner_blob: BTreeMap<usize, usize> = BTreeMap::new();
        let mut owner_enum: BTreeMap<usize, usize> = BTreeMap::new();
        for (i, it) in p.items.iter().enumerate() {
            match it {
                Item::Global { b, .. } => {
                    owner_b.insert(*b, layout.item_file[i]);
                }
                Item::Blob(b) => {
                    owner_blob.insert(*b, layout.item_file[i]);
                }
                Item::Enum(e) => {
                    owner_enum.insert(*e, layout.item_file[i]);
                }
                Item::Raw(_) => {}
            }
        }
        let base_name = default_name(p);
        let mut out = Files::new();
        let mut desc = String::new();
        for (fi, fs) in layout.files.iter().enumerate() {
            // per (this file, other file): an import form
            let mut forms: BTreeMap<usize, ImportForm> = BTreeMap::new();
            for (oi, _) in layout.files.iter().enumerate() {
                if oi == fi {
                    continue;
                }
                // (the namespace `math` etc. already names the std module in every file: no plain `use`)
                let form = match if std_named.contains(&oi) { 1 + rng.below(3) } else { rng.below(4) } {
                    0 => ImportForm::Qualified,
                    1 => ImportForm::Alias(format!("q{}", oi)),
                    2 => ImportForm::From,
                    _ => ImportForm::FromAs(String::new()),
                };
                forms.insert(oi, form);
            }
            let used_from: std::cell::RefCell<BTreeMap<usize, BTreeSet<String>>> = std::cell::RefCell::new(BTreeMap::new());
            let refer = |owner: usize, plain: String| -> String {
                if owner == fi {
                    return plain;
                }
                match &forms[&owner] {
                    ImportForm::Qualified => format!("{}.{}", layout.files[owner].module, plain),
                    ImportForm::Alias(a) => format!("{}.{}", a, plain),
                    ImportForm::From => {
                        used_from.borrow_mut().entry(owner).or_default().insert(plain.clone());
                        plain
                    }
                    ImportForm::FromAs(_) => {
                        used_from.borrow_mut().entry(owner).or_default().insert(plain.clone());
                        format!("{}_via{}", plain, owner)
                    }
                }
            };
            let gref = |b: BId| refer(*owner_b.get(&b).unwrap_or(&fi), base_name(b));
            let bref = |b: usize| refer(*owner_blob.get(&b).unwrap_or(&fi), p.blobs[b].name.clone());
            let eref = |e: usize| refer(*owner_enum.get(&e).unwrap_or(&fi), p.enums[e].name.clone());
            let o = PrintOpts { name: &base_name, global_ref: &gref, blob_ref: &bref, enum_ref: &eref, annot: &all_annot, sugar: None, layout: None };
            let pr = Printer::new(p, &o);
            let mut body = String::new();
            for (i, it) in p.items.iter().enumerate() {
                if layout.item_file[i] == fi {
                    body.push_str(&pr.item(it));
                    body.push('\n');
                }
            }
            // imports (only for files actually referenced)
            let mut header = String::new();
            let uf = used_from.borrow();
            for (oi, form) in &forms {
                let ofs = &layout.files[*oi];
                let rooted = rng.chance(1, 3);
                let path = rel_use_path(&fs.path, &ofs.path, rooted);
                match form {
                    ImportForm::Qualified => {
                        if body.contains(&format!("{}.", ofs.module)) {
                            header.push_str(&format!("use {}\n", path));
                            st.count("import_form:use");
                            if rooted || path.starts_with('/') {
                                st.count("import_form:rooted_path");
                            }
                            if path.contains('/') && !path.starts_with('/') {
                                st.count("import_form:subfolder_path");
                            }
                        }
                    }
                    ImportForm::Alias(a) => {
                        if body.contains(&format!("{}.", a)) {
                            header.push_str(&format!("use {} as {}\n", path, a));
                            st.count("import_form:use_as");
                        }
                    }
                    ImportForm::From => {
                        if let Some(names) = uf.get(oi) {
                            let list: Vec<String> = names.iter().cloned().collect();
                            if rng.chance(1, 2) {
                                header.push_str(&format!("from {} use ({})\n", path, list.join(", ")));
                            } else {
                                header.push_str(&format!("from {} use {}\n", path, list.join(", ")));
                            }
                            st.count("import_form:from_use");
                        }
                    }
                    ImportForm::FromAs(_) => {
                        if let Some(names) = uf.get(oi) {
                            let list: Vec<String> = names.iter().map(|n| format!("{} as {}_via{}", n, n, oi)).collect();
                            header.push_str(&format!("from {} use ({})\n", path, list.join(", ")));
                            st.count("import_form:from_use_as");
                        }
                    }
                }
            }
            desc.push_str(&format!("{} ", fs.path));
            out.insert(fs.path.clone(), format!("{}\n{}", header, body));
        }
        st.maxi("files_in_one_project", nfiles as u64);
        Some((out, desc))
    }
}

impl Check for C12 {
    fn id(&self) -> &'static str {
        "C12"
    }
    fn plan(&self, ctx: &Ctx) -> u64 {
        scaled(ctx, 4_000, 100_000)
    }
    fn run_case(&self, ctx: &Ctx, index: u64, st: &mut Stats) {
        if index == 0 {
            fixed_scenarios(st);
        }
        if (index as usize) < namespace_chain_paths().len() {
            namespace_chain_case(index, st);
        }
        let mut rng = Rng::for_case(ctx.seed, "C12", index);
        let p = augmented_for_modules(&mut rng);
        let single = crate::print::canonical(&p);
        let b_single = behaviour(&sy::one_file(&single), "main.sy");
        if !matches!(b_single, Behaviour::Ran { .. }) {
            st.count(&format!("discarded:single_file_{}", match &b_single {
                Behaviour::Rejected(_) => "rejected",
                Behaviour::NoVerdict(_) => "no_verdict",
                _ => "broken",
            }));
            return;
        }
        st.count("single_file_programs_run");
        for v in 0..3 {
            let Some((files, desc)) = C12::render(&p, &mut rng, st) else { continue };
            let b = behaviour(&files, "main.sy");
            st.count("multi_file_renderings");
            // each file is loaded once
            let counts = sy::read_counts();
            let max_reads = counts.values().copied().max().unwrap_or(0);
            st.maxi("reader_calls_for_one_path", max_reads as u64);
            if let Behaviour::NoVerdict(_) = b {
                st.count("discarded:multi_file_no_verdict");
                continue;
            }
            let files_json = || J::Obj(files.iter().map(|(k, v)| (k.clone(), J::s(v.clone()))).collect());
            if max_reads > 1 {
                st.violation(Violation { signature: "modules:file-read-more-than-once".into(), hazard: None, case: index, detail: J::obj().with("reads", J::s(format!("{:?}", counts))).with("files", files_json()) });
                continue;
            }
            if b != b_single {
                let sig = match &b {
                    Behaviour::Rejected(e) => format!("modules:multi-file-rejected:{}", e.lines().skip(1).take(1).collect::<String>().trim().chars().filter(|c| !c.is_ascii_digit()).take(50).collect::<String>()),
                    Behaviour::Broken(x) => format!("modules:broken:{}", x.split(' ').next().unwrap_or("")),
                    _ => "modules:behaviour-differs".to_string(),
                };
                st.violation(Violation {
                    signature: sig,
                    hazard: None,
                    case: index,
                    detail: J::obj()
                        .with("layout", J::s(desc.clone()))
                        .with("single_file", J::s(single.clone()))
                        .with("files", files_json())
                        .with("behaviour_single", J::s(format!("{:?}", b_single).chars().take(1200).collect::<String>()))
                        .with("behaviour_multi", J::s(format!("{:?}", b).chars().take(1200).collect::<String>())),
                });
                continue;
            }
            st.count("renderings_equal_to_single_file");
            st.nontrivial(hash64(format!("{:?}", files).as_bytes()));
            if index < 2 && v == 0 {
                st.sample(|| J::obj().with("files", files_json()));
            }
            // negative variant: remove one needed import line
            // (only in files the compiler actually loaded: a file nobody imports is not part of the program)
            let import_lines: Vec<(String, usize)> = files
                .iter()
                .filter(|(k, _)| counts.contains_key(*k))
                .flat_map(|(k, t)| t.lines().enumerate().filter(|(_, l)| l.starts_with("use ") || l.starts_with("from ")).map(|(n, _)| (k.clone(), n)).collect::<Vec<_>>())
                .collect();
            if !import_lines.is_empty() {
                let (k, n) = import_lines[rng.below(import_lines.len())].clone();
                let mut f2 = files.clone();
                let t = f2[&k].lines().enumerate().filter(|(i, _)| *i != n).map(|(_, l)| l).collect::<Vec<_>>().join("\n");
                f2.insert(k.clone(), t + "\n");
                st.count("missing_import_variants_tried");
                match behaviour(&f2, "main.sy") {
                    Behaviour::Rejected(_) => st.count("missing_import_variants_rejected"),
                    Behaviour::NoVerdict(_) => {}
                    other => st.violation(Violation {
                        signature: "modules:name-visible-without-import".into(),
                        hazard: None,
                        case: index,
                        detail: J::obj().with("removed_from", J::s(k)).with("removed_line", J::Int(n as i64)).with("files", J::Obj(f2.iter().map(|(k, v)| (k.clone(), J::s(v.clone()))).collect())).with("behaviour", J::s(format!("{:?}", other).chars().take(500).collect::<String>())),
                    }),
                }
            }
            // negative variant: a second import that binds an already bound namespace name to another
            // module must be rejected (not dropped silently)
            let ns_imports: Vec<(String, usize, String)> = files
                .iter()
                .filter(|(k, _)| counts.contains_key(*k))
                .flat_map(|(k, t)| {
                    t.lines()
                        .enumerate()
                        .filter(|(_, l)| l.starts_with("use "))
                        .map(|(n, l)| {
                            let rest = l[4..].trim();
                            let name = match rest.split_once(" as ") {
                                Some((_, a)) => a.trim().to_string(),
                                None => rest.trim_end_matches('/').rsplit('/').next().unwrap_or("").to_string(),
                            };
                            (k.clone(), n, name)
                        })
                        .collect::<Vec<_>>()
                })
                .filter(|(_, _, name)| !name.is_empty())
                .collect();
            if !ns_imports.is_empty() {
                let (k, n, name) = ns_imports[rng.below(ns_imports.len())].clone();
                let others: Vec<&String> = files.keys().filter(|f| **f != k && f.ends_with(".sy") && !f.ends_with("exports.sy")).collect();
                if !others.is_empty() {
                    let other = others[rng.below(others.len())];
                    let extra = format!("use /{} as {}", other.trim_end_matches(".sy"), name);
                    let mut f2 = files.clone();
                    let mut ls: Vec<String> = f2[&k].lines().map(|l| l.to_string()).collect();
                    ls.insert(n + 1, extra.clone());
                    f2.insert(k.clone(), ls.join("\n") + "\n");
                    st.count("clashing_import_variants_tried");
                    match behaviour(&f2, "main.sy") {
                        Behaviour::Rejected(_) => st.count("clashing_import_variants_rejected"),
                        Behaviour::NoVerdict(_) => {}
                        other => st.violation(Violation {
                            signature: "modules:ambiguous-import-accepted".into(),
                            hazard: None,
                            case: index,
                            detail: J::obj().with("file", J::s(k)).with("added_line", J::s(extra)).with("files", J::Obj(f2.iter().map(|(k, v)| (k.clone(), J::s(v.clone()))).collect())).with("behaviour", J::s(format!("{:?}", other).chars().take(500).collect::<String>())),
                        }),
                    }
                }
            }
        }
    }
    fn finish(&self, _ctx: &Ctx, st: &Stats) -> Finish {
        let mut inconclusive = Vec::new();
        if st.get("renderings_equal_to_single_file") < 500 {
            inconclusive.push(format!("only {} multi-file renderings were judged equal", st.get("renderings_equal_to_single_file")));
        }
        for k in ["import_form:use", "import_form:use_as", "import_form:from_use", "import_form:from_use_as", "import_form:rooted_path", "import_form:subfolder_path"] {
            if st.get(k) == 0 {
                inconclusive.push(format!("import form never used: {}", k));
            }
        }
        Finish {
            level: "exploration",
            rule: "a generated program (incl. blobs, enums, mutable globals assigned from other files) is run single-file, then rendered 3 times as a project of 2-5 files in up to 3 directory levels; every cross-file reference independently uses `use m` (m.x), `use m as q`, `from m use x` / `from m use (x, y)`, `from m use (x as y)`, with relative sub-folder or /-rooted paths; import cycles arise naturally (files refer to each other). Acceptance, print trace and outcome under luamon must equal the single-file run, every path is requested from the reader once, a rendering with one import line removed must be rejected, and so must a rendering with an added import that binds an already imported namespace name to another file (plus hand-written ambiguous-import scenarios). Non-trivial: judged multi-file renderings; distinct by content hash.".into(),
            extra: J::obj(),
            assumptions: vec!["file names avoid the std module names; folder `exports.sy` imports and chained namespaces are exercised by the fixed scenarios of the C12 witness list, not by the random layouts".into()],
            exhaustive: false,
            inconclusive,
        }
    }
}

fn augmented_for_modules(rng: &mut Rng) -> Program {
    gen::generate(rng, Cfg::general(2))
}

/// Hand-written project exercising the documented import forms that the random layouts do not
/// produce: folder `exports.sy`, chained namespaces, cyclic imports, alias + plain import of one
/// module, assignment to another file's mutable global. Expected trace worked out by hand.
// ---- namespace chains: a qualified name `n0.n1.n2.T` / `n0.n1.n2.val` walks the `use`s of each file in turn.
// Four modules, each with its own `T` (a blob whose field has a type of its own) and `val`; the edges are
// n0 -> n1, n2;  n1 -> n2;  n2 -> n3;  n3 -> n0 (a cycle). Every path of 1..=5 components from main's `use n0`
// is used as a type (parameter, result, local annotation, blob field, constructor) and as a value.
const CHAIN_EDGES: [&[usize]; 4] = [&[1, 2], &[2], &[3], &[0]];
const CHAIN_TY: [(&str, &str, &str); 4] = [("int", "41", "41"), ("str", "\"hi\"", "hi"), ("bool", "true", "true"), ("float", "1.5", "1.5")];

fn namespace_chain_paths() -> Vec<Vec<usize>> {
    let mut out = Vec::new();
    let mut frontier: Vec<Vec<usize>> = vec![vec![0]];
    for _ in 0..5 {
        let mut next = Vec::new();
        for p in &frontier {
            out.push(p.clone());
            for e in CHAIN_EDGES[*p.last().unwrap()] {
                let mut q = p.clone();
                q.push(*e);
                next.push(q);
            }
        }
        frontier = next;
    }
    out
}

fn namespace_chain_case(index: u64, st: &mut Stats) {
    let paths = namespace_chain_paths();
    let path = &paths[index as usize % paths.len()];
    let target = *path.last().unwrap();
    let dotted = |p: &[usize]| p.iter().map(|i| format!("n{}", i)).collect::<Vec<_>>().join(".");
    let mut files = Files::new();
    for i in 0..4 {
        let uses: String = CHAIN_EDGES[i].iter().map(|e| format!("use n{}\n", e)).collect();
        files.insert(format!("n{}.sy", i), format!("{}\nT :: blob {{\n    x: {},\n}}\n\nval :: {}\n", uses, CHAIN_TY[i].0, CHAIN_TY[i].1));
    }
    // another path to the same module, if there is one (constructor and annotation may spell the module differently)
    let other_same = paths.iter().find(|q| *q.last().unwrap() == target && *q != path).cloned().unwrap_or(path.clone());
    // a path to a different module (the wrong type)
    let other_diff = paths.iter().find(|q| *q.last().unwrap() != target && q.len() == path.len()).or(paths.iter().find(|q| *q.last().unwrap() != target)).cloned().unwrap();
    let (ty, lit, shown) = CHAIN_TY[target];
    let (_, lit_d, _) = CHAIN_TY[*other_diff.last().unwrap()];
    let p = dotted(path);
    let good = format!(
        "use n0\n\nHolder :: blob {{\n    h: {p}.T,\n}}\n\nget :: fn t: {p}.T -> {ty} do\n    ret t.x\nend\n\nmk :: fn -> {p}.T do\n    ret {o}.T {{ x: {lit} }}\nend\n\nstart :: fn do\n    print(get({p}.T {{ x: {lit} }}))\n    a: {p}.T = mk()\n    print(a.x)\n    hh :: Holder {{ h: {o}.T {{ x: {lit} }} }}\n    print(get(hh.h))\n    print({p}.val)\n    v: {ty} = {p}.val\n    print(v)\nend\n",
        p = p, o = dotted(&other_same), ty = ty, lit = lit
    );
    let expect: Vec<String> = (0..5).map(|_| shown.to_string()).collect();
    st.count("namespace_chain_projects");
    st.count(&format!("namespace_chain_length:{}", path.len()));
    let mut f = files.clone();
    f.insert("main.sy".into(), good.clone());
    let b = behaviour(&f, "main.sy");
    if !matches!(&b, Behaviour::Ran { prints, outcome, monitor: None } if *prints == expect && outcome == "ok") {
        st.violation(Violation {
            signature: format!("modules:namespace-chain:length-{}", path.len()),
            hazard: None,
            case: index,
            detail: J::obj().with("path", J::s(p.clone())).with("denotes", J::s(format!("n{}.sy", target))).with("expected_prints", J::Arr(expect.iter().map(|e| J::s(e.clone())).collect())).with("behaviour", J::s(format!("{:?}", b).chars().take(600).collect::<String>())).with("files", J::Obj(f.iter().map(|(k, v)| (k.clone(), J::s(v.clone()))).collect())),
        });
        return;
    }
    st.count("namespace_chain_projects_as_expected");
    // the same positions given a value of ANOTHER module's T / val: must be rejected
    let d = dotted(&other_diff);
    let bads = [
        ("argument built with another module's T", format!("use n0\n\nget :: fn t: {p}.T -> {ty} do\n    ret t.x\nend\n\nstart :: fn do\n    print(get({d}.T {{ x: {lit_d} }}))\nend\n", p = p, d = d, ty = ty, lit_d = lit_d)),
        ("annotated local given another module's T", format!("use n0\n\nstart :: fn do\n    a: {p}.T = {d}.T {{ x: {lit_d} }}\n    print(a.x)\nend\n", p = p, d = d, lit_d = lit_d)),
        ("constructor given the field value of another module's T", format!("use n0\n\nstart :: fn do\n    a :: {p}.T {{ x: {lit_d} }}\n    print(a.x)\nend\n", p = p, lit_d = lit_d)),
        ("value annotated with the type of another module's val", format!("use n0\n\nstart :: fn do\n    v: {ty} = {d}.val\n    print(v)\nend\n", ty = ty, d = d)),
    ];
    for (what, text) in bads.iter() {
        let mut f = files.clone();
        f.insert("main.sy".into(), text.clone());
        st.count("namespace_chain_negative_variants_tried");
        match behaviour(&f, "main.sy") {
            Behaviour::Rejected(_) => st.count("namespace_chain_negative_variants_rejected"),
            Behaviour::NoVerdict(_) => {}
            other => {
                st.violation(Violation {
                    signature: format!("modules:namespace-chain-wrong-module-accepted:length-{}", path.len()),
                    hazard: None,
                    case: index,
                    detail: J::obj().with("what", J::s(*what)).with("path", J::s(p.clone())).with("other_path", J::s(d.clone())).with("main.sy", J::s(text.clone())).with("behaviour", J::s(format!("{:?}", other).chars().take(400).collect::<String>())),
                });
                return;
            }
        }
    }
}

fn fixed_scenarios(st: &mut Stats) {
    let mut files = Files::new();
    files.insert("main.sy".into(), "use pkg/\nuse a\nuse b\nuse a as aa\nfrom b use (bval, bump as bb)\nuse /pkg/sub/deep\n\nstart :: fn do\n    print(pkg.pval)\n    print(a.b.bval)\n    print(aa.aval)\n    print(bval)\n    bb()\n    print(b.counter)\n    b.counter = 10\n    bb()\n    print(a.b.counter)\n    print(deep.dval + pkg.pval)\n    print(a.from_a())\nend\n".into());
    files.insert("a.sy".into(), "use b\n\naval :: b.bval + 1\n\nfrom_a :: fn -> int do\n    b.bump()\n    b.counter\nend\n".into());
    files.insert("b.sy".into(), "use a\n\nbval :: 41\n\ncounter := 0\n\nbump :: fn do\n    counter += 1\nend\n\nuses_a :: fn -> int do\n    a.aval\nend\n".into());
    files.insert("pkg/exports.sy".into(), "use sub/deep\n\npval :: deep.dval * 2\n".into());
    files.insert("pkg/sub/deep.sy".into(), "dval :: 5\n".into());
    let expect: Vec<String> = ["10", "41", "42", "41", "1", "11", "15", "12"].iter().map(|s| s.to_string()).collect();
    st.count("fixed_scenarios_run");
    match behaviour(&files, "main.sy") {
        Behaviour::Ran { prints, outcome, .. } if prints == expect && outcome == "ok" => st.count("fixed_scenarios_as_expected"),
        other => st.violation(Violation {
            signature: "modules:fixed-scenario-differs".into(),
            hazard: None,
            case: 0,
            detail: J::obj().with("expected", J::Arr(expect.iter().map(|s| J::s(s.clone())).collect())).with("behaviour", J::s(format!("{:?}", other).chars().take(800).collect::<String>())).with("files", J::Obj(files.iter().map(|(k, v)| (k.clone(), J::s(v.clone()))).collect())),
        }),
    }
    let counts = sy::read_counts();
    if counts.values().any(|c| *c > 1) {
        st.violation(Violation { signature: "modules:file-read-more-than-once".into(), hazard: None, case: 0, detail: J::s(format!("{:?}", counts)) });
    }
    // names that were not imported are not visible
    let negatives: &[(&str, &str, &str)] = &[
        ("namespace of a `from` import is not introduced", "main.sy", "from b use bval\n\nstart :: fn do\n    print(b.counter)\nend\n"),
        ("a module imported by an imported module is not visible unqualified", "main.sy", "use a\n\nstart :: fn do\n    print(b.bval)\nend\n"),
        ("a global of another file is not visible without import", "main.sy", "use a\n\nstart :: fn do\n    print(aval)\nend\n"),
        ("folder import needs exports.sy to export the name", "main.sy", "use pkg/\n\nstart :: fn do\n    print(pkg.dval)\nend\n"),
        ("the alias replaces the module name", "main.sy", "use a as aa\n\nstart :: fn do\n    print(a.aval)\nend\n"),
    ];
    // `ns.member` is looked up in the namespace only: a local or parameter called `member` plays no part
    {
        let mut f3 = Files::new();
        f3.insert("config.sy".into(), "scale :: 10\n\nlimit := 0\n\nname :: \"cfg\"\n\ntwice :: fn a: int -> int do\n    a * 2\nend\n".into());
        f3.insert(
            "main.sy".into(),
            "use config\nuse config as cc\n\napply :: fn scale: int -> int do\n    scale * config.scale\nend\n\nviaalias :: fn scale: int -> int do\n    scale + cc.scale\nend\n\ncallit :: fn twice: int -> int do\n    config.twice(twice)\nend\n\nstart :: fn do\n    print(apply(2))\n    print(viaalias(2))\n    print(callit(4))\n    limit := 1\n    config.limit = 5\n    print(config.limit)\n    print(limit)\n    name := \"local\"\n    print(config.name + name)\nend\n".into(),
        );
        let expect: Vec<String> = ["20", "12", "8", "5", "1", "cfglocal"].iter().map(|s| s.to_string()).collect();
        st.count("fixed_scenarios_run");
        match behaviour(&f3, "main.sy") {
            Behaviour::Ran { prints, outcome, .. } if prints == expect && outcome == "ok" => st.count("fixed_scenarios_as_expected"),
            other => st.violation(Violation {
                signature: "modules:qualified-member-confused-with-local".into(),
                hazard: None,
                case: 0,
                detail: J::obj().with("expected", J::Arr(expect.iter().map(|s| J::s(s.clone())).collect())).with("behaviour", J::s(format!("{:?}", other).chars().take(800).collect::<String>())).with("files", J::Obj(f3.iter().map(|(k, v)| (k.clone(), J::s(v.clone()))).collect())),
            }),
        }
        f3.insert("main.sy".into(), "use config\n\nstart :: fn do\n    missing := 1\n    print(config.missing)\nend\n".into());
        st.count("fixed_negative_scenarios_tried");
        match behaviour(&f3, "main.sy") {
            Behaviour::Rejected(_) => st.count("fixed_negative_scenarios_rejected"),
            other => st.violation(Violation {
                signature: "modules:name-visible-without-import".into(),
                hazard: None,
                case: 0,
                detail: J::obj().with("what", J::s("a local makes a missing member of a namespace resolvable")).with("behaviour", J::s(format!("{:?}", other).chars().take(400).collect::<String>())),
            }),
        }
    }
    // an imported module may have a `start` of its own: the program still begins at the main file's `start`
    {
        let mut f4 = Files::new();
        f4.insert("game.sy".into(), "start :: fn do\n    print(\"game\")\nend\n\nscore :: 3\n".into());
        f4.insert("sub/engine.sy".into(), "start :: fn do\n    print(\"engine\")\nend\n".into());
        f4.insert(
            "main.sy".into(),
            "use game\nfrom sub/engine use start as boot\n\nhooks :: [boot]\n\nstart :: fn do\n    print(\"main\")\n    game.start()\n    list.for_each(hooks, fn h: fn -> void do\n        h()\n    end)\n    print(game.score)\nend\n".into(),
        );
        let expect: Vec<String> = ["main", "game", "engine", "3"].iter().map(|s| s.to_string()).collect();
        st.count("fixed_scenarios_run");
        match behaviour(&f4, "main.sy") {
            Behaviour::Ran { prints, outcome, .. } if prints == expect && outcome == "ok" => st.count("fixed_scenarios_as_expected"),
            other => st.violation(Violation {
                signature: "modules:entry-point-is-not-the-main-file's-start".into(),
                hazard: None,
                case: 0,
                detail: J::obj().with("expected", J::Arr(expect.iter().map(|s| J::s(s.clone())).collect())).with("behaviour", J::s(format!("{:?}", other).chars().take(800).collect::<String>())).with("files", J::Obj(f4.iter().map(|(k, v)| (k.clone(), J::s(v.clone()))).collect())),
            }),
        }
    }
    // a FIELD may be named like a namespace visible in the same file (module, alias, module in a folder):
    // `value.field.member` goes through the value, `field.member` alone through the module
    {
        let mut f5 = Files::new();
        f5.insert("config.sy".into(), "width := 80\n\nbump :: fn -> int do\n    width += 1\n    width\nend\n".into());
        f5.insert("lib/tools.sy".into(), "width :: 7\n\nbump :: fn -> int do\n    70\nend\n".into());
        f5.insert(
            "main.sy".into(),
            "use config\nuse lib/tools as t\nuse lib/tools\n\nCfg :: blob {\n    width: int,\n    bump: fn -> int,\n}\n\nApp :: blob {\n    config: Cfg,\n    t: Cfg,\n    tools: Cfg,\n    show: fn -> int,\n}\n\nmk :: fn w: int -> Cfg do\n    Cfg { width: w, bump: fn -> int do\n        w * 2\n    end }\nend\n\nstart :: fn do\n    app := App { config: mk(640), t: mk(5), tools: mk(9), show: fn -> int do\n        self.config.width + self.t.width\n    end }\n    print(app.config.width)\n    app.config.width = 800\n    print(app.config.width)\n    print(config.width)\n    print(app.config.bump())\n    print(config.bump())\n    print(app.t.width)\n    print(t.width)\n    print(app.tools.width)\n    print(tools.width)\n    print(app.t.bump())\n    print(t.bump())\n    app.t.width += 1\n    print(app.show())\n    print(config.width)\nend\n".into(),
        );
        let expect: Vec<String> = ["640", "800", "80", "1280", "81", "5", "7", "9", "7", "10", "70", "806", "81"].iter().map(|s| s.to_string()).collect();
        st.count("fixed_scenarios_run");
        match behaviour(&f5, "main.sy") {
            Behaviour::Ran { prints, outcome, .. } if prints == expect && outcome == "ok" => st.count("fixed_scenarios_as_expected"),
            other => st.violation(Violation {
                signature: "modules:field-named-like-a-namespace".into(),
                hazard: None,
                case: 0,
                detail: J::obj().with("expected", J::Arr(expect.iter().map(|s| J::s(s.clone())).collect())).with("behaviour", J::s(format!("{:?}", other).chars().take(800).collect::<String>())).with("files", J::Obj(f5.iter().map(|(k, v)| (k.clone(), J::s(v.clone()))).collect())),
            }),
        }
    }
    // the bare root import `/` means the project root's exports.sy from every depth, also from folders that have
    // an exports.sy of their own
    {
        let mut f6 = Files::new();
        f6.insert("exports.sy".into(), "scale :: 10\ntitle :: \"root\"\n".into());
        f6.insert("geo/exports.sy".into(), "use shapes\n\nscale :: 3\n\narea :: fn n: int -> int do\n    ret shapes.side(n) * scale\nend\n".into());
        f6.insert("geo/shapes.sy".into(), "use / as project\n\nside :: fn n: int -> int do\n    ret n * project.scale\nend\n".into());
        f6.insert("geo/deep/leaf.sy".into(), "use / as top\nuse /geo/ as g\nfrom / use title\n\nboth :: fn -> int do\n    top.scale + g.scale\nend\n\nname :: fn -> str do\n    title\nend\n".into());
        f6.insert("main.sy".into(), "use geo/\nuse / as project\nuse geo/deep/leaf\n\nstart :: fn do\n    print(geo.area(2))\n    print(project.scale)\n    print(leaf.both())\n    print(leaf.name())\nend\n".into());
        let expect: Vec<String> = ["60", "10", "13", "root"].iter().map(|s| s.to_string()).collect();
        st.count("fixed_scenarios_run");
        match behaviour(&f6, "main.sy") {
            Behaviour::Ran { prints, outcome, .. } if prints == expect && outcome == "ok" => st.count("fixed_scenarios_as_expected"),
            other => st.violation(Violation {
                signature: "modules:root-import-from-a-sub-folder".into(),
                hazard: None,
                case: 0,
                detail: J::obj().with("expected", J::Arr(expect.iter().map(|s| J::s(s.clone())).collect())).with("behaviour", J::s(format!("{:?}", other).chars().take(800).collect::<String>())).with("files", J::Obj(f6.iter().map(|(k, v)| (k.clone(), J::s(v.clone()))).collect())),
            }),
        }
    }
    // a namespace re-exported by a package and picked up with a from-import is the module it names, not the
    // package's exports file - whose globals deliberately share their names with the module's
    {
        let mut f7 = Files::new();
        f7.insert("lib/exports.sy".into(), "use shapes\n\nscale :: 10\ncount := 100\n\nbump :: fn do\n    count += 50\nend\n".into());
        f7.insert("lib/shapes.sy".into(), "scale :: 2\ncount := 0\n\nbump :: fn do\n    count += 1\nend\n".into());
        f7.insert("report.sy".into(), "from lib/ use shapes\nfrom lib/ use (shapes as forms)\n\ncheck :: fn do\n    print(shapes.scale)\n    shapes.count += 1\n    shapes.bump()\n    print(shapes.count)\n    print(forms.count)\nend\n".into());
        f7.insert("main.sy".into(), "use report\nuse lib/\n\nstart :: fn do\n    report.check()\n    print(lib.shapes.scale)\n    print(lib.shapes.count)\n    print(lib.scale)\n    print(lib.count)\nend\n".into());
        let expect: Vec<String> = ["2", "2", "2", "2", "2", "10", "100"].iter().map(|s| s.to_string()).collect();
        st.count("fixed_scenarios_run");
        match behaviour(&f7, "main.sy") {
            Behaviour::Ran { prints, outcome, .. } if prints == expect && outcome == "ok" => st.count("fixed_scenarios_as_expected"),
            other => st.violation(Violation {
                signature: "modules:from-imported-namespace".into(),
                hazard: None,
                case: 0,
                detail: J::obj().with("expected", J::Arr(expect.iter().map(|s| J::s(s.clone())).collect())).with("behaviour", J::s(format!("{:?}", other).chars().take(800).collect::<String>())).with("files", J::Obj(f7.iter().map(|(k, v)| (k.clone(), J::s(v.clone()))).collect())),
            }),
        }
    }
    // two imports may not bind one name to different modules (the second one must not be dropped silently)
    files.insert("net/utils.sy".into(), "name :: \"net\"\n".into());
    files.insert("ui/utils.sy".into(), "name :: \"ui\"\n".into());
    let ambiguous: &[(&str, &str, &str)] = &[
        ("two modules with the same last path component", "main.sy", "use net/utils\nuse ui/utils\n\nstart :: fn do\n    print(utils.name)\nend\n"),
        ("one alias for two modules", "main.sy", "use a as x\nuse b as x\n\nstart :: fn do\n    print(x.aval)\nend\n"),
        ("alias equal to the name of another imported module", "main.sy", "use a\nuse b as a\n\nstart :: fn do\n    print(a.aval)\nend\n"),
        ("from-import alias equal to an imported module", "main.sy", "use a\nfrom b use (bval as a)\n\nstart :: fn do\n    print(a)\nend\n"),
    ];
    for (what, path, text) in ambiguous {
        let mut f2 = files.clone();
        f2.insert(path.to_string(), text.to_string());
        st.count("fixed_negative_scenarios_tried");
        match behaviour(&f2, "main.sy") {
            Behaviour::Rejected(_) => st.count("fixed_negative_scenarios_rejected"),
            other => st.violation(Violation {
                signature: "modules:ambiguous-import-accepted".into(),
                hazard: None,
                case: 0,
                detail: J::obj().with("what", J::s(*what)).with("main.sy", J::s(*text)).with("behaviour", J::s(format!("{:?}", other).chars().take(400).collect::<String>())),
            }),
        }
    }
    for (what, path, text) in negatives {
        let mut f2 = files.clone();
        f2.insert(path.to_string(), text.to_string());
        st.count("fixed_negative_scenarios_tried");
        match behaviour(&f2, "main.sy") {
            Behaviour::Rejected(_) => st.count("fixed_negative_scenarios_rejected"),
            other => st.violation(Violation {
                signature: "modules:name-visible-without-import".into(),
                hazard: None,
                case: 0,
                detail: J::obj().with("what", J::s(*what)).with("main.sy", J::s(*text)).with("behaviour", J::s(format!("{:?}", other).chars().take(400).collect::<String>())),
            }),
        }
    }
}
