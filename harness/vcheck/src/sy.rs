//! Wrapper around the real compiler: in-memory projects, panic capture, fuel.
use std::cell::RefCell;
use std::collections::BTreeMap;
use std::io::Write;
use std::panic::{catch_unwind, AssertUnwindSafe};
use std::path::{Path, PathBuf};
use std::sync::Once;

pub use sylt_common::error::Error;
use sylt_common::FileOrLib;
pub use sylt_tokenizer::Span;

/// A project: path -> text. The main file is given separately.
pub type Files = BTreeMap<String, String>;

pub fn one_file(text: &str) -> Files {
    let mut f = Files::new();
    f.insert("main.sy".to_string(), text.to_string());
    f
}

#[derive(Debug, Clone)]
pub struct ErrInfo {
    pub kind: &'static str, // syntax | type | compile | conflict | notfound | io | other
    pub file: Option<String>,
    pub line: usize,
    pub col_start: usize,
    pub col_end: usize,
    pub display: String,
    pub debug: String,
}

#[derive(Debug, Clone)]
pub enum Compiled {
    Ok(Vec<u8>),
    Err { errors: Vec<ErrInfo>, bytes_written: usize },
    /// panic payload + location "file:line"
    Panic { msg: String, location: String, bytes_written: usize },
    Fuel,
}

impl Compiled {
    pub fn is_ok(&self) -> bool {
        matches!(self, Compiled::Ok(_))
    }
    pub fn lua(&self) -> Option<&str> {
        match self {
            Compiled::Ok(b) => std::str::from_utf8(b).ok(),
            _ => None,
        }
    }
    /// Short classification used in relational oracles.
    pub fn brief(&self) -> String {
        match self {
            Compiled::Ok(b) => format!("ok:{}", crate::rng::hash64(b)),
            Compiled::Err { errors, .. } => format!("err:{}", errors.len()),
            Compiled::Panic { location, .. } => format!("panic@{}", location),
            Compiled::Fuel => "fuel".into(),
        }
    }
    pub fn first_error(&self) -> Option<&ErrInfo> {
        match self {
            Compiled::Err { errors, .. } => errors.first(),
            _ => None,
        }
    }
}

thread_local! {
    static LAST_PANIC_LOC: RefCell<String> = RefCell::new(String::new());
    static QUIET: RefCell<bool> = RefCell::new(false);
}

static HOOK: Once = Once::new();

pub fn install_panic_hook() {
    HOOK.call_once(|| {
        let default = std::panic::take_hook();
        std::panic::set_hook(Box::new(move |info| {
            let loc = info
                .location()
                .map(|l| {
                    let f = l.file();
                    // make the path relative to the repo so signatures are stable
                    let f = f.strip_prefix("/repo/").unwrap_or(f);
                    format!("{}:{}", f, l.line())
                })
                .unwrap_or_else(|| "?".into());
            LAST_PANIC_LOC.with(|c| *c.borrow_mut() = loc);
            let quiet = QUIET.with(|q| *q.borrow());
            if !quiet {
                default(info);
            }
        }));
    });
}

fn payload_to_string(p: Box<dyn std::any::Any + Send>) -> String {
    if let Some(s) = p.downcast_ref::<&str>() {
        s.to_string()
    } else if let Some(s) = p.downcast_ref::<String>() {
        s.clone()
    } else {
        "<non-string payload>".into()
    }
}

/// Run `f`, capturing panics silently. Returns Err((message, location)).
pub fn quiet_catch<T>(f: impl FnOnce() -> T) -> Result<T, (String, String)> {
    install_panic_hook();
    QUIET.with(|q| *q.borrow_mut() = true);
    let r = catch_unwind(AssertUnwindSafe(f));
    QUIET.with(|q| *q.borrow_mut() = false);
    r.map_err(|p| {
        let loc = LAST_PANIC_LOC.with(|c| c.borrow().clone());
        (payload_to_string(p), loc)
    })
}

struct CountingWriter {
    buf: Vec<u8>,
}
impl Write for CountingWriter {
    fn write(&mut self, b: &[u8]) -> std::io::Result<usize> {
        self.buf.extend_from_slice(b);
        Ok(b.len())
    }
    fn flush(&mut self) -> std::io::Result<()> {
        Ok(())
    }
}

pub fn strip_ansi(s: &str) -> String {
    let mut out = String::with_capacity(s.len());
    let mut it = s.chars().peekable();
    while let Some(c) = it.next() {
        if c == '\u{1b}' {
            if it.peek() == Some(&'[') {
                it.next();
                while let Some(&d) = it.peek() {
                    it.next();
                    if d.is_ascii_alphabetic() {
                        break;
                    }
                }
            }
        } else {
            out.push(c);
        }
    }
    out
}

fn file_name(f: &FileOrLib) -> String {
    match f {
        FileOrLib::File(p) => p.display().to_string(),
        FileOrLib::Lib(l) => format!("<std:{}>", l),
    }
}

pub fn err_info(e: &Error) -> ErrInfo {
    let (kind, file, span): (&'static str, Option<String>, Option<Span>) = match e {
        Error::SyntaxError { file, span, .. } => ("syntax", Some(file_name(file)), Some(*span)),
        Error::TypeError { file, span, .. } => ("type", Some(file_name(file)), Some(*span)),
        Error::CompileError { file, span, .. } => ("compile", Some(file_name(file)), Some(*span)),
        Error::GitConflictError { file, span } => ("conflict", Some(file_name(file)), Some(*span)),
        Error::FileNotFound(p) => ("notfound", Some(p.display().to_string()), None),
        Error::IOError(_) => ("io", None, None),
        _ => ("other", None, None),
    };
    let span = span.unwrap_or(Span::zero(0));
    ErrInfo {
        kind,
        file,
        line: span.line_start,
        col_start: span.col_start,
        col_end: span.col_end,
        display: strip_ansi(&format!("{}", e)),
        debug: format!("{:?}", e),
    }
}

pub const DEFAULT_FUEL: u64 = 100_000_000;

#[derive(Clone, Debug, Default)]
pub struct CompileOpts {
    pub no_std: bool,
    pub require: Option<String>,
    pub fuel: Option<u64>,
}

/// Number of times each path was requested from the reader in the last compile on this thread.
thread_local! {
    pub static READ_COUNTS: RefCell<BTreeMap<String, u32>> = RefCell::new(BTreeMap::new());
    pub static LAST_FUEL_USED: RefCell<u64> = RefCell::new(0);
}

pub fn norm_path(p: &Path) -> String {
    // lexical normalisation: drop "." and resolve ".." where possible
    let mut parts: Vec<String> = Vec::new();
    let abs = p.is_absolute();
    for c in p.components() {
        use std::path::Component::*;
        match c {
            CurDir => {}
            ParentDir => {
                if parts.last().map(|x| x != "..").unwrap_or(false) {
                    parts.pop();
                } else {
                    parts.push("..".into());
                }
            }
            Normal(s) => parts.push(s.to_string_lossy().into_owned()),
            RootDir | Prefix(_) => {}
        }
    }
    let j = parts.join("/");
    if abs {
        format!("/{}", j)
    } else {
        j
    }
}

pub fn compile_files(files: &Files, main: &str, opts: &CompileOpts) -> Compiled {
    install_panic_hook();
    READ_COUNTS.with(|c| c.borrow_mut().clear());
    let args = sylt::Args {
        args: vec![main.to_string()],
        no_std: opts.no_std,
        require: opts.require.clone(),
        ..Default::default()
    };
    let reader = |p: &Path| -> Result<String, Error> {
        let key = norm_path(p);
        READ_COUNTS.with(|c| *c.borrow_mut().entry(key.clone()).or_insert(0) += 1);
        match files.get(&key) {
            Some(s) => Ok(s.clone()),
            None => Err(Error::FileNotFound(PathBuf::from(p))),
        }
    };
    let mut w = CountingWriter { buf: Vec::new() };
    #[cfg(sylt_verif)]
    sylt_common::verif::set_fuel(opts.fuel.unwrap_or(DEFAULT_FUEL));
    let r = quiet_catch(|| {
        let r = sylt::compile_with_reader_to_writer(&args, reader, &mut w);
        // Rendering is part of the observable contract: do it inside the guard.
        r.map_err(|errs| errs.iter().map(err_info).collect::<Vec<_>>())
    });
    #[cfg(sylt_verif)]
    {
        LAST_FUEL_USED.with(|c| *c.borrow_mut() = sylt_common::verif::used());
        sylt_common::verif::set_fuel(u64::MAX);
    }
    match r {
        Ok(Ok(())) => Compiled::Ok(w.buf),
        Ok(Err(errors)) => Compiled::Err { errors, bytes_written: w.buf.len() },
        Err((msg, location)) => {
            if msg.contains("sylt_verif: fuel exhausted") {
                Compiled::Fuel
            } else {
                Compiled::Panic { msg, location, bytes_written: w.buf.len() }
            }
        }
    }
}

/// The same compilation with the project written to a scratch directory and read back through the
/// driver's own reader (`sylt::read_file`); file names in the errors are made relative to the project root again.
pub fn compile_on_disk(files: &Files, main: &str, opts: &CompileOpts, tag: &str) -> Compiled {
    install_panic_hook();
    let root = std::env::var("VERIF_ROOT").unwrap_or_else(|_| ".".into());
    let dir = Path::new(&root).join(".target").join("runs").join(format!("disk-{}-{}", std::process::id(), tag));
    let _ = std::fs::remove_dir_all(&dir);
    for (k, v) in files {
        let p = dir.join(k);
        if let Some(parent) = p.parent() {
            let _ = std::fs::create_dir_all(parent);
        }
        let _ = std::fs::write(&p, v);
    }
    let args = sylt::Args { args: vec![dir.join(main).display().to_string()], no_std: opts.no_std, require: opts.require.clone(), ..Default::default() };
    let mut w = CountingWriter { buf: Vec::new() };
    #[cfg(sylt_verif)]
    sylt_common::verif::set_fuel(opts.fuel.unwrap_or(DEFAULT_FUEL));
    let prefix = format!("{}/", dir.display());
    let r = quiet_catch(|| {
        let r = sylt::compile_with_reader_to_writer(&args, sylt::read_file, &mut w);
        r.map_err(|errs| {
            errs.iter()
                .map(|e| {
                    let mut i = err_info(e);
                    i.file = i.file.map(|f| f.strip_prefix(&prefix).map(|x| x.to_string()).unwrap_or(f));
                    i
                })
                .collect::<Vec<_>>()
        })
    });
    #[cfg(sylt_verif)]
    {
        LAST_FUEL_USED.with(|c| *c.borrow_mut() = sylt_common::verif::used());
        sylt_common::verif::set_fuel(u64::MAX);
    }
    let _ = std::fs::remove_dir_all(&dir);
    match r {
        Ok(Ok(())) => Compiled::Ok(w.buf),
        Ok(Err(errors)) => Compiled::Err { errors, bytes_written: w.buf.len() },
        Err((msg, location)) => {
            if msg.contains("sylt_verif: fuel exhausted") {
                Compiled::Fuel
            } else {
                Compiled::Panic { msg, location, bytes_written: w.buf.len() }
            }
        }
    }
}

pub fn compile_str(text: &str) -> Compiled {
    compile_files(&one_file(text), "main.sy", &CompileOpts::default())
}

pub fn compile_str_nostd(text: &str) -> Compiled {
    compile_files(&one_file(text), "main.sy", &CompileOpts { no_std: true, ..Default::default() })
}

pub fn read_counts() -> BTreeMap<String, u32> {
    READ_COUNTS.with(|c| c.borrow().clone())
}

pub fn last_fuel_used() -> u64 {
    LAST_FUEL_USED.with(|c| *c.borrow())
}

/// The emitted text after the preamble marker (user part), for compact diffs/samples.
pub fn user_part(lua: &str) -> &str {
    match lua.find("-- End Sylt preamble") {
        Some(i) => {
            let rest = &lua[i..];
            match rest.find('\n') {
                Some(j) => &rest[j + 1..],
                None => "",
            }
        }
        None => lua,
    }
}
