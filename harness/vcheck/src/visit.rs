//! Mutable block visitor with lexical context (used by planting engines).
use crate::ast::*;

#[derive(Clone, Copy, Debug, PartialEq, Eq)]
pub enum BlockKind {
    FnBody,
    IfArm,
    CaseArm,
    LoopBody,
    Block,
}

#[derive(Clone, Copy, Debug)]
pub struct BlockCtx {
    pub kind: BlockKind,
    /// number of enclosing function literals (1 = body of a top-level function)
    pub fn_depth: u32,
    /// inside a loop of the *same* function
    pub in_loop: bool,
    /// lexically inside some loop of an enclosing function (but not of this one)
    pub in_outer_loop: bool,
    /// inside the initialiser of a non-function global
    pub in_global_init: bool,
    /// lexical depth of nested blocks
    pub depth: u32,
}

impl BlockCtx {
    pub fn class(&self) -> String {
        let k = match self.kind {
            BlockKind::FnBody => {
                if self.fn_depth >= 2 {
                    return format!("closure-body-depth{}", self.fn_depth.min(3));
                }
                "function-body"
            }
            BlockKind::IfArm => "if-arm",
            BlockKind::CaseArm => "case-arm",
            BlockKind::LoopBody => "loop-body",
            BlockKind::Block => "block",
        };
        if self.fn_depth >= 2 {
            format!("{}-in-closure", k)
        } else {
            k.to_string()
        }
    }
}

type F<'a> = &'a mut dyn FnMut(&mut Block, &BlockCtx) -> bool;

fn in_block(b: &mut Block, c: BlockCtx, f: F) -> bool {
    if f(b, &c) {
        return true;
    }
    let inner = BlockCtx { depth: c.depth + 1, ..c };
    for s in b.stmts.iter_mut() {
        if in_stmt(s, inner, f) {
            return true;
        }
    }
    if let Some(v) = b.value.as_mut() {
        if in_expr(v, inner, f) {
            return true;
        }
    }
    false
}

fn in_stmt(s: &mut Stmt, c: BlockCtx, f: F) -> bool {
    match s {
        Stmt::Def { init, .. } => in_expr(init, c, f),
        Stmt::Assign { target, value, .. } => {
            if let LValue::Field(e, _) = target {
                if in_expr(e, c, f) {
                    return true;
                }
            }
            in_expr(value, c, f)
        }
        Stmt::Loop { cond, body, .. } => {
            if let Some(x) = cond {
                if in_expr(x, c, f) {
                    return true;
                }
            }
            in_block(body, BlockCtx { kind: BlockKind::LoopBody, in_loop: true, ..c }, f)
        }
        Stmt::Ret(Some(e)) | Stmt::Expr(e) => in_expr(e, c, f),
        Stmt::Block(b) => in_block(b, BlockCtx { kind: BlockKind::Block, ..c }, f),
        _ => false,
    }
}

fn in_expr(e: &mut Expr, c: BlockCtx, f: F) -> bool {
    match e {
        Expr::If { branches, els } => {
            for (x, b) in branches.iter_mut() {
                if in_expr(x, c, f) || in_block(b, BlockCtx { kind: BlockKind::IfArm, ..c }, f) {
                    return true;
                }
            }
            if let Some(b) = els {
                return in_block(b, BlockCtx { kind: BlockKind::IfArm, ..c }, f);
            }
            false
        }
        Expr::Case { scrut, arms, els, .. } => {
            if in_expr(scrut, c, f) {
                return true;
            }
            for a in arms.iter_mut() {
                if in_block(&mut a.body, BlockCtx { kind: BlockKind::CaseArm, ..c }, f) {
                    return true;
                }
            }
            if let Some(b) = els {
                return in_block(b, BlockCtx { kind: BlockKind::CaseArm, ..c }, f);
            }
            false
        }
        Expr::Lambda(fd) => in_block(
            &mut fd.body,
            BlockCtx { kind: BlockKind::FnBody, fn_depth: c.fn_depth + 1, in_loop: false, in_outer_loop: c.in_loop || c.in_outer_loop, in_global_init: false, depth: c.depth },
            f,
        ),
        Expr::Bin(_, a, b) | Expr::AssertEq(a, b) => in_expr(a, c, f) || in_expr(b, c, f),
        Expr::Un(_, a) | Expr::Field(a, _) | Expr::TupleIndex(a, _) => in_expr(a, c, f),
        Expr::Call { callee, args, .. } => {
            if in_expr(callee, c, f) {
                return true;
            }
            args.iter_mut().any(|a| in_expr(a, c, f))
        }
        Expr::StdCall { args, .. } | Expr::Tuple(args) | Expr::List(args, _) => args.iter_mut().any(|a| in_expr(a, c, f)),
        Expr::BlobNew { fields, .. } => fields.iter_mut().any(|(_, x)| in_expr(x, c, f)),
        Expr::Variant { payload, .. } => match payload {
            Some(p) => in_expr(p, c, f),
            None => false,
        },
        _ => false,
    }
}

/// Visit every block (pre-order). The callback returns true to stop the traversal.
pub fn blocks_mut(p: &mut Program, f: F) -> bool {
    let mut items = std::mem::take(&mut p.items);
    let mut stop = false;
    for it in items.iter_mut() {
        if let Item::Global { init, .. } = it {
            let is_fn = matches!(init, Expr::Lambda(_));
            let c = BlockCtx { kind: BlockKind::Block, fn_depth: 0, in_loop: false, in_outer_loop: false, in_global_init: !is_fn, depth: 0 };
            if in_expr(init, c, f) {
                stop = true;
                break;
            }
        }
    }
    p.items = items;
    stop
}
