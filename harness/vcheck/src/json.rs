//! Minimal JSON value, writer and parser (no external crates).
use std::collections::BTreeMap;
use std::fmt::Write;

#[derive(Clone, Debug, PartialEq)]
pub enum J {
    Null,
    Bool(bool),
    Int(i64),
    Num(f64),
    Str(String),
    Arr(Vec<J>),
    Obj(BTreeMap<String, J>),
}

impl J {
    pub fn obj() -> J {
        J::Obj(BTreeMap::new())
    }
    pub fn s(x: impl Into<String>) -> J {
        J::Str(x.into())
    }
    pub fn set(&mut self, k: &str, v: J) -> &mut Self {
        if let J::Obj(m) = self {
            m.insert(k.to_string(), v);
        }
        self
    }
    pub fn with(mut self, k: &str, v: J) -> Self {
        self.set(k, v);
        self
    }
    pub fn get(&self, k: &str) -> Option<&J> {
        match self {
            J::Obj(m) => m.get(k),
            _ => None,
        }
    }
    pub fn as_str(&self) -> Option<&str> {
        match self {
            J::Str(s) => Some(s),
            _ => None,
        }
    }
    pub fn as_i64(&self) -> Option<i64> {
        match self {
            J::Int(i) => Some(*i),
            J::Num(f) => Some(*f as i64),
            _ => None,
        }
    }
    pub fn as_arr(&self) -> Option<&Vec<J>> {
        match self {
            J::Arr(a) => Some(a),
            _ => None,
        }
    }
    pub fn as_obj(&self) -> Option<&BTreeMap<String, J>> {
        match self {
            J::Obj(m) => Some(m),
            _ => None,
        }
    }
    pub fn to_string(&self) -> String {
        let mut s = String::new();
        self.write(&mut s, None, 0);
        s
    }
    pub fn pretty(&self) -> String {
        let mut s = String::new();
        self.write(&mut s, Some(1), 0);
        s.push('\n');
        s
    }
    fn write(&self, out: &mut String, indent: Option<usize>, level: usize) {
        match self {
            J::Null => out.push_str("null"),
            J::Bool(b) => out.push_str(if *b { "true" } else { "false" }),
            J::Int(i) => {
                let _ = write!(out, "{}", i);
            }
            J::Num(f) => {
                if f.is_finite() {
                    let _ = write!(out, "{}", f);
                } else {
                    out.push_str("null");
                }
            }
            J::Str(s) => write_str(out, s),
            J::Arr(a) => {
                if a.is_empty() {
                    out.push_str("[]");
                    return;
                }
                out.push('[');
                for (i, v) in a.iter().enumerate() {
                    if i > 0 {
                        out.push(',');
                    }
                    nl(out, indent, level + 1);
                    v.write(out, indent, level + 1);
                }
                nl(out, indent, level);
                out.push(']');
            }
            J::Obj(m) => {
                if m.is_empty() {
                    out.push_str("{}");
                    return;
                }
                out.push('{');
                for (i, (k, v)) in m.iter().enumerate() {
                    if i > 0 {
                        out.push(',');
                    }
                    nl(out, indent, level + 1);
                    write_str(out, k);
                    out.push(':');
                    if indent.is_some() {
                        out.push(' ');
                    }
                    v.write(out, indent, level + 1);
                }
                nl(out, indent, level);
                out.push('}');
            }
        }
    }
}

fn nl(out: &mut String, indent: Option<usize>, level: usize) {
    if let Some(n) = indent {
        out.push('\n');
        for _ in 0..(n * level) {
            out.push(' ');
        }
    }
}

fn write_str(out: &mut String, s: &str) {
    out.push('"');
    for c in s.chars() {
        match c {
            '"' => out.push_str("\\\""),
            '\\' => out.push_str("\\\\"),
            '\n' => out.push_str("\\n"),
            '\r' => out.push_str("\\r"),
            '\t' => out.push_str("\\t"),
            c if (c as u32) < 0x20 => {
                let _ = write!(out, "\\u{:04x}", c as u32);
            }
            c => out.push(c),
        }
    }
    out.push('"');
}

pub fn parse(src: &str) -> Result<J, String> {
    let mut p = P { b: src.as_bytes(), i: 0 };
    p.ws();
    let v = p.value()?;
    p.ws();
    if p.i != p.b.len() {
        return Err(format!("trailing data at {}", p.i));
    }
    Ok(v)
}

struct P<'a> {
    b: &'a [u8],
    i: usize,
}

impl<'a> P<'a> {
    fn ws(&mut self) {
        while self.i < self.b.len() && matches!(self.b[self.i], b' ' | b'\n' | b'\r' | b'\t') {
            self.i += 1;
        }
    }
    fn value(&mut self) -> Result<J, String> {
        self.ws();
        if self.i >= self.b.len() {
            return Err("eof".into());
        }
        match self.b[self.i] {
            b'{' => {
                self.i += 1;
                let mut m = BTreeMap::new();
                self.ws();
                if self.peek() == Some(b'}') {
                    self.i += 1;
                    return Ok(J::Obj(m));
                }
                loop {
                    self.ws();
                    let k = match self.value()? {
                        J::Str(s) => s,
                        _ => return Err("key".into()),
                    };
                    self.ws();
                    if self.peek() != Some(b':') {
                        return Err(format!("':' expected at {}", self.i));
                    }
                    self.i += 1;
                    let v = self.value()?;
                    m.insert(k, v);
                    self.ws();
                    match self.peek() {
                        Some(b',') => self.i += 1,
                        Some(b'}') => {
                            self.i += 1;
                            return Ok(J::Obj(m));
                        }
                        _ => return Err(format!("',' or '}}' expected at {}", self.i)),
                    }
                }
            }
            b'[' => {
                self.i += 1;
                let mut a = Vec::new();
                self.ws();
                if self.peek() == Some(b']') {
                    self.i += 1;
                    return Ok(J::Arr(a));
                }
                loop {
                    a.push(self.value()?);
                    self.ws();
                    match self.peek() {
                        Some(b',') => self.i += 1,
                        Some(b']') => {
                            self.i += 1;
                            return Ok(J::Arr(a));
                        }
                        _ => return Err(format!("',' or ']' expected at {}", self.i)),
                    }
                }
            }
            b'"' => {
                self.i += 1;
                let mut s = Vec::new();
                loop {
                    if self.i >= self.b.len() {
                        return Err("unterminated string".into());
                    }
                    let c = self.b[self.i];
                    self.i += 1;
                    match c {
                        b'"' => break,
                        b'\\' => {
                            let e = *self.b.get(self.i).ok_or("eof")?;
                            self.i += 1;
                            match e {
                                b'n' => s.push(b'\n'),
                                b'r' => s.push(b'\r'),
                                b't' => s.push(b'\t'),
                                b'b' => s.push(8),
                                b'f' => s.push(12),
                                b'u' => {
                                    let h = std::str::from_utf8(self.b.get(self.i..self.i + 4).ok_or("eof")?)
                                        .map_err(|e| e.to_string())?;
                                    let cp = u32::from_str_radix(h, 16).map_err(|e| e.to_string())?;
                                    self.i += 4;
                                    let ch = char::from_u32(cp).unwrap_or('\u{fffd}');
                                    let mut buf = [0u8; 4];
                                    s.extend_from_slice(ch.encode_utf8(&mut buf).as_bytes());
                                }
                                other => s.push(other),
                            }
                        }
                        c => s.push(c),
                    }
                }
                Ok(J::Str(String::from_utf8_lossy(&s).into_owned()))
            }
            b't' if self.b[self.i..].starts_with(b"true") => {
                self.i += 4;
                Ok(J::Bool(true))
            }
            b'f' if self.b[self.i..].starts_with(b"false") => {
                self.i += 5;
                Ok(J::Bool(false))
            }
            b'n' if self.b[self.i..].starts_with(b"null") => {
                self.i += 4;
                Ok(J::Null)
            }
            _ => {
                let st = self.i;
                while self.i < self.b.len() && matches!(self.b[self.i], b'-' | b'+' | b'.' | b'e' | b'E' | b'0'..=b'9') {
                    self.i += 1;
                }
                let t = std::str::from_utf8(&self.b[st..self.i]).unwrap_or("");
                if let Ok(i) = t.parse::<i64>() {
                    Ok(J::Int(i))
                } else if let Ok(f) = t.parse::<f64>() {
                    Ok(J::Num(f))
                } else {
                    Err(format!("bad value at {}", st))
                }
            }
        }
    }
    fn peek(&self) -> Option<u8> {
        self.b.get(self.i).copied()
    }
}
