//! C16 — compilation is deterministic: same sources ⇒ byte-identical Lua or the
//! same rendered error list, in-process (fresh HashMap seeds each time) and
//! across fresh processes (different environment size / working directory).
use crate::fw::*;
use crate::gen::{self, Cfg};
use crate::json::J;
use crate::rng::{hash64, Rng};
use crate::sy::{self, Compiled, CompileOpts, Files};

pub struct C16;

fn fingerprint(c: &Compiled) -> String {
    match c {
        Compiled::Ok(b) => format!("ok:{:016x}:{}", hash64(b), b.len()),
        Compiled::Err { errors, .. } => {
            let mut s = format!("err:{}", errors.len());
            for e in errors {
                s.push_str(&format!("|{}@{:?}:{}:{}-{}#{:016x}#{:016x}", e.kind, e.file, e.line, e.col_start, e.col_end, hash64(e.display.as_bytes()), hash64(e.debug.as_bytes())));
            }
            s
        }
        Compiled::Panic { location, .. } => format!("panic@{}", location),
        Compiled::Fuel => "fuel".into(),
    }
}

/// invalid projects with several independent errors
fn invalid_project(rng: &mut Rng) -> (Files, &'static str, Option<&'static str>) {
    let mut files = Files::new();
    let nerr = 2 + rng.below(5);
    let names = ["Foo", "Bar", "Baz", "Qux", "Nope", "Zed", "Abc"];
    let kind = rng.below(18);
    match kind {
        16 | 17 => {
            // the same modules reached by file-relative and by root-relative (`/…`) paths, from the main file and
            // from a sub-folder; errors sit in the imported files (their rendering names the files' paths)
            let deep = kind == 17;
            files.insert("main.sy".into(), format!("use /lib/a\nuse lib/b\n{}\nstart :: fn do\n    print(a.va)\n    print(b.wb)\nend\n", if deep { "use /lib/deep/c\n" } else { "" }));
            files.insert("lib/a.sy".into(), "use /lib/b\n\nva :: 1 + \"s\"\nvb :: b.wb\n".into());
            files.insert("lib/b.sy".into(), format!("wb :: nope{}\n", nerr));
            if deep {
                files.insert("lib/deep/c.sy".into(), "use /lib/a\nuse /lib/b\n\nvc :: a.va +\n".into());
            }
            (files, "errors in modules imported by file-relative and root-relative paths", None)
        }
        13 => {
            // definitions colliding with names the preamble imports into every file (the error points into
            // the preamble, whose file id depends on the project), in a project of 1-3 files
            let nf = 1 + rng.below(3);
            let mut t = String::new();
            for k in 1..nf {
                t.push_str(&format!("use mod{}\n", k));
                files.insert(format!("mod{}.sy", k), format!("v{} :: {}\n", k, k));
            }
            for k in 0..nerr.min(4) {
                t.push_str(&format!("{} :: {}\n", ["max", "print", "min", "abs"][k], k));
            }
            t.push_str("start :: fn do\nend\n");
            files.insert("main.sy".into(), t);
            (files, "definitions colliding with preamble imports", None)
        }
        14 => {
            // errors located in an imported file of a multi-file project
            let nf = 2 + rng.below(3);
            let mut t = String::new();
            for k in 1..nf {
                t.push_str(&format!("use mod{}\n", k));
                files.insert(format!("mod{}.sy", k), format!("v{} :: {} + \"s\"\nw{} :: nope{}\n", k, k, k, k));
            }
            t.push_str("start :: fn do\nend\n");
            files.insert("main.sy".into(), t);
            (files, "type and resolution errors in several imported files", None)
        }
        15 => {
            // an unresolved name with several equally close candidates (the suggestion must not depend on hash order)
            let t = "total_xa :: 1\ntotal_xb :: 2\ntotal_xd :: 3\ncount_a :: 4\ncount_b :: 5\n\nstart :: fn do\n    print(total_xc)\n    print(count_c)\nend\n".to_string();
            files.insert("main.sy".into(), t);
            (files, "unresolved names with equally close candidates", None)
        }
        8 => {
            // several unknown fields in ONE blob instantiation
            let mut t = String::from("A :: blob {\n    ok: int,\n}\n\nstart :: fn do\n    a := A {\n        ok: 1,\n");
            for k in 0..nerr {
                t.push_str(&format!("        {}: {},\n", ["zeta", "height", "width", "alpha", "mid", "omega"][k % 6], k));
            }
            t.push_str("    }\nend\n");
            files.insert("main.sy".into(), t);
            (files, "several unknown fields in one blob instantiation", None)
        }
        9 => {
            // several missing fields in ONE blob instantiation
            let mut t = String::from("A :: blob {\n");
            for k in 0..nerr {
                t.push_str(&format!("    {}: int,\n", ["zeta", "height", "width", "alpha", "mid", "omega"][k % 6]));
            }
            t.push_str("}\n\nstart :: fn do\n    a := A {}\nend\n");
            files.insert("main.sy".into(), t);
            (files, "several missing fields in one blob instantiation", None)
        }
        10 => {
            // case without else that misses several variants / lists several unknown ones
            let mut t = String::from("E :: enum\n");
            for k in 0..nerr {
                t.push_str(&format!("    {},\n", ["Zeta", "Height", "Width", "Alpha", "Mid", "Omega"][k % 6]));
            }
            t.push_str("end\n\nstart :: fn do\n    e := E.Zeta\n    case e do\n");
            if rng.chance(1, 2) {
                t.push_str("        Zeta -> end\n");
            } else {
                t.push_str("        Zeta -> end\n        Nope1 -> end\n        Another -> end\n        Third -> end\n");
            }
            t.push_str("    end\nend\n");
            files.insert("main.sy".into(), t);
            (files, "case with several missing or unknown variants", None)
        }
        11 => {
            // several wrong arguments in one call
            let t = "f :: fn a: int, b: int, c: int, d: int do\nend\n\nstart :: fn do\n    f(\"a\", \"b\", 1.0, true)\n    f(1, 2)\nend\n".to_string();
            files.insert("main.sy".into(), t);
            (files, "several wrong arguments in one call", None)
        }
        12 => {
            // several imports of missing files + names
            let mut t = String::new();
            for k in 0..nerr {
                t.push_str(&format!("from gone{} use (a{}, b{})\n", k, k, k));
            }
            t.push_str("start :: fn do\nend\n");
            files.insert("main.sy".into(), t);
            (files, "several missing imports", None)
        }
        0 => {
            // several unknown field types in ONE blob
            let mut t = String::from("A :: blob {\n");
            for k in 0..nerr {
                t.push_str(&format!("    f{}: {},\n", k, names[k % names.len()]));
            }
            t.push_str("}\n\nstart :: fn do\nend\n");
            files.insert("main.sy".into(), t);
            (files, "several unknown field types in one blob", Some("several_errors_inside_one_blob_or_enum"))
        }
        1 => {
            let mut t = String::from("E :: enum\n");
            for k in 0..nerr {
                t.push_str(&format!("    V{} {},\n", k, names[k % names.len()]));
            }
            t.push_str("end\n\nstart :: fn do\nend\n");
            files.insert("main.sy".into(), t);
            (files, "several unknown payload types in one enum", Some("several_errors_inside_one_blob_or_enum"))
        }
        2 => {
            // one unknown type in each of several blobs
            let mut t = String::new();
            for k in 0..nerr {
                t.push_str(&format!("B{} :: blob {{\n    ok: int,\n    bad: {},\n}}\n\n", k, names[k % names.len()]));
            }
            t.push_str("start :: fn do\nend\n");
            files.insert("main.sy".into(), t);
            (files, "one unknown field type in each of several blobs", None)
        }
        3 => {
            // several unresolved names in one function
            let mut t = String::from("start :: fn do\n");
            for k in 0..nerr {
                t.push_str(&format!("    x{} := undefined_{}\n", k, k));
            }
            t.push_str("end\n");
            files.insert("main.sy".into(), t);
            (files, "several unresolved names in one function", None)
        }
        4 => {
            // independent type errors in several functions
            let mut t = String::new();
            for k in 0..nerr {
                t.push_str(&format!("f{} :: fn do\n    x := {} + \"s\"\nend\n\n", k, k));
            }
            t.push_str("start :: fn do\nend\n");
            files.insert("main.sy".into(), t);
            (files, "one type error in each of several functions", None)
        }
        5 => {
            // duplicate globals
            let mut t = String::new();
            for k in 0..nerr {
                t.push_str(&format!("d{} :: 1\nd{} :: 2\n", k, k));
            }
            t.push_str("start :: fn do\nend\n");
            files.insert("main.sy".into(), t);
            (files, "several duplicate globals", None)
        }
        6 => {
            // syntax errors in several files
            let mut main = String::new();
            for k in 0..nerr.min(4) {
                main.push_str(&format!("use m{}\n", k));
                files.insert(format!("m{}.sy", k), format!("x :: 1\ny :: 1 + * {}\nz :: )\n", k));
            }
            main.push_str("start :: fn do\nend\n");
            files.insert("main.sy".into(), main);
            (files, "syntax errors in several imported files", None)
        }
        _ => {
            // resolution errors in several files + missing imports
            let mut main = String::new();
            for k in 0..nerr.min(4) {
                main.push_str(&format!("use m{}\n", k));
                files.insert(format!("m{}.sy", k), format!("x :: undefined_{}\nuse gone{}\n", k, k));
            }
            main.push_str("start :: fn do\n    q := also_undefined\nend\n");
            files.insert("main.sy".into(), main);
            (files, "resolution errors and missing imports in several files", None)
        }
    }
}

/// A valid project whose modules are reached under several spellings: `use counter` / `use /counter` from the main
/// file and from a sub-folder. One module must stay one module (its mutable global is shared).
fn mixed_import_project(rng: &mut Rng) -> Files {
    let mut files = Files::new();
    let n = 1 + rng.below(4);
    let mut main = String::from("use counter\nuse lib/helper\nuse /lib/deep/far\n\nstart :: fn do\n    counter.bump()\n");
    for _ in 0..n {
        main.push_str(["    helper.twice()\n", "    far.once()\n", "    counter.bump()\n", "    print(counter.count)\n"][rng.below(4)]);
    }
    main.push_str("    print(counter.count)\nend\n");
    files.insert("main.sy".into(), main);
    files.insert("counter.sy".into(), "count := 0\n\nbump :: fn do\n    count += 1\nend\n".into());
    files.insert("lib/helper.sy".into(), "use /counter\n\ntwice :: fn do\n    counter.bump()\n    counter.bump()\nend\n".into());
    files.insert("lib/deep/far.sy".into(), "use /counter\nuse /lib/helper\n\nonce :: fn do\n    counter.bump()\n    helper.twice()\nend\n".into());
    files
}

fn valid_project(rng: &mut Rng, depth: u32) -> Files {
    let p = gen::generate(rng, Cfg::general(depth));
    let mut t = crate::print::canonical(&p);
    // many blobs / enums / fields: hash-ordered collections in the AST
    let n = 2 + rng.below(4);
    for k in 0..n {
        t.push_str(&format!("\nWide{} :: blob {{\n", k));
        for f in 0..(3 + rng.below(8)) {
            t.push_str(&format!("    field_{}_{}: {},\n", k, f, ["int", "str", "float", "bool", "(int, str)", "[int]"][rng.below(6)]));
        }
        t.push_str("}\n");
        t.push_str(&format!("\nMany{} :: enum\n", k));
        for f in 0..(2 + rng.below(8)) {
            t.push_str(&format!("    Var{}x{} {},\n", k, f, ["int", "str", "float", "bool"][rng.below(4)]));
        }
        t.push_str("end\n");
    }
    // values that are computed and dropped, one to four levels of pure operations above variable reads
    // (an emitter that prunes or inlines unused temporaries must do so in one fixed order)
    let pool = [
        "a + b + c",
        "(a * b) - (c + a)",
        "[a, b + c]",
        "(a, (b, c + 1))",
        "a + b * c - (a - b) * (c + 1)",
        "wo.inner.n + a",
        "(wo.inner.n, [b, c * a])",
        "-(a + b) * c",
        "a < b + c",
        "(a == b) or (b + 1 == c * 2)",
        "[[a + 1, b], [c * 2]]",
        "wo.inner",
        "\"s\" + \"t\" + \"u\"",
    ];
    t.push_str("\nWInner :: blob {\n    n: int,\n}\n\nWOuter :: blob {\n    inner: WInner,\n}\n\nwdrop :: fn a: int, b: int, c: int do\n    wo :: WOuter { inner: WInner { n: a } }\n");
    for _ in 0..(3 + rng.below(6)) {
        t.push_str(&format!("    {}\n", pool[rng.below(pool.len())]));
    }
    t.push_str("    print(a)\nend\n");
    sy::one_file(&t)
}

pub fn child_main(path: &str) -> i32 {
    // compile the project serialised in `path` and print its fingerprint
    let Ok(text) = std::fs::read_to_string(path) else { return 3 };
    let Ok(j) = crate::json::parse(&text) else { return 3 };
    let mut files = Files::new();
    if let Some(m) = j.get("files").and_then(|x| x.as_obj()) {
        for (k, v) in m {
            files.insert(k.clone(), v.as_str().unwrap_or("").to_string());
        }
    }
    let no_std = matches!(j.get("no_std"), Some(J::Bool(true)));
    if let Some(dir) = j.get("disk_dir").and_then(|x| x.as_str()) {
        // the project lives on disk (error rendering reads the files again)
        let (disk, main) = materialise(std::path::Path::new(dir), &files);
        let r = sy::compile_files(&disk, &main, &CompileOpts { no_std, require: None, fuel: Some(crate::rel::CAMPAIGN_FUEL) });
        println!("{}", fingerprint(&r));
        return 0;
    }
    let r = sy::compile_files(&files, "main.sy", &CompileOpts { no_std, require: None, fuel: Some(crate::rel::CAMPAIGN_FUEL) });
    println!("{}", fingerprint(&r));
    0
}

/// write the project under `dir` (replacing what was there) and return it keyed by the on-disk paths
fn materialise(dir: &std::path::Path, files: &Files) -> (Files, String) {
    let _ = std::fs::remove_dir_all(dir);
    let mut disk = Files::new();
    for (k, v) in files {
        let p = dir.join(k);
        if let Some(parent) = p.parent() {
            let _ = std::fs::create_dir_all(parent);
        }
        let _ = std::fs::write(&p, v);
        disk.insert(p.display().to_string(), v.clone());
    }
    (disk, dir.join("main.sy").display().to_string())
}

impl Check for C16 {
    fn id(&self) -> &'static str {
        "C16"
    }
    fn plan(&self, ctx: &Ctx) -> u64 {
        scaled(ctx, 5_000, 120_000)
    }
    fn run_case(&self, ctx: &Ctx, index: u64, st: &mut Stats) {
        let mut rng = Rng::for_case(ctx.seed, "C16", index);
        let (files, what, hazard): (Files, &str, Option<&'static str>) = if index % 16 == 8 {
            (mixed_import_project(&mut rng), "valid project whose modules are imported under file-relative and root-relative paths", None)
        } else if index % 2 == 0 {
            (valid_project(&mut rng, 2), "valid program with many blobs/enums/fields", None)
        } else {
            invalid_project(&mut rng)
        };
        let no_std = rng.chance(1, 4);
        let opts = CompileOpts { no_std, require: None, fuel: Some(crate::rel::CAMPAIGN_FUEL) };
        let reps = 8;
        let mut prints: Vec<String> = Vec::new();
        for rep in 0..reps {
            // between the repetitions OTHER projects (1-4 files, valid or not, with loops) are compiled in
            // this process: nothing of them may leak into the next compilation of this project
            if rep % 2 == 1 {
                let nf = 1 + ((rep as usize / 2 + index as usize) % 4);
                let mut decoy = Files::new();
                let mut t = String::new();
                for k in 1..nf {
                    t.push_str(&format!("use dec{}\n", k));
                    decoy.insert(format!("dec{}.sy", k), format!("d{} :: {}\n", k, k));
                }
                t.push_str("start :: fn do\n    i := 0\n    loop i < 2 do\n        i += 1\n    end\n");
                if rep % 4 == 3 {
                    t.push_str("    print(undefined_decoy_name)\n");
                }
                t.push_str("end\n");
                decoy.insert("main.sy".into(), t);
                let _ = sy::compile_files(&decoy, "main.sy", &opts);
                st.count("decoy_compilations_in_between");
            }
            let r = sy::compile_files(&files, "main.sy", &opts);
            if matches!(r, Compiled::Fuel) {
                st.count("discarded_compile_budget");
                return;
            }
            prints.push(fingerprint(&r));
        }
        st.add("compilations_in_process", reps);
        st.count(&format!("project:{}", what));
        if prints[0].starts_with("ok:") {
            st.count("projects_accepted");
        } else {
            st.count("projects_rejected");
            let n: u64 = prints[0].split('|').count() as u64 - 1;
            st.maxi("errors_in_one_list", n);
        }
        // on-disk history: the SAME paths held another (invalid) project a moment ago in this process; the
        // rendering of this project's errors must equal the one a fresh process produces for these paths
        if index % 8 == 5 && !prints[0].starts_with("ok:") {
            let dir = verif_root().join(".target").join("runs").join(format!("c16disk-{}", std::process::id()));
            let mut earlier = Files::new();
            earlier.insert("main.sy".into(), "// an earlier project at the same path\nfirst :: 1\nsecond :: 2\n\nstart :: fn do\n    print(first + \"s\")\n    print(third)\nend\n".into());
            for k in files.keys() {
                if k != "main.sy" {
                    earlier.insert(k.clone(), "// earlier content\nz :: 1 +\n".into());
                }
            }
            let (d0, m0) = materialise(&dir, &earlier);
            let _ = fingerprint(&sy::compile_files(&d0, &m0, &opts));
            let (d1, m1) = materialise(&dir, &files);
            let here = fingerprint(&sy::compile_files(&d1, &m1, &opts));
            let spec = verif_root().join(".target").join("runs").join(format!("c16disk-{}-{}.json", std::process::id(), index));
            let j = J::obj().with("files", J::Obj(files.iter().map(|(k, v)| (k.clone(), J::s(v.clone()))).collect())).with("no_std", J::Bool(no_std)).with("disk_dir", J::s(dir.display().to_string()));
            if std::fs::write(&spec, j.to_string()).is_ok() {
                if let Ok(exe) = std::env::current_exe() {
                    if let Ok(out) = std::process::Command::new(&exe).arg("c16child").arg(&spec).output() {
                        let fresh = String::from_utf8_lossy(&out.stdout).trim().to_string();
                        if !fresh.is_empty() {
                            st.count("on_disk_histories_compared_with_a_fresh_process");
                            if fresh != here {
                                st.violation(Violation {
                                    signature: "nondeterministic:depends-on-earlier-compilation-of-the-same-paths".into(),
                                    hazard: None,
                                    case: index,
                                    detail: J::obj().with("what", J::s(what)).with("files", J::Obj(files.iter().map(|(k, v)| (k.clone(), J::s(v.clone()))).collect())).with("after_an_earlier_project", J::s(here.chars().take(300).collect::<String>())).with("fresh_process", J::s(fresh.chars().take(300).collect::<String>())),
                                });
                            }
                        }
                    }
                }
                let _ = std::fs::remove_file(&spec);
            }
            let _ = std::fs::remove_dir_all(&dir);
        }
        // output-path history: the driver writes this program to a path to which it wrote a LONGER (and, the other
        // way round, a shorter) program a moment ago; the file must equal what a path that never existed receives
        // and what `-o -` prints
        if index % 32 == 18 && prints[0].starts_with("ok:") {
            let bin = verif_root().join(".target/repo-bin/release/sylt");
            if bin.exists() {
                let dir = verif_root().join(".target").join("runs").join(format!("c16drv-{}-{}", std::process::id(), index));
                let (_d, _m) = materialise(&dir, &files);
                let mut long = files.get("main.sy").cloned().unwrap_or_default();
                long.push_str("\nzpad_history :: fn do\n");
                for k in 0..60 {
                    long.push_str(&format!("    print(\"a line of an earlier, longer build {}\")\n", k));
                }
                long.push_str("end\n");
                let _ = std::fs::write(dir.join("main_long.sy"), &long);
                let run = |args: &[&str]| -> Option<Vec<u8>> {
                    let mut cmd = std::process::Command::new(&bin);
                    if no_std {
                        cmd.arg("--no-std");
                    }
                    cmd.args(args).current_dir(&dir);
                    cmd.output().ok().filter(|o| o.status.success()).map(|o| o.stdout)
                };
                let steps = [
                    run(&["-o", "out.lua", "main_long.sy"]).is_some(),
                    run(&["-o", "out.lua", "main.sy"]).is_some(),
                    run(&["-o", "fresh.lua", "main.sy"]).is_some(),
                    run(&["-o", "grow.lua", "main.sy"]).is_some(),
                    run(&["-o", "grow.lua", "main_long.sy"]).is_some(),
                    run(&["-o", "fresh_long.lua", "main_long.sy"]).is_some(),
                ];
                let stdout = run(&["-o", "-", "main.sy"]);
                if steps.iter().all(|x| *x) && stdout.is_some() {
                    let rd = |n: &str| std::fs::read(dir.join(n)).unwrap_or_default();
                    let (out, fresh, grow, fresh_long) = (rd("out.lua"), rd("fresh.lua"), rd("grow.lua"), rd("fresh_long.lua"));
                    st.count("output_path_histories_compared");
                    if out != fresh || Some(&fresh) != stdout.as_ref() || grow != fresh_long {
                        st.violation(Violation {
                            signature: "nondeterministic:output-file-depends-on-what-the-path-held-before".into(),
                            hazard: None,
                            case: index,
                            detail: J::obj()
                                .with("what", J::s(what))
                                .with("files", J::Obj(files.iter().map(|(k, v)| (k.clone(), J::s(v.clone()))).collect()))
                                .with("bytes", J::s(format!("after a longer build: {} | fresh path: {} | -o -: {} | after a shorter build: {} | fresh path (long program): {}", out.len(), fresh.len(), stdout.map(|s| s.len()).unwrap_or(0), grow.len(), fresh_long.len()))),
                        });
                    }
                } else {
                    st.count("output_path_histories_not_run(driver_failed)");
                }
                let _ = std::fs::remove_dir_all(&dir);
            } else {
                st.count("output_path_histories_skipped(no_driver_binary)");
            }
        }
        // cross-process: 1 case in 8
        if index % 8 < 2 {
            let root = verif_root().join(".target").join("runs");
            let _ = std::fs::create_dir_all(&root);
            let path = root.join(format!("c16-{}-{}.json", std::process::id(), index));
            let j = J::obj().with("files", J::Obj(files.iter().map(|(k, v)| (k.clone(), J::s(v.clone()))).collect())).with("no_std", J::Bool(no_std));
            if std::fs::write(&path, j.to_string()).is_ok() {
                if let Ok(exe) = std::env::current_exe() {
                    for k in 0..3 {
                        let mut cmd = std::process::Command::new(&exe);
                        cmd.arg("c16child").arg(&path);
                        // vary environment size and working directory
                        cmd.env("VCHECK_PADDING", "x".repeat(17 + 1000 * k));
                        cmd.current_dir(if k == 1 { std::path::PathBuf::from("/") } else { root.clone() });
                        if let Ok(out) = cmd.output() {
                            let s = String::from_utf8_lossy(&out.stdout).trim().to_string();
                            if !s.is_empty() {
                                prints.push(s);
                                st.count("compilations_in_fresh_processes");
                            }
                        }
                    }
                }
                let _ = std::fs::remove_file(&path);
            }
        }
        let distinct: std::collections::BTreeSet<&String> = prints.iter().collect();
        if distinct.len() > 1 {
            let hz = hazard.map(|s| s.to_string());
            if hz.is_some() {
                st.count("hazard_case_violations");
            }
            let kind = if prints.iter().any(|p| p.starts_with("ok:")) && prints.iter().any(|p| !p.starts_with("ok:")) {
                "acceptance"
            } else if prints[0].starts_with("ok:") {
                "lua-bytes"
            } else {
                "error-list"
            };
            st.violation(Violation {
                signature: format!("nondeterministic:{}", kind),
                hazard: hz,
                case: index,
                detail: J::obj()
                    .with("what", J::s(what))
                    .with("files", J::Obj(files.iter().map(|(k, v)| (k.clone(), J::s(v.clone()))).collect()))
                    .with("distinct_outputs", J::Arr(distinct.iter().take(4).map(|s| J::s(s.chars().take(300).collect::<String>())).collect())),
            });
        } else {
            st.count("projects_with_one_distinct_output");
            st.nontrivial(hash64(format!("{:?}", files).as_bytes()));
        }
        if index < 4 {
            let f2 = files.clone();
            let fp = prints[0].clone();
            st.sample(|| J::obj().with("what", J::s(what)).with("fingerprint", J::s(fp.chars().take(200).collect::<String>())).with("main.sy", J::s(f2.get("main.sy").cloned().unwrap_or_default().chars().take(600).collect::<String>())));
        }
    }
    fn replay_witness(&self, _ctx: &Ctx, f: &Finding) -> Option<String> {
        let text = f.raw.get("witness_text").and_then(|x| x.as_str())?;
        let files = sy::one_file(text);
        let mut seen = std::collections::BTreeSet::new();
        for _ in 0..64 {
            seen.insert(fingerprint(&sy::compile_files(&files, "main.sy", &CompileOpts::default())));
        }
        if seen.len() > 1 {
            Some("nondeterministic:error-list".into())
        } else {
            None
        }
    }
    fn finish(&self, _ctx: &Ctx, st: &Stats) -> Finish {
        let mut inconclusive = Vec::new();
        if st.get("projects_accepted") < 100 || st.get("projects_rejected") < 100 {
            inconclusive.push("too few accepted or rejected projects".into());
        }
        if st.get("compilations_in_fresh_processes") < 100 {
            inconclusive.push("too few cross-process compilations".into());
        }
        if st.get("output_path_histories_compared") < 10 {
            inconclusive.push(format!("only {} output-path histories were run through the driver (is the sylt binary built?)", st.get("output_path_histories_compared")));
        }
        Finish {
            level: "exploration",
            rule: "projects: valid generated programs extended with wide blobs/enums and a function full of computed-and-dropped pure expressions; invalid projects with 2-6 independent errors (in one blob, one enum, several blobs, one function, several functions, duplicate globals, several files, definitions colliding with preamble imports, unresolved names with equally close candidates). Each is compiled 8x in one process (every HashMap gets a fresh RandomState), with other projects of 1-4 files compiled in between (nothing of an earlier compilation may leak into the next), and, for 1 case in 4, 3x in fresh processes with different environment size and working directory; for 1 invalid project in 4 the project is also written to disk paths that held another invalid project a moment earlier in the same process, and its rendered errors (which read the files) must equal those of a fresh process. For 1 accepted project in 32 the built driver writes the program to an output path that held a longer (and a shorter) build result a moment before: the file must equal the one written to a fresh path and the bytes of `-o -`. Fingerprint = Lua bytes, or the ordered list of (kind, file, span, Display, Debug) of the errors with ANSI colours stripped. Non-trivial: every project; distinct by content hash.".into(),
            extra: J::obj(),
            assumptions: vec!["colour codes are environment-controlled by design and are stripped".into()],
            exhaustive: false,
            inconclusive,
        }
    }
}
