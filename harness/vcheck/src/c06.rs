//! C06 — every accepted program yields loadable Lua: hostile lexical pools,
//! every expression kind as an unused statement, size ladders.
use crate::fw::*;
use crate::json::J;
use crate::lua::{self, Loaded};
use crate::rel::compile_budgeted;
use crate::rng::{hash64, Rng};
use crate::sy::Compiled;

pub struct C06;

const NESTED_BLOCKS: u64 = 64;

const FIELD_NAMES: &[(&str, bool)] = &[
    // (name, is a Lua keyword that is not a Sylt keyword)
    ("x", false),
    ("hp", false),
    ("repeat", true),
    ("until", true),
    ("function", true),
    ("local", true),
    ("then", true),
    ("goto", true),
    ("for", true),
    ("while", true),
    ("elseif", true),
    ("return", true),
    ("print", false),
    ("type", false),
    ("assert", false),
    ("__NIL", false),
    ("V1", false),
    ("_G", false),
    ("self_", false),
    ("_type", false),
    ("__index", false),
    ("a_very_long_field_name_that_goes_on_and_on_and_on_0123456789", false),
];

const STRINGS: &[(&str, Option<&str>)] = &[
    // (literal body, hazard feature)
    ("", None),
    ("plain", None),
    (" !#$%&'()*+,-./0123456789:;<=>?@", None),
    ("ABCDEFGHIJKLMNOPQRSTUVWXYZ[]^_`abcdefghijklmnopqrstuvwxyz{|}~", None),
    ("åäö € 😀 日本", None),
    ("]] ]=] --[[ -- end", None),
    ("'single' quotes", None),
    ("tab\there", None),
    ("%d %s %%", None),
    ("comma, space ,and ; semi: colon", None),
    ("( [ { } ] ) = == ~= .. ... :: := -> <=>", None),
    ("do end then else if local return function nil", None),
    ("  leading and trailing blanks  ", None),
    ("back\\\\slash pair", Some("backslash_or_newline_in_string_literal")),
    ("a\\n", Some("backslash_or_newline_in_string_literal")),
    ("a\\q", Some("backslash_or_newline_in_string_literal")),
    ("trailing\\", Some("backslash_or_newline_in_string_literal")),
    ("\\065\\x41\\u{41}", Some("backslash_or_newline_in_string_literal")),
    ("line one\nline two", Some("backslash_or_newline_in_string_literal")),
    ("cr\rhere", Some("backslash_or_newline_in_string_literal")),
];

const NUMBERS: &[(&str, Option<&str>)] = &[
    ("0", None),
    ("007", None),
    ("1.", None),
    (".5", None),
    ("00.500", None),
    ("1e5", None),
    ("1e+5", None),
    ("1e-5", None),
    ("1e308", None),
    ("1e-400", None),
    ("123456789.123456789", None),
    ("9223372036854775807", None),
    ("0.1", None),
    ("1e22", None),
    ("1e999", Some("float_literal_overflowing_to_infinity")),
    ("9e400", Some("float_literal_overflowing_to_infinity")),
];

const UNUSED: &[(&str, &str, Option<&str>)] = &[
    ("int literal", "1", None),
    ("float literal", "1.5", None),
    ("string literal", "\"s\"", None),
    ("bool literal", "true", None),
    ("nil", "nil", None),
    ("variable", "v", None),
    ("global", "g", None),
    ("sum", "v + 1", None),
    ("difference", "v - 1", None),
    ("product", "v * 2", None),
    ("quotient", "v / 2", None),
    ("negation", "-v", None),
    ("comparison", "v < 2", None),
    ("equality", "v == 2", None),
    ("not", "not t", None),
    ("and", "t and false", Some("unused_and_or_expression")),
    ("or", "t or false", Some("unused_and_or_expression")),
    ("and with call", "t and f(1) == 2", Some("unused_and_or_expression")),
    ("nested and/or", "(t or false) and t", Some("unused_and_or_expression")),
    ("tuple", "(v, 2)", None),
    ("unit tuple", "()", None),
    ("list", "[v, 2]", None),
    ("blob", "P { FIELD: 1 }", None),
    ("variant", "E.A 1", None),
    ("variant without payload", "E.B", None),
    ("field access", "p.FIELD", None),
    ("tuple index", "tup[0]", None),
    ("call", "f(1)", None),
    ("if expression", "if t do 1 else do 2 end", None),
    ("if without else", "if t do 1 end", None),
    ("case expression", "case e do A x -> x end B -> 0 end end", None),
    ("function literal", "fn a: int -> int do a end", None),
    ("assert", "v <=> 1", None),
    ("parenthesised", "(v)", None),
    ("string concat", "\"a\" + \"b\"", None),
];

fn base(field: &str, body: &str, globals: &str) -> String {
    format!(
        "P :: blob {{\n    {f}: int,\n}}\n\nE :: enum\n    A int,\n    B,\nend\n\ng := 10\n{globals}\nf :: fn a: int -> int do\n    a + 1\nend\n\nstart :: fn do\n    v := 1\n    t := true\n    tup := (1, 2)\n    e := E.A 3\n    p := P {{ {f}: 1 }}\n{body}    print(v)\nend\n",
        f = field,
        body = body,
        globals = globals
    )
}

fn judge(st: &mut Stats, case: u64, family: &str, what: &str, text: &str, hazard: Option<&str>) {
    st.count(&format!("tried:{}", family));
    match compile_budgeted(text) {
        Compiled::Ok(b) => {
            st.count("accepted");
            let lua_text = String::from_utf8_lossy(&b).to_string();
            match lua::load(&lua_text) {
                Loaded::Ok(c) => {
                    st.count("loads_ok");
                    st.maxi("locals_in_largest_function_loaded", c.census.max_locals_in_function as u64);
                    st.maxi("nesting_levels_in_largest_chunk_loaded", c.census.max_nesting as u64);
                    st.nontrivial(hash64(text.as_bytes()));
                }
                Loaded::GreyZone(g) => st.count(&format!("no_verdict:grey-zone:{}", g.split('=').next().unwrap_or(""))),
                Loaded::Error { class, line, msg } => {
                    if hazard.is_some() {
                        st.count("hazard_case_violations");
                    }
                    st.violation(Violation {
                        signature: format!("load:{}", class),
                        hazard: hazard.map(|s| s.to_string()),
                        case,
                        detail: J::obj()
                            .with("family", J::s(family))
                            .with("what", J::s(what))
                            .with("source", J::s(text.chars().take(3000).collect::<String>()))
                            .with("lua_error", J::s(format!("line {}: {}", line, msg)))
                            .with("lua_line", J::s(lua_text.lines().nth(line.saturating_sub(1) as usize).unwrap_or("").chars().take(300).collect::<String>())),
                    });
                }
            }
        }
        Compiled::Err { .. } => st.count(&format!("rejected_by_compiler:{}", family)),
        Compiled::Fuel => st.count("discarded_compile_budget"),
        Compiled::Panic { location, .. } => st.violation(Violation {
            signature: format!("compile:panic@{}", location),
            hazard: None,
            case,
            detail: J::obj().with("source", J::s(text.chars().take(3000).collect::<String>())),
        }),
    }
}

/// Size ladders: (family, parameter name, rungs). Rungs in Lua's grey zones are skipped by the loader's no-verdict.
fn ladder(rng: &mut Rng, which: usize, n: usize) -> (String, &'static str, Option<&'static str>) {
    match which {
        0 => {
            // n statements with a variable read each (each read is a Lua local)
            let mut body = String::new();
            for k in 0..n {
                body.push_str(&format!("    v = v + {}\n", k % 7));
            }
            (base("x", &body, ""), "statements_with_reads_per_function", if n * 2 > 150 { Some("size_beyond_lua_limits") } else { None })
        }
        1 => {
            // n user globals (each is a local of the main chunk)
            let mut g = String::new();
            for k in 0..n {
                g.push_str(&format!("gg{} := {}\n", k, k));
            }
            (base("x", "", &g), "globals_per_program", if n > 60 { Some("size_beyond_lua_limits") } else { None })
        }
        2 => {
            // expression nesting: parentheses
            let e = format!("{}v{}", "(".repeat(n), ")".repeat(n));
            (base("x", &format!("    w := {}\n", e), ""), "parenthesis_nesting", None)
        }
        3 => {
            // operator chain: a + a + a … (left-nested)
            let e = (0..n).map(|_| "v").collect::<Vec<_>>().join(" + ");
            (base("x", &format!("    w := {}\n", e), ""), "operator_chain_length", if n > 150 { Some("size_beyond_lua_limits") } else { None })
        }
        4 => {
            // call with n arguments
            let params = (0..n).map(|k| format!("a{}: int", k)).collect::<Vec<_>>().join(", ");
            let args = (0..n).map(|k| format!("{}", k)).collect::<Vec<_>>().join(", ");
            let g = format!("wide :: fn {} -> int do\n    a0\nend\n", params);
            (base("x", &format!("    w := wide({})\n", args), &g), "call_arguments", if n > 150 { Some("size_beyond_lua_limits") } else { None })
        }
        5 => {
            // nested blocks
            let mut body = String::new();
            for k in 0..n {
                body.push_str(&format!("{}if t do\n", "    ".repeat(k + 1)));
            }
            body.push_str(&format!("{}v = 2\n", "    ".repeat(n + 1)));
            for k in (0..n).rev() {
                body.push_str(&format!("{}end\n", "    ".repeat(k + 1)));
            }
            (base("x", &body, ""), "nested_if_statements", if n > 150 { Some("size_beyond_lua_limits") } else { None })
        }
        6 => {
            // list literal with n elements
            let e = (0..n).map(|k| format!("{}", k)).collect::<Vec<_>>().join(", ");
            (base("x", &format!("    w := [{}]\n", e), ""), "list_literal_elements", None)
        }
        _ => {
            // nested closures
            let mut body = String::new();
            for k in 0..n {
                body.push_str(&format!("{}h{} :: fn do\n", "    ".repeat(k + 1), k));
            }
            body.push_str(&format!("{}v = 2\n", "    ".repeat(n + 1)));
            for k in (0..n).rev() {
                body.push_str(&format!("{}end\n", "    ".repeat(k + 1)));
            }
            let _ = rng;
            (base("x", &body, ""), "nested_closures", if n > 100 { Some("size_beyond_lua_limits") } else { None })
        }
    }
}

/// Depth-1 integer expressions used as building blocks of the nested-operator family.
const INT_D1: &[&str] = &[
    "v", "1", "f(1)", "p.x", "tup[0]", "-v", "-1", "-f(1)", "-p.x", "-tup[0]", "(v + 1)", "(v - 1)", "(v * 2)", "(1 - v)", "(if t do 1 else do 2 end)", "-(v + 1)", "(-v - 1)", "(v - -1)", "-(-v)",
    "(case e do A zq -> zq end else 0 end)",
];
const BOOL_D1: &[&str] = &["t", "true", "not t", "(v < 2)", "(v == 1)", "(t and t)", "(t or false)", "not (v < 2)", "(not t and t)", "not not t", "(-v < -1)"];

/// All expressions `outer(inner1, inner2)` over the building blocks (bounded-exhaustive).
fn nested_expressions() -> Vec<(String, &'static str)> {
    let mut out = Vec::new();
    for a in INT_D1 {
        out.push((format!("-{}", a), "int"));
        out.push((format!("-(-{})", a), "int"));
        out.push((format!("- -{}", a), "int"));
        for b in INT_D1 {
            for op in ["+", "-", "*"] {
                out.push((format!("{} {} {}", a, op, b), "int"));
            }
            out.push((format!("{} / {}", a, b), "float"));
            for op in ["<", "==", ">=", "!="] {
                out.push((format!("{} {} {}", a, op, b), "bool"));
            }
        }
    }
    for a in BOOL_D1 {
        out.push((format!("not {}", a), "bool"));
        out.push((format!("not (not {})", a), "bool"));
        for b in BOOL_D1 {
            for op in ["and", "or", "=="] {
                out.push((format!("{} {} {}", a, op, b), "bool"));
            }
        }
    }
    out
}

const RUNGS: &[usize] = &[1, 5, 20, 40, 60, 80, 120, 250, 400, 1000];

impl Check for C06 {
    fn id(&self) -> &'static str {
        "C06"
    }
    fn plan(&self, ctx: &Ctx) -> u64 {
        scaled(ctx, 4_000, 60_000) + NESTED_BLOCKS
    }
    fn run_case(&self, ctx: &Ctx, index: u64, st: &mut Stats) {
        let main = scaled(ctx, 4_000, 60_000);
        if index >= main {
            // nested-operator family: block k of the bounded-exhaustive list, 12 expressions per program,
            // each both as a definition and as an unused statement
            let all = nested_expressions();
            let per = (all.len() as u64 + NESTED_BLOCKS - 1) / NESTED_BLOCKS;
            let k = index - main;
            let lo = (k * per) as usize;
            let hi = (((k + 1) * per) as usize).min(all.len());
            if lo >= hi {
                return;
            }
            for chunk in all[lo..hi].chunks(12) {
                let mut body = String::new();
                for (i, (e, _)) in chunk.iter().enumerate() {
                    body.push_str(&format!("    w{} := {}\n", i, e));
                    if i % 3 == 0 {
                        body.push_str(&format!("    {}\n", e));
                    }
                }
                st.add("nested_operator_expressions", chunk.len() as u64);
                judge(st, index, "nested-operators", &chunk.iter().map(|(e, _)| e.as_str()).collect::<Vec<_>>().join(" ; "), &base("x", &body, ""), None);
            }
            return;
        }
        let mut rng = Rng::for_case(ctx.seed, "C06", index);
        match index % 8 {
            0 => {
                // field names
                let (f, is_kw) = FIELD_NAMES[((index / 8) as usize) % FIELD_NAMES.len()];
                let body = match rng.below(4) {
                    0 => "    print(p.FIELD)\n".replace("FIELD", f),
                    1 => "    p.FIELD = 2\n".replace("FIELD", f),
                    2 => "    p.FIELD += 2\n".replace("FIELD", f),
                    _ => "    q := P { FIELD: v }\n    print(q.FIELD == p.FIELD)\n".replace("FIELD", f),
                };
                let text = base(f, &body, "");
                judge(st, index, "field-name", f, &text, if is_kw { Some("field_name_is_lua_keyword") } else { None });
            }
            1 => {
                // second half of the pool: every ASCII byte a literal can hold (all but `"`, `\`, LF, CR, which are
                // the quarantined feature), each directly followed by digits / letters that an escaping emitter could swallow
                let bytes: Vec<u8> = (1u8..=127).filter(|b| ![b'"', b'\\', b'\n', b'\r'].contains(b)).collect();
                let slot = ((index / 8) as usize) % (STRINGS.len() + bytes.len());
                if slot >= STRINGS.len() {
                    let b = bytes[slot - STRINGS.len()] as char;
                    let mut body = String::new();
                    for (i, follow) in ["", "7", "42", "99", "255", "x41", "z", "u{41}", "n", "065", " 1"].iter().enumerate() {
                        body.push_str(&format!("    w{} := \"{}{}{}\"\n    print(w{})\n", i, if i % 2 == 0 { "id" } else { "" }, b, follow, i));
                    }
                    st.count("string_byte_neighbour_programs");
                    judge(st, index, "string-literal", &format!("byte {} followed by digits and letters", b as u32), &base("x", &body, ""), None);
                    return;
                }
                let (s, hz) = STRINGS[slot];
                // the literal alone, or as one of many elements / arguments of a value that is used exactly once
                // (what the emitter writes inline, however long it gets)
                let many = |sep: &str| (0..14).map(|i| if i % 3 == 2 { format!("\"pad{}\"", i) } else { format!("\"{}\"", s) }).collect::<Vec<_>>().join(sep);
                let body = match rng.below(7) {
                    0 => format!("    w := \"{}\"\n    print(w)\n", s),
                    1 => format!("    print(\"{}\" + \"x\")\n", s),
                    2 => format!("    \"{}\" <=> \"{}\"\n", s, s),
                    3 => format!("    print([{}])\n", many(", ")),
                    4 => format!("    w := ({})\n    print(w)\n", many(", ")),
                    5 => format!("    print([[{}], [{}]])\n", many(", "), many(", ")),
                    _ => format!("    print({})\n", many(" + ")),
                };
                judge(st, index, "string-literal", s, &base("x", &body, ""), hz);
            }
            2 => {
                let (n, hz) = NUMBERS[((index / 8) as usize) % NUMBERS.len()];
                let body = match rng.below(3) {
                    0 => format!("    w := {}\n    print(w)\n", n),
                    1 => format!("    print({} + {})\n", n, n),
                    _ => format!("    w := -{}\n", n),
                };
                judge(st, index, "number-literal", n, &base("x", &body, ""), hz);
            }
            3 | 4 => {
                let (name, e, hz) = UNUSED[((index / 8) as usize * 2 + (index % 8 - 3) as usize) % UNUSED.len()];
                let e = e.replace("FIELD", "x");
                // position of the unused expression: plain statement, last in an if arm, in a loop, in a closure
                let body = match rng.below(5) {
                    0 => format!("    {}\n", e),
                    1 => format!("    if t do\n        {}\n        v = 2\n    end\n", e),
                    2 => format!("    loop v < 3 do\n        {}\n        v += 1\n    end\n", e),
                    3 => format!("    h :: fn do\n        {}\n        v = 3\n    end\n    h()\n", e),
                    _ => format!("    {}\n    {}\n", e, e),
                };
                judge(st, index, "unused-expression", name, &base("x", &body, ""), hz);
            }
            5 => {
                // statements after ret / break / continue
                let variants: &[(&str, &str, Option<&str>)] = &[
                    ("statement after ret", "    h :: fn -> int do\n        ret 1\n        v = 2\n    end\n    print(h())\n", Some("statement_after_ret_in_same_block")),
                    ("statement after bare ret", "    h :: fn do\n        ret\n        v = 2\n    end\n    h()\n", Some("statement_after_ret_in_same_block")),
                    ("ret inside if then more", "    h :: fn -> int do\n        if t do\n            ret 1\n        end\n        2\n    end\n    print(h())\n", None),
                    ("expression after ret", "    h :: fn -> int do\n        ret 1\n        2\n    end\n    print(h())\n", Some("statement_after_ret_in_same_block")),
                    ("statement after break", "    loop do\n        break\n        v = 2\n    end\n", None),
                    ("statement after continue", "    loop v < 3 do\n        v += 1\n        continue\n        v = 9\n    end\n", None),
                    ("statement after <!>", "    if v > 5 do\n        <!>\n        v = 2\n    end\n", None),
                    ("two rets", "    h :: fn -> int do\n        ret 1\n        ret 2\n    end\n    print(h())\n", Some("statement_after_ret_in_same_block")),
                    // a loop whose ONLY `continue` / `break` sits in one particular kind of nested block
                    ("only continue of a loop in a case arm", "    loop v < 3 do\n        v += 1\n        case e do\n            A q ->\n                continue\n            end\n            B ->\n            end\n        end\n        print(v)\n    end\n", None),
                    ("only continue of a loop in a case else", "    loop v < 3 do\n        v += 1\n        case e do\n            B ->\n            end\n            else\n                continue\n            end\n        end\n        print(v)\n    end\n", None),
                    ("only continue of a loop in an elif arm", "    loop v < 3 do\n        v += 1\n        if v > 5 do\n            print(v)\n        elif t do\n            continue\n        end\n        print(v)\n    end\n", None),
                    ("only continue of a loop in an else arm", "    loop v < 3 do\n        v += 1\n        if v > 5 do\n            print(v)\n        else do\n            continue\n        end\n    end\n", None),
                    ("only continue of a loop in a block", "    loop v < 3 do\n        v += 1\n        do\n            continue\n        end\n    end\n", None),
                    ("only continue of a loop in an if inside a case arm", "    loop v < 3 do\n        v += 1\n        case e do\n            A q ->\n                if q > 0 do\n                    continue\n                end\n            end\n            else\n            end\n        end\n        print(v)\n    end\n", None),
                    ("only break of a loop in a case arm", "    loop do\n        v += 1\n        case e do\n            A q ->\n                break\n            end\n            B ->\n            end\n        end\n    end\n", None),
                    ("only break of a loop in a case else inside an if", "    loop do\n        v += 1\n        if t do\n            case e do\n                B ->\n                end\n                else\n                    break\n                end\n            end\n        end\n    end\n", None),
                    ("continue of the outer loop only after an inner loop", "    loop v < 3 do\n        v += 1\n        w := 0\n        loop w < 2 do\n            w += 1\n        end\n        case e do\n            A q ->\n                continue\n            end\n            else\n            end\n        end\n    end\n", None),
                    // jumps that would leave a function literal (the compiler must reject them; if it ever
                    // accepts one the emitted `break` / `goto` cannot load)
                    ("break in a pu closure inside a loop", "    loop v < 3 do\n        v += 1\n        g :: pu n: int -> int do\n            break\n            n\n        end\n    end\n", None),
                    ("continue in a pu closure inside a loop", "    loop v < 3 do\n        v += 1\n        g :: pu n: int -> int do\n            if n > 0 do\n                continue\n            end\n            n\n        end\n    end\n", None),
                    ("break in an fn closure inside a loop", "    loop v < 3 do\n        v += 1\n        g :: fn do\n            break\n        end\n    end\n", None),
                    ("continue in a lambda argument inside a loop", "    loop v < 3 do\n        v += 1\n        list.for_each([1], fn e do\n            continue\n        end)\n    end\n", None),
                    ("break in a method of a blob built inside a loop", "    loop v < 3 do\n        v += 1\n        q := P { x: v }\n        h :: fn do\n            if t do\n                break\n            end\n        end\n    end\n", None),
                    ("break in a closure two levels below a loop", "    loop v < 3 do\n        v += 1\n        g :: fn do\n            h :: pu -> int do\n                break\n                1\n            end\n        end\n    end\n", None),
                    // dead code that opens blocks of its own
                    ("closure defined and called after ret", "    h :: fn -> int do\n        ret 1\n        g :: fn -> int do 2 end\n        g()\n    end\n    print(h())\n", None),
                    ("closure defined after ret in an if inside a loop", "    loop v < 3 do\n        v += 1\n        if t do\n            continue\n            g :: fn n: int do\n                print(n)\n            end\n            g(v)\n        end\n    end\n", None),
                    ("closure defined after break", "    loop do\n        break\n        g :: fn do\n            v = 2\n        end\n        g()\n    end\n", None),
                    ("loop after ret", "    h :: fn do\n        ret\n        loop v < 3 do\n            v += 1\n        end\n    end\n    h()\n", None),
                    ("if/else after ret", "    h :: fn -> int do\n        ret 1\n        if t do\n            v = 2\n        else do\n            v = 3\n        end\n        2\n    end\n    print(h())\n", None),
                    ("block after continue", "    loop v < 3 do\n        v += 1\n        continue\n        do\n            v = 9\n        end\n    end\n", None),
                    ("case after ret", "    h :: fn do\n        ret\n        case Maybe.Just 1 do\n            Just q -> print(q) end\n            None -> end\n        end\n    end\n    h()\n", None),
                    ("blob with method after ret", "    h :: fn do\n        ret\n        q := P { x: v }\n        print(q.x)\n    end\n    h()\n", None),
                    ("lambda argument after ret", "    h :: fn do\n        ret\n        list.for_each([1, 2], fn e do\n            print(e)\n        end)\n    end\n    h()\n", None),
                ];
                let (name, body, hz) = variants[((index / 8) as usize) % variants.len()];
                judge(st, index, "dead-code-after-jump", name, &base("x", body, ""), hz);
            }
            6 => {
                let which = ((index / 8) as usize) % 8;
                let n = RUNGS[((index / 64) as usize) % RUNGS.len()];
                let (text, family, hz) = ladder(&mut rng, which, n);
                st.maxi(&format!("ladder:{}", family), n as u64);
                judge(st, index, "size-ladder", &format!("{}={}", family, n), &text, hz);
            }
            _ if index % 16 == 7 => {
                // variable usage patterns: initialiser (literal / computed) x later writes (none, `=` once or
                // twice, `+=`) x reads (0, 1, 2) x scope (local, global, captured by a closure): an emitter
                // that inlines single-use values must still produce loadable Lua for every combination
                let k = (index / 16) as usize;
                let inits = ["0", "1.5", "\"s\"", "true", "v + 1", "(1, 2)", "Maybe.None"];
                let init = inits[k % inits.len()];
                let writes = (k / inits.len()) % 4;
                let reads = (k / (inits.len() * 4)) % 3;
                let scope = (k / (inits.len() * 12)) % 3;
                let other = match init {
                    "0" | "v + 1" => "7",
                    "1.5" => "2.5",
                    "\"s\"" => "\"t\"",
                    "true" => "false",
                    "(1, 2)" => "(3, 4)",
                    _ => "Maybe.Just 1",
                };
                let addable = matches!(init, "0" | "1.5" | "\"s\"" | "v + 1" | "(1, 2)");
                let mut use_lines = String::new();
                match writes {
                    1 => use_lines.push_str(&format!("w = {}\n", other)),
                    2 => use_lines.push_str(&format!("w = {}\nw = {}\n", other, init.replace("v + 1", "3"))),
                    3 if addable => use_lines.push_str(&format!("w += {}\n", other)),
                    _ => {}
                }
                for _ in 0..reads {
                    use_lines.push_str("print(w)\n");
                }
                let ind = |t: &str, n: usize| t.lines().map(|l| format!("{}{}\n", " ".repeat(n), l)).collect::<String>();
                let (globals, body) = match scope {
                    0 => (String::new(), format!("    w := {}\n{}", init.replace("v + 1", "v + 1"), ind(&use_lines, 4))),
                    1 => (format!("w := {}\n", init.replace("v + 1", "g + 1")), ind(&use_lines, 4)),
                    _ => (String::new(), format!("    w := {}\n    h :: fn do\n{}    end\n    h()\n", init, ind(&use_lines, 8))),
                };
                let what = format!("init {} / writes {} / reads {} / scope {}", init, ["none", "= once", "= twice", "+= once"][writes], reads, ["local", "global", "captured"][scope]);
                judge(st, index, "variable-usage", &what, &base("x", &body, &globals), None);
            }
            _ if index % 32 == 15 => {
                // whole generated programs (closures, loops, case/if expressions, higher-order calls, dead
                // code after ret/break/continue ...): whatever the compiler accepts must load
                let p = crate::gen::generate(&mut rng, crate::gen::Cfg::general(2 + (index / 32 % 2) as u32));
                let text = crate::print::canonical(&p);
                judge(st, index, "generated-program", "typed generator", &text, Some("size_beyond_lua_limits"));
            }
            _ => {
                // combinations: hostile field + string + number in one program
                let (f, is_kw) = FIELD_NAMES[rng.below(FIELD_NAMES.len())];
                let (s, shz) = STRINGS[rng.below(STRINGS.len())];
                let (n, nhz) = NUMBERS[rng.below(NUMBERS.len())];
                if is_kw || shz.is_some() || nhz.is_some() {
                    // only clean combinations here (single hazards are covered above)
                    return;
                }
                let body = format!("    w := \"{}\"\n    n := {}\n    p.{} = 3\n    print((w, n, p.{}))\n", s, n, f, f);
                judge(st, index, "combination", "field+string+number", &base(f, &body, ""), None);
            }
        }
        if index < 8 {
            st.sample(|| J::obj().with("example_base_program", J::s(base("repeat", "    print(p.repeat)\n", ""))));
        }
    }
    fn replay_witness(&self, _ctx: &Ctx, f: &Finding) -> Option<String> {
        let text = match f.raw.get("witness_text").and_then(|x| x.as_str()) {
            Some(t) => t.to_string(),
            None => std::fs::read_to_string(verif_root().join(&f.witness)).ok()?,
        };
        match compile_budgeted(&text) {
            Compiled::Ok(b) => match lua::load(&String::from_utf8_lossy(&b)) {
                Loaded::Error { class, .. } => Some(format!("load:{}", class)),
                _ => None,
            },
            _ => None,
        }
    }
    fn finish(&self, _ctx: &Ctx, st: &Stats) -> Finish {
        let mut inconclusive = Vec::new();
        for fam in ["field-name", "string-literal", "number-literal", "unused-expression", "dead-code-after-jump", "size-ladder", "combination", "nested-operators", "generated-program", "variable-usage"] {
            if st.get(&format!("tried:{}", fam)) == 0 {
                inconclusive.push(format!("family never tried: {}", fam));
            }
        }
        if st.get("loads_ok") < 500 {
            inconclusive.push(format!("only {} chunks were loaded successfully", st.get("loads_ok")));
        }
        Finish {
            level: "exploration",
            rule: format!(
                "template programs with lexical slots filled from hostile pools: {} field names (Lua-only keywords, preamble globals), {} string literals (all printable ASCII, multi-byte, ]] and --, backslash sequences, embedded newline/CR), {} numeric literals (leading zeros, 1. .5, exponents, 1e308, 1e-400, i64 max, overflow to infinity), {} expression kinds as unused statements in 5 positions, statements (also closures, loops, if/else, blocks, case, lambdas) after ret/break/continue/<!>, whole generated programs of the typed generator, variable usage patterns (7 initialisers x 4 write patterns x 0-2 reads x local | global | captured), a bounded-exhaustive family of nested operator expressions outer(inner, inner) over 20 integer and 11 boolean building blocks (unary minus/not next to every binary operator, call, field, index, if- and case-expressions), 8 size ladders (reads per function, globals, parenthesis nesting, operator chains, call arguments, nested ifs, list elements, nested closures) over rungs {:?}. Oracle: luamon's load phase (syntax, return-not-last, break-outside-loop, goto rules, limits with grey zones). Non-trivial & distinct: accepted programs that loaded, by source hash.",
                FIELD_NAMES.len(),
                STRINGS.len(),
                NUMBERS.len(),
                UNUSED.len(),
                RUNGS
            ),
            extra: J::obj(),
            assumptions: vec!["Lua limits are modelled with grey zones (locals 190-210, levels 185-205, registers 240-260): a count inside a grey zone gives no verdict".into()],
            exhaustive: false,
            inconclusive,
        }
    }
}
