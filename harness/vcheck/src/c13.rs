//! C13 — operator precedence and associativity.
//!
//! An expression tree is printed (1) with only the parentheses the documented
//! table requires and (2) fully parenthesised; both texts are parsed by the
//! real parser and the public ASTs are compared ignoring spans and
//! `Parenthesis` nodes. Typed instances are additionally compiled (Lua bytes
//! must be equal) and executed under luamon against the tree's own value.
use crate::fw::*;
use crate::json::J;
use crate::rng::{hash64, Rng};
use std::path::Path;
use sylt_parser::expression::ComparisonKind;
use sylt_parser::{Assignable, AssignableKind, Expression, ExpressionKind as EK, StatementKind as SK};

pub struct C13;

#[derive(Clone, Copy, Debug, PartialEq, Eq)]
pub enum Bop {
    Assert,
    Or,
    And,
    Eq,
    Ne,
    Lt,
    Le,
    Gt,
    Ge,
    Add,
    Sub,
    Mul,
    Div,
}
pub const BOPS: [Bop; 13] =
    [Bop::Assert, Bop::Or, Bop::And, Bop::Eq, Bop::Ne, Bop::Lt, Bop::Le, Bop::Gt, Bop::Ge, Bop::Add, Bop::Sub, Bop::Mul, Bop::Div];

impl Bop {
    pub fn text(self) -> &'static str {
        match self {
            Bop::Assert => "<=>",
            Bop::Or => "or",
            Bop::And => "and",
            Bop::Eq => "==",
            Bop::Ne => "!=",
            Bop::Lt => "<",
            Bop::Le => "<=",
            Bop::Gt => ">",
            Bop::Ge => ">=",
            Bop::Add => "+",
            Bop::Sub => "-",
            Bop::Mul => "*",
            Bop::Div => "/",
        }
    }
    /// level ×10 from the documented table (higher binds tighter)
    pub fn level(self) -> u32 {
        match self {
            Bop::Assert => 10,
            Bop::Or => 20,
            Bop::And => 30,
            Bop::Eq | Bop::Ne | Bop::Lt | Bop::Le | Bop::Gt | Bop::Ge => 40,
            Bop::Add | Bop::Sub => 50,
            Bop::Mul | Bop::Div => 60,
        }
    }
}
const UNARY_LEVEL: u32 = 55;

#[derive(Clone, Copy, Debug, PartialEq, Eq)]
pub enum Uop {
    Neg,
    Not,
}

#[derive(Clone, Debug)]
pub enum X {
    Atom(String),
    Un(Uop, Box<X>),
    Bin(Bop, Box<X>, Box<X>),
    /// postfix applied to a non-atomic base: `(e).f`, `(e)[i]`, `(e)(args)`
    Post(Box<X>, String),
}

impl X {
    fn level(&self) -> u32 {
        match self {
            X::Atom(_) | X::Post(..) => 100,
            X::Un(..) => UNARY_LEVEL,
            X::Bin(op, ..) => op.level(),
        }
    }
    pub fn ops(&self) -> usize {
        match self {
            X::Atom(_) => 0,
            X::Un(_, a) => 1 + a.ops(),
            X::Bin(_, a, b) => 1 + a.ops() + b.ops(),
            X::Post(a, _) => 1 + a.ops(),
        }
    }
    /// Only the parentheses the documented table requires. Where the table is
    /// silent (unary next to `* /`) parentheses are written.
    pub fn minimal(&self) -> String {
        match self {
            X::Atom(s) => s.clone(),
            X::Un(op, a) => {
                let inner = match **a {
                    X::Bin(..) => format!("({})", a.minimal()),
                    _ => a.minimal(),
                };
                match op {
                    Uop::Neg => {
                        if inner.starts_with('-') {
                            format!("- {}", inner)
                        } else {
                            format!("-{}", inner)
                        }
                    }
                    Uop::Not => format!("not {}", inner),
                }
            }
            X::Bin(op, l, r) => {
                let lv = op.level();
                let ls = if l.level() < lv { format!("({})", l.minimal()) } else { l.minimal() };
                let rs = if r.level() <= lv { format!("({})", r.minimal()) } else { r.minimal() };
                format!("{} {} {}", ls, op.text(), rs)
            }
            X::Post(b, suffix) => format!("({}){}", b.minimal(), suffix),
        }
    }
    pub fn full(&self) -> String {
        match self {
            X::Atom(s) => s.clone(),
            X::Un(op, a) => match op {
                Uop::Neg => format!("(-{})", a.full()),
                Uop::Not => format!("(not {})", a.full()),
            },
            X::Bin(op, l, r) => format!("({} {} {})", l.full(), op.text(), r.full()),
            X::Post(b, suffix) => format!("({}){}", b.full(), suffix),
        }
    }
}

fn strip_assignable(a: &Assignable) -> Assignable {
    use AssignableKind as AK;
    let kind = match &a.kind {
        AK::Read(i) => AK::Read(i.clone()),
        AK::Variant { enum_ass, variant, value } => {
            AK::Variant { enum_ass: Box::new(strip_assignable(enum_ass)), variant: variant.clone(), value: Box::new(strip(value)) }
        }
        AK::Call(f, args) => AK::Call(Box::new(strip_assignable(f)), args.iter().map(strip).collect()),
        AK::ArrowCall(e, f, args) => AK::ArrowCall(Box::new(strip(e)), Box::new(strip_assignable(f)), args.iter().map(strip).collect()),
        AK::Access(a, f) => AK::Access(Box::new(strip_assignable(a)), f.clone()),
        AK::Index(a, i) => AK::Index(Box::new(strip_assignable(a)), Box::new(strip(i))),
        AK::Expression(e) => AK::Expression(Box::new(strip(e))),
    };
    Assignable { span: a.span, kind }
}

/// Remove `Parenthesis` nodes everywhere (statement bodies of nested functions are not needed here).
pub fn strip(e: &Expression) -> Expression {
    let b = |x: &Expression| Box::new(strip(x));
    let kind = match &e.kind {
        EK::Parenthesis(x) => return strip(x),
        EK::Get(a) => EK::Get(strip_assignable(a)),
        EK::Add(a, c) => EK::Add(b(a), b(c)),
        EK::Sub(a, c) => EK::Sub(b(a), b(c)),
        EK::Mul(a, c) => EK::Mul(b(a), b(c)),
        EK::Div(a, c) => EK::Div(b(a), b(c)),
        EK::Neg(a) => EK::Neg(b(a)),
        EK::Comparison(a, k, c) => EK::Comparison(b(a), k.clone(), b(c)),
        EK::AssertEq(a, c) => EK::AssertEq(b(a), b(c)),
        EK::And(a, c) => EK::And(b(a), b(c)),
        EK::Or(a, c) => EK::Or(b(a), b(c)),
        EK::Not(a) => EK::Not(b(a)),
        EK::Tuple(xs) => EK::Tuple(xs.iter().map(strip).collect()),
        EK::List(xs) => EK::List(xs.iter().map(strip).collect()),
        other => other.clone(),
    };
    Expression { span: e.span, ty: None, kind }
}

/// Parse `start :: fn do\n  x := <text>\nend` with the public parser and return the expression.
pub fn parse_expr(text: &str) -> Result<Expression, String> {
    let src = format!("start :: fn do\n    x := {}\nend\n", text);
    let reader = |_p: &Path| -> Result<String, sylt_common::Error> { Ok(src.clone()) };
    let ast = sylt_parser::tree(Path::new("main.sy"), reader, false).map_err(|e| format!("{:?}", e.iter().map(|x| crate::sy::err_info(x).display).collect::<Vec<_>>()))?;
    for (_, m) in &ast.modules {
        for s in &m.statements {
            if let SK::Definition { value, .. } = &s.kind {
                if let EK::Function { body, .. } = &value.kind {
                    for st in body {
                        let inner = match &st.kind {
                            SK::Block { statements } => statements.clone(),
                            _ => vec![st.clone()],
                        };
                        for st in inner {
                            if let SK::Definition { value, .. } = &st.kind {
                                return Ok(value.clone());
                            }
                        }
                    }
                }
            }
        }
    }
    Err("definition not found in the parse tree".into())
}

/// Does the (stripped) parsed tree have the operator skeleton of `x`?
fn same_shape(x: &X, e: &Expression) -> bool {
    match (x, &e.kind) {
        (X::Atom(_), k) => !matches!(
            k,
            EK::Add(..) | EK::Sub(..) | EK::Mul(..) | EK::Div(..) | EK::Neg(..) | EK::Not(..) | EK::And(..) | EK::Or(..) | EK::AssertEq(..) | EK::Comparison(..)
        ),
        (X::Un(Uop::Neg, a), EK::Neg(b)) => same_shape(a, b),
        (X::Un(Uop::Not, a), EK::Not(b)) => same_shape(a, b),
        (X::Bin(op, l, r), k) => {
            let (a, b) = match (op, k) {
                (Bop::Add, EK::Add(a, b)) | (Bop::Sub, EK::Sub(a, b)) | (Bop::Mul, EK::Mul(a, b)) | (Bop::Div, EK::Div(a, b)) => (a, b),
                (Bop::And, EK::And(a, b)) | (Bop::Or, EK::Or(a, b)) | (Bop::Assert, EK::AssertEq(a, b)) => (a, b),
                (Bop::Eq, EK::Comparison(a, ComparisonKind::Equals, b))
                | (Bop::Ne, EK::Comparison(a, ComparisonKind::NotEquals, b))
                | (Bop::Lt, EK::Comparison(a, ComparisonKind::Less, b))
                | (Bop::Le, EK::Comparison(a, ComparisonKind::LessEqual, b))
                | (Bop::Gt, EK::Comparison(a, ComparisonKind::Greater, b))
                | (Bop::Ge, EK::Comparison(a, ComparisonKind::GreaterEqual, b)) => (a, b),
                _ => return false,
            };
            same_shape(l, a) && same_shape(r, b)
        }
        (X::Post(base, _), EK::Get(a)) => {
            // find the innermost Expression(..) base
            fn base_of(a: &Assignable) -> Option<&Expression> {
                match &a.kind {
                    AssignableKind::Expression(e) => Some(e),
                    AssignableKind::Call(f, _) | AssignableKind::Access(f, _) | AssignableKind::Index(f, _) => base_of(f),
                    _ => None,
                }
            }
            match base_of(a) {
                Some(e) => same_shape(base, e),
                None => false,
            }
        }
        _ => false,
    }
}

pub const ATOMS: &[&str] = &[
    "a", "1", "b", "2.5", "\"s\"", "true", "nil", "f(x)", "l[0]", "p.x", "g(1, y)", "(1, b)", "[a, 2]", "p.q.r", "m.h(x)[1]", "f()", "false", "0", "t[1]", ".5",
];

fn atom_for(k: usize) -> X {
    X::Atom(ATOMS[k % ATOMS.len()].to_string())
}

/// All binary shapes with n internal nodes (as nested index structure).
#[derive(Clone, Debug)]
enum Shape {
    Leaf,
    Node(Box<Shape>, Box<Shape>),
}
fn shapes(n: usize) -> Vec<Shape> {
    if n == 0 {
        return vec![Shape::Leaf];
    }
    let mut out = Vec::new();
    for l in 0..n {
        for a in shapes(l) {
            for b in shapes(n - 1 - l) {
                out.push(Shape::Node(Box::new(a.clone()), Box::new(b)));
            }
        }
    }
    out
}

/// Instantiate a shape with operators (digits of `opsel` base 13), unary marks and atoms.
fn build(shape: &Shape, opsel: &mut u64, node_no: &mut usize, unary: &[(usize, Uop)], atom_rot: usize) -> X {
    let my = *node_no;
    *node_no += 1;
    let core = match shape {
        Shape::Leaf => atom_for(atom_rot + my),
        Shape::Node(a, b) => {
            let op = BOPS[(*opsel % 13) as usize];
            *opsel /= 13;
            let l = build(a, opsel, node_no, unary, atom_rot);
            let r = build(b, opsel, node_no, unary, atom_rot);
            X::Bin(op, Box::new(l), Box::new(r))
        }
    };
    let mut x = core;
    for (n, u) in unary {
        if *n == my {
            x = X::Un(*u, Box::new(x));
        }
    }
    x
}

fn nodes(shape: &Shape) -> usize {
    match shape {
        Shape::Leaf => 1,
        Shape::Node(a, b) => 1 + nodes(a) + nodes(b),
    }
}

pub fn judge_tree(x: &X, st: &mut Stats, case: u64, family: &str) {
    let min_t = x.minimal();
    let full_t = x.full();
    st.count("trees");
    if min_t == full_t {
        st.count("trees_where_both_texts_coincide");
    }
    let pm = parse_expr(&min_t);
    let pf = parse_expr(&full_t);
    let (pm, pf) = match (pm, pf) {
        (Ok(a), Ok(b)) => (strip(&a), strip(&b)),
        (a, b) => {
            st.violation(Violation {
                signature: format!("prec:parse-error:{}{}", if a.is_err() { "min" } else { "" }, if b.is_err() { "full" } else { "" }),
                hazard: None,
                case,
                detail: J::obj()
                    .with("family", J::s(family))
                    .with("minimal", J::s(min_t))
                    .with("full", J::s(full_t))
                    .with("minimal_result", J::s(format!("{:?}", a.err())))
                    .with("full_result", J::s(format!("{:?}", b.err()))),
            });
            return;
        }
    };
    st.count("parse_pairs_compared");
    if !same_shape(x, &pf) {
        // our own printer / the parser disagree on the fully parenthesised text: harness-or-parser problem
        st.violation(Violation {
            signature: "prec:full-form-shape".into(),
            hazard: None,
            case,
            detail: J::obj().with("family", J::s(family)).with("full", J::s(full_t)).with("tree", J::s(format!("{:?}", x))).with("parsed", J::s(format!("{:?}", pf.kind))),
        });
        return;
    }
    if pm != pf {
        st.violation(Violation {
            signature: "prec:tree-differs".into(),
            hazard: None,
            case,
            detail: J::obj()
                .with("family", J::s(family))
                .with("minimal", J::s(min_t))
                .with("full", J::s(full_t))
                .with("minimal_parsed", J::s(format!("{:?}", pm.kind)))
                .with("full_parsed", J::s(format!("{:?}", pf.kind))),
        });
    }
}

// ---------------------------------------------------------------- typed instances

#[derive(Clone, Copy, PartialEq, Debug)]
enum Ty {
    I,
    B,
}

fn gen_typed(rng: &mut Rng, ty: Ty, depth: u32) -> (X, i64) {
    // returns tree and value (bool as 0/1)
    if depth == 0 || rng.chance(1, 5) {
        return match ty {
            Ty::I => {
                let v = rng.range(0, 9);
                (X::Atom(v.to_string()), v)
            }
            Ty::B => {
                let v = rng.chance(1, 2);
                (X::Atom(if v { "true" } else { "false" }.into()), v as i64)
            }
        };
    }
    match ty {
        Ty::I => match rng.below(4) {
            0 => {
                let (a, va) = gen_typed(rng, Ty::I, depth - 1);
                (X::Un(Uop::Neg, Box::new(a)), va.wrapping_neg())
            }
            k => {
                let (a, va) = gen_typed(rng, Ty::I, depth - 1);
                let (b, vb) = gen_typed(rng, Ty::I, depth - 1);
                let (op, v) = match k {
                    1 => (Bop::Add, va.wrapping_add(vb)),
                    2 => (Bop::Sub, va.wrapping_sub(vb)),
                    _ => (Bop::Mul, va.wrapping_mul(vb)),
                };
                (X::Bin(op, Box::new(a), Box::new(b)), v)
            }
        },
        Ty::B => match rng.below(10) {
            0 => {
                let (a, va) = gen_typed(rng, Ty::B, depth - 1);
                (X::Un(Uop::Not, Box::new(a)), (va == 0) as i64)
            }
            1 | 2 => {
                let (a, va) = gen_typed(rng, Ty::B, depth - 1);
                let (b, vb) = gen_typed(rng, Ty::B, depth - 1);
                (X::Bin(Bop::And, Box::new(a), Box::new(b)), (va != 0 && vb != 0) as i64)
            }
            3 | 4 => {
                let (a, va) = gen_typed(rng, Ty::B, depth - 1);
                let (b, vb) = gen_typed(rng, Ty::B, depth - 1);
                (X::Bin(Bop::Or, Box::new(a), Box::new(b)), (va != 0 || vb != 0) as i64)
            }
            5 => {
                let (a, va) = gen_typed(rng, Ty::B, depth - 1);
                let (b, vb) = gen_typed(rng, Ty::B, depth - 1);
                let ne = rng.chance(1, 2);
                (X::Bin(if ne { Bop::Ne } else { Bop::Eq }, Box::new(a), Box::new(b)), ((va == vb) != ne) as i64)
            }
            k => {
                let (a, va) = gen_typed(rng, Ty::I, depth - 1);
                let (b, vb) = gen_typed(rng, Ty::I, depth - 1);
                let (op, v) = match k {
                    6 => (Bop::Lt, va < vb),
                    7 => (Bop::Le, va <= vb),
                    8 => (Bop::Gt, va > vb),
                    _ => (Bop::Ge, va >= vb),
                };
                (X::Bin(op, Box::new(a), Box::new(b)), v as i64)
            }
        },
    }
}

fn judge_typed(rng: &mut Rng, st: &mut Stats, case: u64) {
    let ty = if rng.chance(1, 2) { Ty::I } else { Ty::B };
    let (x, v) = gen_typed(rng, ty, 5);
    if x.ops() < 2 {
        st.count("typed_trivial_skipped");
        return;
    }
    let expect = match ty {
        Ty::I => v.to_string(),
        Ty::B => (v != 0).to_string(),
    };
    let prog = |e: &str| format!("start :: fn do\n    print({})\nend\n", e);
    let cm = crate::sy::compile_str(&prog(&x.minimal()));
    let cf = crate::sy::compile_str(&prog(&x.full()));
    st.count("typed_trees");
    match (&cm, &cf) {
        (crate::sy::Compiled::Ok(a), crate::sy::Compiled::Ok(b)) => {
            st.count("typed_lua_pairs_compared");
            if a != b {
                st.violation(Violation {
                    signature: "prec:lua-differs".into(),
                    hazard: None,
                    case,
                    detail: J::obj().with("minimal", J::s(x.minimal())).with("full", J::s(x.full())),
                });
                return;
            }
            // value: run the minimal form
            let lua = String::from_utf8_lossy(a).to_string();
            match crate::lua::run_simple(&lua) {
                crate::lua::Simple::Prints(p) => {
                    st.count("typed_values_checked");
                    if p.len() != 1 || p[0] != expect {
                        st.violation(Violation {
                            signature: "prec:value-differs".into(),
                            hazard: None,
                            case,
                            detail: J::obj().with("minimal", J::s(x.minimal())).with("expected", J::s(expect)).with("printed", J::Arr(p.into_iter().map(J::Str).collect())),
                        });
                    }
                }
                crate::lua::Simple::Inconclusive(why) => {
                    st.count(&format!("typed_run_inconclusive:{}", why));
                }
                crate::lua::Simple::Failed(why) => {
                    st.violation(Violation {
                        signature: format!("prec:run-failed:{}", why),
                        hazard: None,
                        case,
                        detail: J::obj().with("minimal", J::s(x.minimal())),
                    });
                }
            }
        }
        _ => {
            if cm.brief() != cf.brief() {
                st.violation(Violation {
                    signature: "prec:acceptance-differs".into(),
                    hazard: None,
                    case,
                    detail: J::obj().with("minimal", J::s(x.minimal())).with("full", J::s(x.full())).with("min_result", J::s(cm.brief())).with("full_result", J::s(cf.brief())),
                });
            } else {
                st.count("typed_both_rejected");
            }
        }
    }
    st.nontrivial(hash64(x.full().as_bytes()));
}

fn gen_random(rng: &mut Rng, depth: u32) -> X {
    if depth == 0 || rng.chance(1, 6) {
        // atoms may contain nested expressions
        return match rng.below(12) {
            0 if depth > 0 => X::Atom(format!("f({})", gen_random(rng, depth - 1).minimal())),
            1 if depth > 0 => X::Atom(format!("g({}, {})", gen_random(rng, depth - 1).minimal(), gen_random(rng, depth - 1).minimal())),
            2 if depth > 0 => X::Atom(format!("({}, {})", gen_random(rng, depth - 1).minimal(), gen_random(rng, depth - 1).minimal())),
            3 if depth > 0 => X::Atom(format!("[{}]", gen_random(rng, depth - 1).minimal())),
            _ => atom_for(rng.below(ATOMS.len())),
        };
    }
    match rng.below(10) {
        0 | 1 => X::Un(if rng.chance(1, 2) { Uop::Neg } else { Uop::Not }, Box::new(gen_random(rng, depth - 1))),
        2 => {
            let b = gen_random(rng, depth - 1);
            let b = match b {
                X::Atom(_) => X::Bin(*rng.pick(&BOPS), Box::new(b), Box::new(atom_for(rng.below(ATOMS.len())))),
                other => other,
            };
            X::Post(Box::new(b), rng.pick(&[".x", "[0]", "(1)", ".f(2)", "[2].y"]).to_string())
        }
        _ => X::Bin(*rng.pick(&BOPS), Box::new(gen_random(rng, depth - 1)), Box::new(gen_random(rng, depth - 1))),
    }
}

struct Plan {
    max_bin: usize,
    max_unary_for: [usize; 5], // max unary marks for trees with n binary operators
    random: u64,
    typed: u64,
}
fn plan_for(ctx: &Ctx) -> Plan {
    match ctx.tier {
        Tier::Quick => Plan { max_bin: 3, max_unary_for: [2, 2, 2, 1, 0], random: 40_000, typed: 6_000 },
        Tier::Thorough => Plan { max_bin: 4, max_unary_for: [3, 3, 2, 2, 1], random: 1_500_000, typed: 150_000 },
    }
}

/// Blocks of the exhaustive part: (n_bin, shape index, first-operator index) -> enumerates the rest.
fn blocks(p: &Plan) -> Vec<(usize, usize, usize)> {
    let mut v = Vec::new();
    for n in 0..=p.max_bin {
        let ns = shapes(n).len();
        for s in 0..ns {
            if n == 0 {
                v.push((n, s, 0));
            } else {
                for o in 0..13 {
                    v.push((n, s, o));
                }
            }
        }
    }
    v
}

fn unary_sets(nnodes: usize, max_marks: usize) -> Vec<Vec<(usize, Uop)>> {
    let mut out: Vec<Vec<(usize, Uop)>> = vec![vec![]];
    if max_marks >= 1 {
        for n in 0..nnodes {
            for u in [Uop::Neg, Uop::Not] {
                out.push(vec![(n, u)]);
            }
        }
    }
    if max_marks >= 2 {
        for n1 in 0..nnodes {
            for n2 in n1..nnodes {
                for u1 in [Uop::Neg, Uop::Not] {
                    for u2 in [Uop::Neg, Uop::Not] {
                        out.push(vec![(n1, u1), (n2, u2)]);
                    }
                }
            }
        }
    }
    if max_marks >= 3 {
        for n1 in 0..nnodes {
            for n2 in n1..nnodes {
                for n3 in n2..nnodes {
                    out.push(vec![(n1, Uop::Neg), (n2, Uop::Not), (n3, Uop::Neg)]);
                    out.push(vec![(n1, Uop::Not), (n2, Uop::Neg), (n3, Uop::Not)]);
                }
            }
        }
    }
    out
}

impl Check for C13 {
    fn id(&self) -> &'static str {
        "C13"
    }
    fn plan(&self, ctx: &Ctx) -> u64 {
        let p = plan_for(ctx);
        blocks(&p).len() as u64 + ((p.random as f64 * ctx.scale) as u64) / 100 + ((p.typed as f64 * ctx.scale) as u64) / 50
    }
    fn run_case(&self, ctx: &Ctx, index: u64, st: &mut Stats) {
        let p = plan_for(ctx);
        let bl = blocks(&p);
        if (index as usize) < bl.len() {
            let (n, s, o) = bl[index as usize];
            let shape = shapes(n)[s].clone();
            let nn = nodes(&shape);
            let usets = unary_sets(nn, p.max_unary_for[n]);
            let rest = if n == 0 { 1 } else { 13u64.pow((n - 1) as u32) };
            let mut count = 0u64;
            for r in 0..rest {
                for us in &usets {
                    let mut sel = (o as u64) + 13 * r;
                    let mut no = 0;
                    let x = build(&shape, &mut sel, &mut no, us, (index as usize) + r as usize);
                    judge_tree(&x, st, index, "exhaustive");
                    count += 1;
                    if x.ops() >= 2 {
                        st.distinct_by_construction += 1;
                    }
                    if index == 40 && r == 5 && us.len() == 1 && us[0].0 == 1 {
                        st.sample(|| J::obj().with("family", J::s("exhaustive")).with("minimal", J::s(x.minimal())).with("full", J::s(x.full())));
                    }
                }
            }
            st.add("exhaustive_trees", count);
            st.maxi("binary_operators_in_exhaustive_tree", n as u64);
            return;
        }
        let idx = index - bl.len() as u64;
        let nrand_cases = ((p.random as f64 * ctx.scale) as u64) / 100;
        if idx < nrand_cases {
            let mut rng = Rng::for_case(ctx.seed, "C13r", idx);
            for k in 0..100 {
                let x = gen_random(&mut rng, if ctx.tier == Tier::Quick { 5 } else { 6 });
                judge_tree(&x, st, index, "random");
                st.count("random_trees");
                st.maxi("operators_in_random_tree", x.ops() as u64);
                if x.ops() >= 2 {
                    st.nontrivial(hash64(x.full().as_bytes()));
                }
                if idx == 0 && k < 2 {
                    st.sample(|| J::obj().with("family", J::s("random")).with("minimal", J::s(x.minimal())).with("full", J::s(x.full())));
                }
            }
            return;
        }
        let idx = idx - nrand_cases;
        let mut rng = Rng::for_case(ctx.seed, "C13t", idx);
        for _ in 0..50 {
            judge_typed(&mut rng, st, index);
        }
    }
    fn finish(&self, ctx: &Ctx, st: &Stats) -> Finish {
        let p = plan_for(ctx);
        let mut inconclusive = Vec::new();
        if st.get("parse_pairs_compared") < 10_000 {
            inconclusive.push(format!("only {} parse pairs compared", st.get("parse_pairs_compared")));
        }
        if st.get("typed_values_checked") < 500 {
            inconclusive.push(format!("only {} typed values executed", st.get("typed_values_checked")));
        }
        Finish {
            level: "exploration",
            rule: format!(
                "exhaustive: every tree with <= {} binary operators from the 13, every operator assignment, with up to {:?} unary -/not marks (by operator count) on any node, leaves rotating over {} atom kinds; \
                 random trees to depth 5/6 incl. postfix on parenthesised bases and nested argument expressions; typed int/bool trees compiled and executed. Non-trivial = >= 2 operators; exhaustive trees distinct by construction, others by hash of the fully parenthesised text.",
                p.max_bin,
                p.max_unary_for,
                ATOMS.len()
            ),
            extra: J::obj().with("bounded_part_exhaustive", J::Bool(true)).with(
                "oracle",
                J::s("public AST of minimal vs fully parenthesised text, compared modulo spans and Parenthesis nodes; the full form's operator skeleton is checked against the generated tree; typed trees: equal Lua bytes and printed value == value computed on the tree"),
            ),
            assumptions: vec![
                "where the documented table is silent (unary operator next to * or /) the minimal form writes parentheses".into(),
                "typed values rely on luamon (Lua 5.3 model)".into(),
            ],
            exhaustive: true,
            inconclusive,
        }
    }
}
