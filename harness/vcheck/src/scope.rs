//! Lexical scope analysis of abstract programs (independent of the repo's resolver):
//! which binders are visible, and in which order, at every use.
use crate::ast::*;
use std::collections::BTreeSet;

#[derive(Clone, Copy, Debug, PartialEq, Eq, PartialOrd, Ord)]
pub enum ScopeKind {
    FnBody,
    IfArm,
    CaseArm,
    LoopBody,
    Block,
}

pub struct Analysis {
    /// unordered pairs of binders that must not share a name
    pub conflicts: BTreeSet<(BId, BId)>,
    pub uses: u64,
    /// for every locally declared binder: kind of the innermost scope that declares it
    pub decl_scope: Vec<Option<ScopeKind>>,
    /// shadowing opportunities actually available: (inner, outer) pairs that are both visible somewhere without conflict
    pub visible_pairs: u64,
}

struct W<'p> {
    p: &'p Program,
    stack: Vec<BId>,
    a: Analysis,
}

fn pair(a: BId, b: BId) -> (BId, BId) {
    if a < b {
        (a, b)
    } else {
        (b, a)
    }
}

impl<'p> W<'p> {
    fn use_of(&mut self, b: BId) {
        self.a.uses += 1;
        if self.p.binders[b].kind == BKind::Global {
            for s in self.stack.clone() {
                self.a.conflicts.insert(pair(b, s));
            }
        } else if let Some(pos) = self.stack.iter().rposition(|x| *x == b) {
            for s in self.stack[pos + 1..].to_vec() {
                self.a.conflicts.insert(pair(b, s));
            }
            self.a.visible_pairs += pos as u64;
        }
    }

    fn declare(&mut self, b: BId, kind: ScopeKind) {
        self.stack.push(b);
        if self.a.decl_scope.len() <= b {
            self.a.decl_scope.resize(b + 1, None);
        }
        self.a.decl_scope[b] = Some(kind);
    }

    fn block(&mut self, b: &Block, kind: ScopeKind) {
        let mark = self.stack.len();
        for s in &b.stmts {
            self.stmt(s, kind);
        }
        if let Some(v) = &b.value {
            self.expr(v);
        }
        self.stack.truncate(mark);
    }

    fn stmt(&mut self, s: &Stmt, kind: ScopeKind) {
        match s {
            Stmt::Def { b, init } => {
                // the initialiser must not mention a binder with the new name
                let mut used = Vec::new();
                walk_expr(init, &mut |e| {
                    if let Expr::Var(v) = e {
                        used.push(*v);
                    }
                });
                // ... when the initialiser IS a function literal (its name is declared first, so that it can call
                // itself); the parameters of that literal are exempt: `f :: fn f do … f … end` is well defined (the
                // parameter is the innermost declaration) unless the body also calls the function.
                // Any other initialiser is resolved before the new name exists: `n := g(fn … end, n)` reads the
                // outer `n`, so the new variable may take the name of one its initialiser reads.
                let self_used = used.contains(b);
                if let Expr::Lambda(fd) = init {
                    for u in used {
                        if u != *b && (self_used || !fd.params.contains(&u)) {
                            self.a.conflicts.insert(pair(*b, u));
                        }
                    }
                }
                self.expr(init);
                self.declare(*b, kind);
            }
            Stmt::Assign { target, value, .. } => {
                match target {
                    LValue::Var(b) => self.use_of(*b),
                    LValue::Field(e, _) => self.expr(e),
                }
                self.expr(value);
            }
            Stmt::Loop { cond, body, .. } => {
                if let Some(c) = cond {
                    self.expr(c);
                }
                self.block(body, ScopeKind::LoopBody);
            }
            Stmt::Ret(Some(e)) | Stmt::Expr(e) => self.expr(e),
            Stmt::Block(b) => self.block(b, ScopeKind::Block),
            Stmt::Break | Stmt::Continue | Stmt::Ret(None) | Stmt::Unreachable | Stmt::Raw(_) => {}
        }
    }

    fn expr(&mut self, e: &Expr) {
        match e {
            Expr::Var(b) => self.use_of(*b),
            Expr::Int(_) | Expr::Float(..) | Expr::Str(_) | Expr::Bool(_) | Expr::SelfRef(_) => {}
            Expr::Bin(_, a, b) | Expr::AssertEq(a, b) => {
                self.expr(a);
                self.expr(b);
            }
            Expr::Un(_, a) | Expr::Field(a, _) | Expr::TupleIndex(a, _) => self.expr(a),
            Expr::Call { callee, args, .. } => {
                self.expr(callee);
                for a in args {
                    self.expr(a);
                }
            }
            Expr::StdCall { args, .. } => {
                for a in args {
                    self.expr(a);
                }
            }
            Expr::If { branches, els } => {
                for (c, b) in branches {
                    self.expr(c);
                    self.block(b, ScopeKind::IfArm);
                }
                if let Some(b) = els {
                    self.block(b, ScopeKind::IfArm);
                }
            }
            Expr::Case { scrut, arms, els, .. } => {
                self.expr(scrut);
                for a in arms {
                    let mark = self.stack.len();
                    if let Some(b) = a.bind {
                        self.declare(b, ScopeKind::CaseArm);
                    }
                    self.block(&a.body, ScopeKind::CaseArm);
                    self.stack.truncate(mark);
                }
                if let Some(b) = els {
                    self.block(b, ScopeKind::CaseArm);
                }
            }
            Expr::Tuple(xs) | Expr::List(xs, _) => {
                for x in xs {
                    self.expr(x);
                }
            }
            Expr::BlobNew { fields, .. } => {
                for (_, x) in fields {
                    self.expr(x);
                }
            }
            Expr::Variant { payload, .. } => {
                if let Some(p) = payload {
                    self.expr(p);
                }
            }
            Expr::Lambda(fd) => {
                let mark = self.stack.len();
                // parameters of one function must have distinct names
                for (i, a) in fd.params.iter().enumerate() {
                    for b in &fd.params[i + 1..] {
                        self.a.conflicts.insert(pair(*a, *b));
                    }
                }
                for b in &fd.params {
                    self.declare(*b, ScopeKind::FnBody);
                }
                self.block(&fd.body, ScopeKind::FnBody);
                self.stack.truncate(mark);
            }
        }
    }
}

pub fn analyse(p: &Program) -> Analysis {
    let mut w = W { p, stack: Vec::new(), a: Analysis { conflicts: BTreeSet::new(), uses: 0, decl_scope: vec![None; p.binders.len()], visible_pairs: 0 } };
    // globals: all mutually distinct
    let globals: Vec<BId> = p.items.iter().filter_map(|it| if let Item::Global { b, .. } = it { Some(*b) } else { None }).collect();
    for (i, a) in globals.iter().enumerate() {
        for b in &globals[i + 1..] {
            w.a.conflicts.insert(pair(*a, *b));
        }
    }
    for it in &p.items {
        if let Item::Global { init, .. } = it {
            w.expr(init);
        }
    }
    w.a
}

/// Names with maximal legal shadowing: greedy colouring of the conflict graph over a tiny pool.
pub fn shadowing_names(p: &Program, a: &Analysis, pool: &[&str], salt: u64) -> (Vec<String>, u64) {
    let n = p.binders.len();
    let mut names: Vec<Option<String>> = vec![None; n];
    names[p.start] = Some("start".to_string());
    let mut adj: Vec<Vec<BId>> = vec![Vec::new(); n];
    for (x, y) in &a.conflicts {
        if *x < n && *y < n {
            adj[*x].push(*y);
            adj[*y].push(*x);
        }
    }
    let mut reused = 0u64;
    let mut used_names: BTreeSet<String> = BTreeSet::new();
    for b in 0..n {
        if names[b].is_some() {
            continue;
        }
        let taken: BTreeSet<&String> = adj[b].iter().filter_map(|o| names[*o].as_ref()).collect();
        let mut choice = None;
        let rot = (crate::rng::hash64(&[(b as u64).to_le_bytes(), salt.to_le_bytes()].concat()) % pool.len() as u64) as usize;
        for k in 0..pool.len() {
            let cand = pool[(k + if salt == 0 { 0 } else { rot }) % pool.len()].to_string();
            if cand != "start" && !taken.contains(&cand) {
                choice = Some(cand);
                break;
            }
        }
        let name = choice.unwrap_or_else(|| format!("v{}", b));
        if !used_names.insert(name.clone()) {
            reused += 1;
        }
        names[b] = Some(name);
    }
    (names.into_iter().map(|n| n.unwrap()).collect(), reused)
}
