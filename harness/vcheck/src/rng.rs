//! Small deterministic PRNG (splitmix64 seeding + xoshiro256**). No external crates.

#[derive(Clone, Debug)]
pub struct Rng {
    s: [u64; 4],
}

fn splitmix(x: &mut u64) -> u64 {
    *x = x.wrapping_add(0x9E3779B97F4A7C15);
    let mut z = *x;
    z = (z ^ (z >> 30)).wrapping_mul(0xBF58476D1CE4E5B9);
    z = (z ^ (z >> 27)).wrapping_mul(0x94D049BB133111EB);
    z ^ (z >> 31)
}

pub fn hash64(bytes: &[u8]) -> u64 {
    // FNV-1a 64 followed by a splitmix finaliser
    let mut h: u64 = 0xcbf29ce484222325;
    for b in bytes {
        h ^= *b as u64;
        h = h.wrapping_mul(0x100000001b3);
    }
    let mut x = h;
    splitmix(&mut x)
}

impl Rng {
    pub fn new(seed: u64) -> Self {
        let mut x = seed;
        let s = [splitmix(&mut x), splitmix(&mut x), splitmix(&mut x), splitmix(&mut x)];
        Rng { s }
    }
    /// Independent stream for (seed, property, case index).
    pub fn for_case(seed: u64, prop: &str, index: u64) -> Self {
        let h = hash64(prop.as_bytes());
        Rng::new(seed.wrapping_mul(0x9E3779B97F4A7C15) ^ h.rotate_left(17) ^ index.wrapping_mul(0xD1342543DE82EF95))
    }
    pub fn next(&mut self) -> u64 {
        let result = self.s[1].wrapping_mul(5).rotate_left(7).wrapping_mul(9);
        let t = self.s[1] << 17;
        self.s[2] ^= self.s[0];
        self.s[3] ^= self.s[1];
        self.s[1] ^= self.s[2];
        self.s[0] ^= self.s[3];
        self.s[2] ^= t;
        self.s[3] = self.s[3].rotate_left(45);
        result
    }
    /// uniform in 0..n (n > 0)
    pub fn below(&mut self, n: usize) -> usize {
        if n <= 1 {
            return 0;
        }
        (self.next() % (n as u64)) as usize
    }
    pub fn range(&mut self, lo: i64, hi: i64) -> i64 {
        // inclusive
        lo + (self.next() % ((hi - lo + 1) as u64)) as i64
    }
    pub fn chance(&mut self, num: u32, den: u32) -> bool {
        (self.next() % den as u64) < num as u64
    }
    pub fn pick<'a, T>(&mut self, xs: &'a [T]) -> &'a T {
        &xs[self.below(xs.len())]
    }
    pub fn shuffle<T>(&mut self, xs: &mut [T]) {
        for i in (1..xs.len()).rev() {
            let j = self.below(i + 1);
            xs.swap(i, j);
        }
    }
    /// weighted choice: returns index
    pub fn weighted(&mut self, ws: &[u32]) -> usize {
        let total: u64 = ws.iter().map(|w| *w as u64).sum();
        if total == 0 {
            return 0;
        }
        let mut r = self.next() % total;
        for (i, w) in ws.iter().enumerate() {
            if r < *w as u64 {
                return i;
            }
            r -= *w as u64;
        }
        ws.len() - 1
    }
}
