//! C15 — diagnostics name the file and line of the offending construct.
//! A single local error is planted at a known (file, line) of a multi-file project
//! whose remaining text is valid but hostile to line bookkeeping (non-ASCII text,
//! multi-line string literals, CRLF, tabs, long lines, blank lines).
use crate::fw::*;
use crate::json::J;
use crate::rng::{hash64, Rng};
use crate::sy::{self, Compiled, CompileOpts, Files};

pub struct C15;

#[derive(Clone, Copy)]
struct Kind {
    name: &'static str,
    /// lines placed inside a function body; the LAST one is the offending line unless `either` is set
    body: &'static [&'static str],
    /// lines placed at top level (for duplicate definitions / conflict markers); offending = last
    top: &'static [&'static str],
    /// the error may be reported on any of the planted lines
    either: bool,
}

const KINDS: &[Kind] = &[
    Kind { name: "syntax: stray )", body: &["x := 1)"], top: &[], either: false },
    Kind { name: "syntax: stray ]", body: &["x := 1]"], top: &[], either: false },
    Kind { name: "syntax: extra operand", body: &["x := 1 2"], top: &[], either: false },
    Kind { name: "syntax: doubled operator", body: &["x := 1 + * 2"], top: &[], either: false },
    Kind { name: "syntax: operand missing at line end", body: &["x := 1 +"], top: &[], either: false },
    Kind { name: "syntax: := :=", body: &["x := := 1"], top: &[], either: false },
    Kind { name: "syntax: trailing .", body: &["y := 1", "x := y."], top: &[], either: false },
    Kind { name: "syntax: fn fn", body: &["q :: fn fn do end"], top: &[], either: false },
    Kind { name: "syntax: stray else", body: &["else"], top: &[], either: false },
    Kind { name: "unresolved name", body: &["x := undefined_name_q"], top: &[], either: false },
    Kind { name: "unresolved name in call", body: &["undefined_fn_q(1)"], top: &[], either: false },
    Kind { name: "duplicate global", body: &[], top: &["dup_q :: 1", "dup_q :: 2"], either: true },
    Kind { name: "assignment to constant", body: &["c :: 1", "c = 2"], top: &[], either: false },
    Kind { name: "type: int + str", body: &["x := 1 + \"s\""], top: &[], either: false },
    Kind { name: "type: annotation mismatch", body: &["x: int = \"s\""], top: &[], either: false },
    Kind { name: "type: arity", body: &["lit_q(1, 2)"], top: &[], either: false },
    Kind { name: "type: not int", body: &["x := not 1"], top: &[], either: false },
    Kind { name: "break outside loop", body: &["break"], top: &[], either: false },
    Kind { name: "git conflict marker", body: &[], top: &["<<<<<<< HEAD"], either: false },
    // constructs spanning several lines: the diagnostic names the line of the offending part (marked @@,
    // default: the last line), not the line where the construct starts
    Kind { name: "type: wrong argument on the last line of a multi-line call", body: &["t_q :: lit3_q(1,\n             2,\n             \"three\")"], top: &[], either: false },
    Kind { name: "type: wrong argument on the last line of a multi-line prime call", body: &["t_q :: lit3_q' 1,\n    2,\n    \"three\""], top: &[], either: false },
    Kind { name: "type: wrong argument on the middle line of a multi-line call", body: &["t_q :: lit3_q(1,\n    \"two\",@@\n    3)"], top: &[], either: false },
    Kind { name: "unresolved name on the middle line of a multi-line call", body: &["t_q :: lit3_q(1,\n    undefined_name_q,@@\n    3)"], top: &[], either: false },
    Kind { name: "type: wrong argument inside a nested multi-line call", body: &["t_q :: lit3_q(1,\n    lit3_q(1,\n        2,\n        \"s\"),@@\n    3)"], top: &[], either: false },
    // constructs that mention ANOTHER file's namespace (@NS@): the error belongs to the using file
    Kind { name: "unresolved name in another namespace", body: &["x := @NS@.undefined_q"], top: &[], either: false },
    Kind { name: "unresolved function in another namespace", body: &["@NS@.undefined_fn_q(1)"], top: &[], either: false },
    Kind { name: "namespace used as a value", body: &["x := @NS@"], top: &[], either: false },
    Kind { name: "unknown type in another namespace", body: &["x: @NS@.Nope_q = 1"], top: &[], either: false },
    Kind { name: "type: imported constant + str", body: &["x := @NS@.exp_q + \"s\""], top: &[], either: false },
    Kind { name: "type: arity of imported function", body: &["@NS@.lit2_q(1, 2)"], top: &[], either: false },
    Kind { name: "type: unknown field of imported blob", body: &["x := @NS@.HB_q { g: 1 }"], top: &[], either: false },
    Kind { name: "assignment to imported constant", body: &["@NS@.exp_q = 3"], top: &[], either: false },
    Kind { name: "type: field of imported int", body: &["x := @NS@.exp_q.nofield"], top: &[], either: false },
    Kind { name: "from-import of a missing name", body: &[], top: &["from @NS@ use (nope_q)"], either: false },
    Kind { name: "from-import colliding with a definition", body: &[], top: &["from @NS@ use (exp_q)", "exp_q :: 3"], either: true },
    // an import list spanning lines: the missing name's own line is expected
    Kind { name: "missing name on a later line of a multi-line from-import", body: &[], top: &["from @NS@ use (\n    exp_q,\n    nothere_q,@@\n    lit2_q,\n)"], either: false },
    // the marker characters quoted mid-line further up do not shift the line of the real marker
    Kind { name: "git conflict marker below the same characters quoted in a comment", body: &[], top: &["// resolved last week: <<<<<<< HEAD stood here", "<<<<<<< HEAD"], either: false },
    Kind { name: "git conflict marker below the same characters inside a string", body: &[], top: &["note_q :: \"<<<<<<< ours\"", "    // indented: <<<<<<< theirs", "<<<<<<< HEAD"], either: false },
    // the requirement is written elsewhere (in the body of an un-annotated function of another file, in a std
    // signature): the call that cannot meet it is where the program is wrong
    Kind { name: "type: literal arguments an un-annotated imported function cannot add", body: &["x := @NS@.inf2_q(1, \"two\")"], top: &[], either: false },
    Kind { name: "type: literal arguments an un-annotated imported function cannot compare", body: &["x := @NS@.infl_q(true, false)"], top: &[], either: false },
    Kind { name: "type: int given to an un-annotated imported function that reads a field", body: &["x := @NS@.inff_q(3)"], top: &[], either: false },
    Kind { name: "type: blob without the field an un-annotated imported function reads", body: &["x := @NS@.inff_q(@NS@.HB_q { f: 1 })", "y := @NS@.inff_q((1, 2))"], top: &[], either: false },
    Kind { name: "type: short tuple given to an un-annotated imported function that indexes it", body: &["x := @NS@.infi_q((1,))"], top: &[], either: false },
    Kind { name: "type: arguments on a later line that an un-annotated imported function cannot add", body: &["x := @NS@.inf2_q(1,\n    \"two\")"], top: &[], either: false },
    Kind { name: "type: std function whose signature constrains the element type", body: &["s_q := set.from_list([1])", "set.add(s_q, \"x\")"], top: &[], either: false },
    Kind { name: "type: std fold with a callback that cannot add its arguments", body: &["x := fold([1], \"s\", pu e, acc -> acc + e end)"], top: &[], either: false },
    // a value that does not fit a type DECLARED in another file: the construction / call site is where the program is wrong
    Kind { name: "type: payload of another type for a variant of an imported enum", body: &["x := @NS@.EN_q.Grey \"dark\""], top: &[], either: false },
    Kind { name: "type: tuple payload with a wrong element for a variant of an imported enum", body: &["x := @NS@.EN_q.Pair (1, 2)"], top: &[], either: false },
    Kind { name: "type: variant the imported enum does not have", body: &["x := @NS@.EN_q.Blue"], top: &[], either: false },
    Kind { name: "type: field of another type for an imported blob", body: &["x := @NS@.HB_q { f: \"s\" }"], top: &[], either: false },
    Kind { name: "type: argument of another type for an annotated imported function", body: &["x := @NS@.lit2_q(\"s\")"], top: &[], either: false },
    // the same name imported from two different modules: the duplicate belongs to the importing file
    Kind { name: "one name from-imported from two modules", body: &[], top: &["from @NS@ use (exp_q)", "from @NS2@ use (exp_q)"], either: true },
    Kind { name: "one alias for names from-imported from two modules", body: &[], top: &["from @NS@ use (exp_q as al_q)", "from @NS2@ use (lit2_q as al_q)"], either: true },
];

const NS_EXPORTS: &str = "exp_q :: 7\nlit2_q :: fn a: int -> int do\n    a\nend\nHB_q :: blob {\n    f: int,\n}\ninf2_q :: fn a, b ->\n    a + b\nend\ninfl_q :: fn a, b ->\n    a < b\nend\ninff_q :: fn p ->\n    p.f\nend\nEN_q :: enum\n    Grey int,\n    Red,\n    Pair (int, str),\nend\ninfi_q :: fn p ->\n    p[1]\nend\n";

#[derive(Clone, Copy, PartialEq, Debug)]
enum Shape {
    Plain,
    NonAscii,
    MultiLineStrings,
    Crlf,
    Tabs,
    LongLines,
    BlankLines,
    Mixed,
}
const SHAPES: &[Shape] = &[Shape::Plain, Shape::NonAscii, Shape::MultiLineStrings, Shape::Crlf, Shape::Tabs, Shape::LongLines, Shape::BlankLines, Shape::Mixed];

fn filler_top(rng: &mut Rng, shape: Shape, uid: &mut u32, out: &mut String) {
    let n = rng.below(5);
    for _ in 0..n {
        *uid += 1;
        let s = if shape == Shape::Mixed { SHAPES[1 + rng.below(SHAPES.len() - 2)] } else { shape };
        match (s, rng.below(5)) {
            (Shape::NonAscii, 0) => out.push_str("// kommentar: åäö € 😀 日本語 — naïve ☃\n"),
            (Shape::NonAscii, _) => out.push_str(&format!("t{} :: \"åäö€😀 {} ☃\" // ünï\n", uid, uid)),
            (Shape::MultiLineStrings, _) => out.push_str(&format!("m{} :: \"first line\nsecond line {}\n\n  fourth\"\n", uid, uid)),
            (Shape::LongLines, _) => out.push_str(&format!("w{} :: \"{}\"\n", uid, "long ".repeat(300 + rng.below(300)))),
            (Shape::BlankLines, _) => out.push_str(&"\n".repeat(1 + rng.below(30))),
            (_, 0) => out.push_str(&format!("k{} :: {} + {}\n", uid, uid, rng.below(100))),
            (_, 1) => out.push_str(&format!("// comment {}\n", uid)),
            (_, 2) => out.push_str(&format!("g{} :: fn a: int -> int do\n    b :: a * 2\n    b + {}\nend\n", uid, uid)),
            (_, 3) => out.push_str(&format!("v{} := ({}, \"t\")\n\n", uid, uid)),
            _ => out.push_str(&format!("B{} :: blob {{\n    f: int,\n}}\n", uid)),
        }
    }
}

fn filler_stmt(rng: &mut Rng, shape: Shape, uid: &mut u32, ind: &str, out: &mut String) {
    let n = rng.below(4);
    for _ in 0..n {
        *uid += 1;
        let s = if shape == Shape::Mixed { SHAPES[1 + rng.below(SHAPES.len() - 2)] } else { shape };
        match s {
            Shape::NonAscii => out.push_str(&format!("{}s{} := \"ö€😀\" + \"é\" // ☃\n", ind, uid)),
            Shape::MultiLineStrings => out.push_str(&format!("{}s{} := \"a\nb{}\n\"\n", ind, uid, uid)),
            Shape::LongLines => out.push_str(&format!("{}n{} := {}\n", ind, uid, (0..150).map(|k| k.to_string()).collect::<Vec<_>>().join(" + "))),
            Shape::BlankLines => out.push_str(&"\n".repeat(1 + rng.below(12))),
            _ => out.push_str(&format!("{}n{} := {} * 2\n", ind, uid, uid)),
        }
    }
}

struct Built {
    files: Files,
    planted_file: String,
    lines: Vec<usize>, // acceptable lines (1-based)
}

fn build(rng: &mut Rng, kind: &Kind, shape: Shape, where_: usize) -> Built {
    // where_: 0 = main file, 1 = first import, 2 = a later import
    let uses_ns = kind.body.iter().chain(kind.top.iter()).any(|l| l.contains("@NS@"));
    let uses_ns2 = kind.body.iter().chain(kind.top.iter()).any(|l| l.contains("@NS2@"));
    let nfiles = (1 + where_.max(rng.below(3))).max(if uses_ns2 { 3 } else if uses_ns { 2 } else { 1 });
    let names = ["main.sy", "first.sy", "later.sy"];
    // the other namespace: `first` for a plant in main, `main` otherwise
    let ns_file = if where_ == 0 { 1 } else { 0 };
    let ns_name = names[ns_file].trim_end_matches(".sy");
    // a second other namespace: the file that is neither the planted one nor the first other one
    let ns2_file = (0..3).find(|i| *i != where_ && *i != ns_file).unwrap_or(2);
    let ns2_name = names[ns2_file].trim_end_matches(".sy");
    let ind = if shape == Shape::Tabs || (shape == Shape::Mixed && rng.chance(1, 2)) { "\t" } else { "    " };
    let mut files = Files::new();
    let mut uid = 0u32;
    let mut lines = Vec::new();
    for fi in 0..nfiles {
        let mut t = String::new();
        if fi == 0 {
            for k in 1..nfiles {
                t.push_str(&format!("use {}\n", names[k].trim_end_matches(".sy")));
            }
        }
        filler_top(rng, shape, &mut uid, &mut t);
        if fi == 0 {
            t.push_str(&format!("lit_q :: fn a: int -> int do\n{}a\nend\n", ind));
            t.push_str(&format!("lit3_q :: fn a: int, b: int, c: int -> int do\n{}a\nend\n", ind));
        }
        if (uses_ns && fi == ns_file) || (uses_ns2 && fi == ns2_file) {
            t.push_str(NS_EXPORTS);
        }
        if fi == where_ {
            if !kind.top.is_empty() {
                for (k, l) in kind.top.iter().enumerate() {
                    if kind.either || k == kind.top.len() - 1 {
                        // an entry may span lines: the offending one carries @@ (default: its first line)
                        let within = l.lines().position(|x| x.contains("@@")).unwrap_or(0);
                        lines.push(t.matches('\n').count() + 1 + within);
                    }
                    t.push_str(&l.replace("@NS2@", ns2_name).replace("@NS@", ns_name).replace("@@", ""));
                    t.push('\n');
                    if k + 1 < kind.top.len() {
                        filler_top(rng, shape, &mut uid, &mut t);
                    }
                }
            }
            if !kind.body.is_empty() {
                t.push_str(&format!("planted_fn_{} :: fn do\n", fi));
                filler_stmt(rng, shape, &mut uid, ind, &mut t);
                for (k, l) in kind.body.iter().enumerate() {
                    if k == kind.body.len() - 1 {
                        // an entry may span lines: the offending one carries @@ (default: its last line)
                        let within = match l.lines().position(|x| x.contains("@@")) {
                            Some(i) => i,
                            None => l.lines().count().saturating_sub(1),
                        };
                        lines.push(t.matches('\n').count() + 1 + within);
                    }
                    // `lit_q` / `lit3_q` live in main
                    let l = if fi != 0 { l.replace("lit_q(", "main.lit_q(").replace("lit3_q(", "main.lit3_q(").replace("lit3_q'", "main.lit3_q'") } else { l.to_string() };
                    let l = l.replace("@NS2@", ns2_name).replace("@NS@", ns_name).replace("@@", "");
                    let l = l.lines().collect::<Vec<_>>().join(&format!("\n{}", ind));
                    t.push_str(&format!("{}{}\n", ind, l));
                    if k + 1 < kind.body.len() {
                        filler_stmt(rng, shape, &mut uid, ind, &mut t);
                    }
                }
                filler_stmt(rng, shape, &mut uid, ind, &mut t);
                t.push_str("end\n");
            }
        }
        filler_top(rng, shape, &mut uid, &mut t);
        if fi == 0 {
            t.push_str(&format!("start :: fn do\n{}z := 1\nend\n", ind));
        } else if (uses_ns || kind.body.iter().any(|l| l.contains("lit_q") || l.contains("lit3_q"))) && fi == where_ {
            t = format!("use main\n{}", t);
            for l in lines.iter_mut() {
                *l += 1;
            }
        }
        filler_top(rng, shape, &mut uid, &mut t);
        if shape == Shape::Crlf || (shape == Shape::Mixed && rng.chance(1, 3)) {
            t = t.replace('\n', "\r\n");
        }
        files.insert(names[fi].to_string(), t);
    }
    Built { files, planted_file: names[where_].to_string(), lines }
}

impl Check for C15 {
    fn id(&self) -> &'static str {
        "C15"
    }
    fn plan(&self, ctx: &Ctx) -> u64 {
        scaled(ctx, 12_000, 300_000)
    }
    fn run_case(&self, ctx: &Ctx, index: u64, st: &mut Stats) {
        let mut rng = Rng::for_case(ctx.seed, "C15", index);
        let kind = &KINDS[(index as usize) % KINDS.len()];
        let shape = SHAPES[((index as usize) / KINDS.len()) % SHAPES.len()];
        let where_ = ((index as usize) / (KINDS.len() * SHAPES.len())) % 3;
        let b = build(&mut rng, kind, shape, where_);
        // every third project is written to disk and read back through the driver's own reader
        // (sylt::read_file): what the reader does to the text is part of where a line is
        let via_disk = index % 3 == 1;
        let opts = CompileOpts { fuel: Some(crate::rel::CAMPAIGN_FUEL), ..Default::default() };
        let r = if via_disk { sy::compile_on_disk(&b.files, "main.sy", &opts, &format!("c15-{}", index)) } else { sy::compile_files(&b.files, "main.sy", &opts) };
        st.count(if via_disk { "read:from_disk_through_the_drivers_reader" } else { "read:in_memory" });
        let cell = format!("{} | {} | {:?}", kind.name, ["main file", "first import", "later import"][where_], shape);
        st.count("planted_errors");
        st.count(&format!("kind:{}", kind.name));
        st.count(&format!("shape:{:?}", shape));
        st.count(&format!("file:{}", ["main file", "first import", "later import"][where_]));
        let detail = |obs: J| {
            J::obj()
                .with("kind", J::s(kind.name))
                .with("shape", J::s(format!("{:?}", shape)))
                .with("read_from_disk", J::Bool(via_disk))
                .with("planted_file", J::s(b.planted_file.clone()))
                .with("planted_lines", J::Arr(b.lines.iter().map(|l| J::Int(*l as i64)).collect()))
                .with("files", J::Obj(b.files.iter().map(|(k, v)| (k.clone(), J::s(v.clone()))).collect()))
                .with("observed", obs)
        };
        match r {
            Compiled::Fuel => st.count("discarded_compile_budget"),
            Compiled::Ok(_) => st.violation(Violation { signature: format!("diag:accepted:{}", kind.name), hazard: None, case: index, detail: detail(J::Null) }),
            Compiled::Panic { location, msg, .. } => st.violation(Violation { signature: format!("diag:panic@{}", location), hazard: None, case: index, detail: detail(J::s(msg)) }),
            Compiled::Err { errors, .. } => {
                let Some(e) = errors.first() else {
                    st.violation(Violation { signature: "diag:empty-error-list".into(), hazard: None, case: index, detail: detail(J::Null) });
                    return;
                };
                let file_ok = e.file.as_deref() == Some(b.planted_file.as_str());
                let line_ok = b.lines.contains(&e.line);
                if file_ok && line_ok {
                    st.count("located_exactly");
                    st.nontrivial(hash64(cell.as_bytes()) ^ hash64(&index.to_le_bytes()));
                    if index < 3 {
                        st.sample(|| detail(J::s(e.display.lines().take(3).collect::<Vec<_>>().join(" / "))));
                    }
                } else {
                    let sig = if !file_ok { format!("diag:wrong-file:{}", kind.name) } else { format!("diag:wrong-line:{}", kind.name) };
                    st.violation(Violation {
                        signature: sig,
                        hazard: None,
                        case: index,
                        detail: detail(J::obj().with("reported_file", J::s(e.file.clone().unwrap_or_default())).with("reported_line", J::Int(e.line as i64)).with("error", J::s(e.display.clone())).with("all_errors", J::Int(errors.len() as i64))),
                    });
                }
            }
        }
    }
    fn finish(&self, _ctx: &Ctx, st: &Stats) -> Finish {
        let mut inconclusive = Vec::new();
        for k in KINDS {
            if st.get(&format!("kind:{}", k.name)) == 0 {
                inconclusive.push(format!("kind never planted: {}", k.name));
            }
        }
        for s in SHAPES {
            if st.get(&format!("shape:{:?}", s)) == 0 {
                inconclusive.push(format!("shape never used: {:?}", s));
            }
        }
        Finish {
            level: "exploration",
            rule: format!(
                "one local error of {} kinds (syntax x9, unresolved name x2, duplicate global, assignment to constant, literal type mismatches x4, break outside loop, conflict marker (also below the same characters quoted mid-line), 5 multi-line calls whose offending argument is on a continuation line, 13 constructs that mention another file's namespace: unresolved/mistyped qualified accesses, namespace as value, from-imports) is planted at a known line of the main file, the first or a later imported file; the rest of the project is valid text of one of {} shapes (plain ASCII, non-ASCII comments/strings, string literals spanning lines, CRLF, tabs, 1500-3000 character lines, runs of blank lines, mixed). A third of the projects is written to a scratch directory and read back through the driver's own reader (sylt::read_file), the rest through an in-memory reader. Oracle: file and span.line_start of the first returned error equal the planted file and line (either definition line for duplicates). Non-trivial & distinct: (kind, file position, shape, instance).",
                KINDS.len(),
                SHAPES.len()
            ),
            extra: J::obj(),
            assumptions: vec!["unclosed brackets are not used as planted errors: newlines are insignificant inside brackets, so the parser can only notice later".into()],
            exhaustive: false,
            inconclusive,
        }
    }
}
