//! Surface printer: renders one abstract program in many surface forms
//! (names, annotations, call/return/loop sugar, layout, top-level order, files).
use crate::ast::*;
use crate::rng::hash64;

#[derive(Clone, Copy, Debug, PartialEq, Eq, Hash)]
pub enum AnnotSite {
    Def(BId),
    Param(BId),
    Ret(u32),
}

pub struct PrintOpts<'a> {
    /// name of a binder at its definition and (for non-globals) at its uses
    pub name: &'a dyn Fn(BId) -> String,
    /// how a *global* is referred to from the code being printed (default: its name)
    pub global_ref: &'a dyn Fn(BId) -> String,
    /// how a blob / enum type is referred to (default: its name)
    pub blob_ref: &'a dyn Fn(usize) -> String,
    pub enum_ref: &'a dyn Fn(usize) -> String,
    /// write the type annotation at this site?
    pub annot: &'a dyn Fn(AnnotSite) -> bool,
    /// Some(seed): vary call / return / loop sugar per site; None: canonical
    pub sugar: Option<u64>,
    /// Some(seed): vary layout (indent, blank lines, comments, breaks in brackets, redundant parens)
    pub layout: Option<u64>,
}

pub fn default_name(p: &Program) -> impl Fn(BId) -> String + '_ {
    move |b| {
        if b == p.start {
            "start".to_string()
        } else {
            format!("{}{}", p.binders[b].hint, b)
        }
    }
}

pub struct Printer<'a> {
    pub p: &'a Program,
    pub o: &'a PrintOpts<'a>,
    indent_unit: String,
}

#[derive(Clone, Copy, PartialEq)]
enum CallForm {
    Paren,
    Prime,
    Arrow,
    ArrowPrime,
}

impl<'a> Printer<'a> {
    pub fn new(p: &'a Program, o: &'a PrintOpts<'a>) -> Self {
        let indent_unit = match o.layout {
            None => "    ".to_string(),
            Some(s) => ["    ", "  ", "\t", " ", "        "][(hash64(&s.to_le_bytes()) % 5) as usize].to_string(),
        };
        Printer { p, o, indent_unit }
    }

    fn ind(&self, n: usize) -> String {
        self.indent_unit.repeat(n)
    }

    fn lay(&self, key: u64, modulo: u64) -> u64 {
        match self.o.layout {
            None => 0,
            Some(s) => hash64(&[s.to_le_bytes(), key.to_le_bytes()].concat()) % modulo,
        }
    }
    fn sug(&self, key: u64, modulo: u64) -> u64 {
        match self.o.sugar {
            None => 0,
            Some(s) => hash64(&[s.to_le_bytes(), key.to_le_bytes(), [7u8; 8]].concat()) % modulo,
        }
    }

    pub fn ty(&self, t: &Ty) -> String {
        match t {
            Ty::Int => "int".into(),
            Ty::Float => "float".into(),
            Ty::Str => "str".into(),
            Ty::Bool => "bool".into(),
            Ty::Void => "void".into(),
            Ty::Tuple(ts) => {
                if ts.len() == 1 {
                    format!("({},)", self.ty(&ts[0]))
                } else {
                    format!("({})", ts.iter().map(|t| self.ty(t)).collect::<Vec<_>>().join(", "))
                }
            }
            Ty::List(t) => format!("[{}]", self.ty(t)),
            Ty::Blob(b) => (self.o.blob_ref)(*b),
            Ty::Enum(e) => (self.o.enum_ref)(*e),
            Ty::Maybe(t) => format!("Maybe({})", self.ty(t)),
            Ty::Fn(ps, r) => {
                let ps: Vec<String> = ps
                    .iter()
                    .map(|t| if t.is_fn() { format!("({})", self.ty(t)) } else { self.ty(t) })
                    .collect();
                let r = if r.is_fn() { format!("({})", self.ty(r)) } else { self.ty(r) };
                if ps.is_empty() {
                    format!("fn -> {}", r)
                } else {
                    format!("fn {} -> {}", ps.join(", "), r)
                }
            }
        }
    }

    fn var(&self, b: BId) -> String {
        if self.p.binders[b].kind == BKind::Global {
            (self.o.global_ref)(b)
        } else {
            (self.o.name)(b)
        }
    }

    /// `block()` in the parser swallows a leading `do`; a body that starts with a `do … end`
    /// statement therefore needs the explicit opener.
    fn starts_with_block(b: &Block) -> bool {
        matches!(b.stmts.first(), Some(Stmt::Block(_)))
    }

    fn is_atomic(e: &Expr) -> bool {
        matches!(
            e,
            Expr::Int(_)
                | Expr::Float(..)
                | Expr::Str(_)
                | Expr::Bool(_)
                | Expr::Var(_)
                | Expr::SelfRef(_)
                | Expr::Tuple(_)
                | Expr::List(..)
                | Expr::Field(..)
                | Expr::TupleIndex(..)
        )
    }

    /// expression used as an operand: parenthesised unless atomic (canonical form does not rely on precedence)
    fn operand(&self, e: &Expr, lvl: usize) -> String {
        let s = self.expr(e, lvl);
        let simple_call = matches!(e, Expr::Call { .. } | Expr::StdCall { .. }) && s.ends_with(')') && !s.starts_with('(');
        if Self::is_atomic(e) || simple_call {
            s
        } else if s.starts_with('(') && s.ends_with(')') && matches!(e, Expr::Call { .. } | Expr::StdCall { .. } | Expr::If { .. } | Expr::Case { .. }) {
            s // already wrapped
        } else {
            format!("({})", self.brk(&s, lvl))
        }
    }

    /// binding strength of the binary operators (loosest first), as the documentation lists them
    fn bin_level(op: BinOp) -> u8 {
        match op {
            BinOp::Or => 1,
            BinOp::And => 2,
            BinOp::Eq | BinOp::Ne | BinOp::Lt | BinOp::Le | BinOp::Gt | BinOp::Ge => 3,
            BinOp::Add | BinOp::Sub => 4,
            BinOp::Mul | BinOp::Div => 5,
        }
    }

    /// Operand of a binary operator. The canonical form parenthesises every nested operator; with the
    /// layout variation on, parentheses that precedence and left-associativity make redundant are
    /// dropped for about half of the eligible operands (`(a * b) + c` -> `a * b + c`,
    /// `(a - b) - c` -> `a - b - c`), so that "redundant parentheses change nothing" is exercised.
    fn bin_operand(&self, parent: BinOp, e: &Expr, left: bool, lvl: usize) -> String {
        if let Expr::Bin(child, ..) = e {
            let (pl, cl) = (Self::bin_level(parent), Self::bin_level(*child));
            let redundant = cl > pl || (cl == pl && left && cl != 3);
            if redundant && self.lay(hash64(format!("{:?}{:?}{}", parent, child, left).as_bytes()) ^ 0x77aa ^ lvl as u64, 2) == 1 {
                let inner = self.expr(e, lvl);
                // the child may itself have been wrapped by the redundant-parentheses variation: fine either way
                return inner;
            }
        }
        self.operand(e, lvl)
    }

    fn maybe_redundant_parens(&self, s: String, key: u64) -> String {
        if self.lay(key ^ 0x5151, 6) == 1 {
            format!("({})", self.brk(&s, 0))
        } else {
            s
        }
    }

    /// A binary operator marks the places next to it where a line break is allowed once the expression
    /// stands inside brackets (`\u{1}`: before the operator, `\u{2}`: after it). Whoever wraps the text in
    /// brackets turns the marks into line breaks (`brk`); text that ends up outside brackets gets spaces (`flat`).
    fn brk(&self, s: &str, lvl: usize) -> String {
        if !s.contains(|c| c == '\u{1}' || c == '\u{2}') {
            return s.to_string();
        }
        let nl = format!("\n{}", self.ind(lvl + 2));
        s.replace('\u{1}', &nl).replace('\u{2}', &nl)
    }

    fn flat(s: String) -> String {
        if s.contains(|c| c == '\u{1}' || c == '\u{2}') {
            s.replace('\u{1}', " ").replace('\u{2}', " ")
        } else {
            s
        }
    }

    fn args(&self, args: &[Expr], lvl: usize, key: u64) -> String {
        let parts: Vec<String> = args.iter().map(|a| self.brk(&self.expr(a, lvl + 1), lvl)).collect();
        if !parts.is_empty() && self.lay(key ^ 0xa7a7, 5) == 1 {
            // line breaks inside brackets
            let i = self.ind(lvl + 1);
            format!("\n{}{}\n{}", i, parts.join(&format!(",\n{}", i)), self.ind(lvl))
        } else {
            parts.join(", ")
        }
    }

    fn call_form(&self, callee_is_name: bool, args: &[Expr], site: u32) -> CallForm {
        let mut form = match self.sug(site as u64, 4) {
            0 => CallForm::Paren,
            1 => CallForm::Prime,
            2 => CallForm::Arrow,
            _ => CallForm::ArrowPrime,
        };
        if self.o.sugar.is_none() {
            form = CallForm::Paren;
        }
        if !callee_is_name || args.is_empty() {
            if matches!(form, CallForm::Arrow | CallForm::ArrowPrime) {
                form = CallForm::Paren;
            }
        }
        // nested function literals / multi-line arguments: keep to the plain form
        let multiline = args.iter().any(|a| matches!(a, Expr::Lambda(_) | Expr::If { .. } | Expr::Case { .. }));
        if multiline {
            form = CallForm::Paren;
        }
        form
    }

    fn call(&self, callee_text: String, callee_is_name: bool, args: &[Expr], site: u32, lvl: usize, stmt_pos: bool) -> String {
        let form = self.call_form(callee_is_name, args, site);
        let key = site as u64;
        match form {
            CallForm::Paren => format!("{}({})", callee_text, self.args(args, lvl, key)),
            CallForm::Prime => {
                let a: Vec<String> = args.iter().map(|a| self.expr(a, lvl + 1)).collect();
                // the argument list of a prime call may continue on the next line after a comma
                let sep = match self.lay(key ^ 0xbeef, 6) {
                    1 => format!(",\n{}", self.ind(lvl + 2)),
                    2 => format!(", // continued\n{}", self.ind(lvl + 2)),
                    _ => ", ".to_string(),
                };
                let s = if a.is_empty() { format!("{}'", callee_text) } else { format!("{}' {}", callee_text, a.join(&sep)) };
                if stmt_pos {
                    s
                } else {
                    // inside the parentheses an argument may continue on the next line
                    format!("({})", self.brk(&s, lvl))
                }
            }
            CallForm::Arrow => {
                let first = self.operand(&args[0], lvl);
                let s = format!("{} -> {}({})", first, callee_text, self.args(&args[1..], lvl, key));
                if stmt_pos {
                    s
                } else {
                    format!("({})", self.brk(&s, lvl))
                }
            }
            CallForm::ArrowPrime => {
                let first = self.operand(&args[0], lvl);
                let a: Vec<String> = args[1..].iter().map(|a| self.expr(a, lvl + 1)).collect();
                let s = if a.is_empty() { format!("{} -> {}'", first, callee_text) } else { format!("{} -> {}' {}", first, callee_text, a.join(", ")) };
                if stmt_pos {
                    s
                } else {
                    format!("({})", self.brk(&s, lvl))
                }
            }
        }
    }

    pub fn expr(&self, e: &Expr, lvl: usize) -> String {
        self.expr_pos(e, lvl, false)
    }

    fn expr_pos(&self, e: &Expr, lvl: usize, stmt_pos: bool) -> String {
        match e {
            Expr::Int(i) => {
                if *i < 0 {
                    format!("(-{})", (*i as i128).abs())
                } else {
                    i.to_string()
                }
            }
            Expr::Float(_, text) => text.clone(),
            Expr::Str(s) => format!("\"{}\"", s),
            Expr::Bool(b) => b.to_string(),
            Expr::Var(b) => self.var(*b),
            Expr::SelfRef(_) => "self".into(),
            Expr::Bin(op, a, b) => {
                let (l, r) = (self.bin_operand(*op, a, true, lvl), self.bin_operand(*op, b, false, lvl));
                let s = match self.lay(hash64(format!("{:?}{}", op, l.len() + 3 * r.len()).as_bytes()) ^ 0x6b6b, 5) {
                    1 => format!("{}\u{1}{} {}", l, op.text(), r),
                    2 => format!("{} {}\u{2}{}", l, op.text(), r),
                    _ => format!("{} {} {}", l, op.text(), r),
                };
                self.maybe_redundant_parens(s, hash64(format!("{:?}", op).as_bytes()) ^ lvl as u64)
            }
            Expr::AssertEq(a, b) => format!("{} <=> {}", self.operand(a, lvl), self.operand(b, lvl)),
            Expr::Un(op, a) => {
                // `a -> f(b)` means `f(a, b)` also directly behind a unary operator: `-a -> f(b)` is `-f(a, b)`
                let inner = match &**a {
                    Expr::Call { callee, args, site } if matches!(&**callee, Expr::Var(_)) && self.call_form(true, args, *site) == CallForm::Arrow && Self::is_atomic(&args[0]) && !matches!(args[0], Expr::Int(i) if i < 0) => {
                        self.expr_pos(a, lvl, true)
                    }
                    _ => self.operand(a, lvl),
                };
                match op {
                    UnOp::Neg => format!("-{}", inner),
                    UnOp::Not => format!("not {}", inner),
                }
            }
            Expr::Call { callee, args, site } => {
                let (ct, is_name) = match &**callee {
                    Expr::Var(b) => (self.var(*b), true),
                    Expr::Field(..) => (self.expr(callee, lvl), false),
                    other => (format!("({})", self.expr(other, lvl)), false),
                };
                self.call(ct, is_name, args, *site, lvl, stmt_pos)
            }
            Expr::StdCall { f, args, site } => self.call(f.text().to_string(), true, args, *site, lvl, stmt_pos),
            Expr::If { branches, els } => {
                let mut s = String::new();
                for (i, (c, b)) in branches.iter().enumerate() {
                    s.push_str(if i == 0 { "if " } else { "elif " });
                    s.push_str(&Self::flat(self.expr(c, lvl)));
                    s.push_str(" do\n");
                    s.push_str(&self.block(b, lvl + 1, false));
                    s.push_str(&self.ind(lvl));
                }
                if let Some(b) = els {
                    s.push_str("else do\n");
                    s.push_str(&self.block(b, lvl + 1, false));
                    s.push_str(&self.ind(lvl));
                }
                s.push_str("end");
                if stmt_pos {
                    s
                } else {
                    format!("({})", s)
                }
            }
            Expr::Case { scrut, arms, els, .. } => {
                let mut s = format!("case {} do\n", Self::flat(self.expr(scrut, lvl)));
                for a in arms {
                    s.push_str(&self.ind(lvl + 1));
                    s.push_str(&a.variant);
                    if let Some(b) = a.bind {
                        s.push(' ');
                        s.push_str(&(self.o.name)(b));
                    }
                    s.push_str(if Self::starts_with_block(&a.body) { " -> do\n" } else { " ->\n" });
                    s.push_str(&self.block(&a.body, lvl + 2, false));
                    s.push_str(&self.ind(lvl + 1));
                    s.push_str("end\n");
                }
                if let Some(b) = els {
                    s.push_str(&self.ind(lvl + 1));
                    s.push_str(if Self::starts_with_block(b) { "else do\n" } else { "else\n" });
                    s.push_str(&self.block(b, lvl + 2, false));
                    s.push_str(&self.ind(lvl + 1));
                    s.push_str("end\n");
                }
                s.push_str(&self.ind(lvl));
                s.push_str("end");
                if stmt_pos {
                    s
                } else {
                    format!("({})", s)
                }
            }
            Expr::Tuple(xs) => {
                if xs.len() == 1 {
                    // the comma makes it a tuple wherever the closing parenthesis stands
                    let inner = self.brk(&self.expr(&xs[0], lvl), lvl);
                    match self.lay(hash64(inner.as_bytes()) ^ 0x1717, 4) {
                        1 => format!("({},\n{})", inner, self.ind(lvl)),
                        2 => format!("({}, // one element\n{})", inner, self.ind(lvl)),
                        _ => format!("({},)", inner),
                    }
                } else {
                    format!("({})", self.args(xs, lvl, xs.len() as u64 ^ 0x77))
                }
            }
            Expr::List(xs, _) => format!("[{}]", self.args(xs, lvl, xs.len() as u64 ^ 0x99)),
            Expr::BlobNew { blob, fields } => {
                let name = (self.o.blob_ref)(*blob);
                if fields.is_empty() {
                    return format!("{} {{}}", name);
                }
                let i = self.ind(lvl + 1);
                let parts: Vec<String> = fields.iter().map(|(f, x)| format!("{}{}: {},\n", i, f, self.expr(x, lvl + 1))).collect();
                format!("{} {{\n{}{}}}", name, parts.concat(), self.ind(lvl))
            }
            Expr::Variant { en, variant, payload } => {
                let en_name = match en {
                    EnumRef::User(e) => (self.o.enum_ref)(*e),
                    EnumRef::Maybe(_) => "Maybe".to_string(),
                };
                match payload {
                    Some(p) => format!("({}.{} {})", en_name, variant, self.operand(p, lvl)),
                    None => format!("{}.{}", en_name, variant),
                }
            }
            Expr::Field(a, f) => {
                let base = match &**a {
                    Expr::Var(_) | Expr::SelfRef(_) | Expr::Field(..) => self.expr(a, lvl),
                    other => format!("({})", self.expr(other, lvl)),
                };
                format!("{}.{}", base, f)
            }
            Expr::TupleIndex(a, i) => {
                let base = match &**a {
                    Expr::Var(_) | Expr::SelfRef(_) | Expr::Field(..) | Expr::TupleIndex(..) => self.expr(a, lvl),
                    other => format!("({})", self.expr(other, lvl)),
                };
                format!("{}[{}]", base, i)
            }
            Expr::Lambda(fd) => self.lambda(fd, lvl),
        }
    }

    pub fn lambda(&self, fd: &FnDef, lvl: usize) -> String {
        let mut s = String::from(if fd.pure { "pu" } else { "fn" });
        let ps: Vec<String> = fd
            .params
            .iter()
            .map(|b| {
                let n = (self.o.name)(*b);
                if (self.o.annot)(AnnotSite::Param(*b)) {
                    format!("{}: {}", n, self.ty(&self.p.binders[*b].ty))
                } else {
                    n
                }
            })
            .collect();
        if !ps.is_empty() {
            s.push(' ');
            s.push_str(&ps.join(", "));
        }
        let annot_ret = (self.o.annot)(AnnotSite::Ret(fd.id));
        if fd.ret == Ty::Void {
            if annot_ret {
                s.push_str(" -> void do\n");
            } else {
                s.push_str(" do\n");
            }
        } else if annot_ret {
            s.push_str(&format!(" -> {} do\n", self.ty(&fd.ret)));
        } else if Self::starts_with_block(&fd.body) {
            s.push_str(" -> do\n");
        } else {
            s.push_str(" ->\n");
        }
        s.push_str(&self.block(&fd.body, lvl + 1, true));
        s.push_str(&self.ind(lvl));
        s.push_str("end");
        s
    }

    /// statements of a block, each on its own line(s), ending in a newline
    pub fn block(&self, b: &Block, lvl: usize, is_fn_body: bool) -> String {
        let mut s = String::new();
        for (k, st) in b.stmts.iter().enumerate() {
            self.layout_noise(&mut s, lvl, k as u64 ^ (lvl as u64) << 8);
            s.push_str(&self.stmt(st, lvl));
        }
        if let Some(v) = &b.value {
            self.layout_noise(&mut s, lvl, 0xfefe ^ lvl as u64);
            let use_ret = is_fn_body && self.sug(hash64(self.expr(v, lvl).as_bytes()), 2) == 1;
            s.push_str(&self.ind(lvl));
            if use_ret {
                s.push_str("ret ");
            }
            s.push_str(&Self::flat(self.expr_pos(v, lvl, !use_ret)));
            s.push('\n');
        }
        s
    }

    fn layout_noise(&self, s: &mut String, lvl: usize, key: u64) {
        match self.lay(key ^ 0x1234, 9) {
            1 => s.push('\n'),
            2 => {
                s.push_str(&self.ind(lvl));
                s.push_str("// note: ünïcode comment ✓\n");
            }
            3 => {
                s.push_str("\n\n");
            }
            _ => {}
        }
    }

    pub fn def_line(&self, b: BId, init: &Expr, lvl: usize) -> String {
        let bd = &self.p.binders[b];
        let name = (self.o.name)(b);
        let ann = (self.o.annot)(AnnotSite::Def(b));
        let rhs = self.expr(init, lvl);
        let op = if ann {
            format!(": {} {}", self.ty(&bd.ty), if bd.mutable { "=" } else { ":" })
        } else if bd.mutable {
            ":=".to_string()
        } else {
            "::".to_string()
        };
        format!("{}{} {} {}\n", self.ind(lvl), name, op, rhs)
    }

    pub fn stmt(&self, st: &Stmt, lvl: usize) -> String {
        Self::flat(self.stmt_marked(st, lvl))
    }

    fn stmt_marked(&self, st: &Stmt, lvl: usize) -> String {
        let i = self.ind(lvl);
        match st {
            Stmt::Def { b, init } => self.def_line(*b, init, lvl),
            Stmt::Assign { target, op, value } => {
                let t = match target {
                    LValue::Var(b) => self.var(*b),
                    LValue::Field(e, f) => {
                        let base = match &**e {
                            Expr::Var(_) | Expr::SelfRef(_) | Expr::Field(..) => self.expr(e, lvl),
                            other => format!("({})", self.expr(other, lvl)),
                        };
                        format!("{}.{}", base, f)
                    }
                };
                format!("{}{} {} {}\n", i, t, op.text(), self.expr(value, lvl))
            }
            Stmt::Loop { id, cond, body } => {
                let head = match cond {
                    Some(c) => format!("loop {} do\n", self.expr(c, lvl)),
                    None => {
                        if self.sug(0x10000 + *id as u64, 2) == 1 {
                            "loop true do\n".to_string()
                        } else {
                            "loop do\n".to_string()
                        }
                    }
                };
                format!("{}{}{}{}end\n", i, head, self.block(body, lvl + 1, false), i)
            }
            Stmt::Break => format!("{}break\n", i),
            Stmt::Continue => format!("{}continue\n", i),
            Stmt::Ret(None) => format!("{}ret\n", i),
            Stmt::Ret(Some(e)) => format!("{}ret {}\n", i, self.expr(e, lvl)),
            Stmt::Block(b) => format!("{}do\n{}{}end\n", i, self.block(b, lvl + 1, false), i),
            Stmt::Expr(e) => format!("{}{}\n", i, self.expr_pos(e, lvl, true)),
            Stmt::Unreachable => format!("{}<!>\n", i),
            Stmt::Raw(lines) => lines.iter().map(|l| format!("{}{}\n", i, l)).collect(),
        }
    }

    pub fn blob_decl(&self, b: usize) -> String {
        let d = &self.p.blobs[b];
        let mut s = format!("{} :: blob {{\n", d.name);
        for (f, t) in &d.fields {
            s.push_str(&format!("{}{}: {},\n", self.ind(1), f, self.ty(t)));
        }
        s.push_str("}\n");
        s
    }

    pub fn enum_decl(&self, e: usize) -> String {
        let d = &self.p.enums[e];
        let mut s = format!("{} :: enum\n", d.name);
        for (v, t) in &d.variants {
            match t {
                Some(t) => s.push_str(&format!("{}{} {},\n", self.ind(1), v, self.ty(t))),
                None => s.push_str(&format!("{}{},\n", self.ind(1), v)),
            }
        }
        s.push_str("end\n");
        s
    }

    pub fn item(&self, it: &Item) -> String {
        match it {
            Item::Blob(b) => self.blob_decl(*b),
            Item::Enum(e) => self.enum_decl(*e),
            Item::Global { b, init } => Self::flat(self.def_line(*b, init, 0)),
            Item::Raw(t) => t.clone(),
        }
    }

    pub fn program(&self, order: Option<&[usize]>) -> String {
        let mut s = String::new();
        let idx: Vec<usize> = match order {
            Some(o) => o.to_vec(),
            None => (0..self.p.items.len()).collect(),
        };
        for (k, i) in idx.iter().enumerate() {
            self.layout_noise(&mut s, 0, 0x9000 + k as u64);
            s.push_str(&self.item(&self.p.items[*i]));
            s.push('\n');
        }
        s
    }
}

/// Canonical single-file text: distinct names, all annotations, no sugar, canonical layout.
pub fn canonical(p: &Program) -> String {
    let name = default_name(p);
    let gref = default_name(p);
    let bref = |b: usize| p.blobs[b].name.clone();
    let eref = |e: usize| p.enums[e].name.clone();
    let annot = |_s: AnnotSite| true;
    let o = PrintOpts { name: &name, global_ref: &gref, blob_ref: &bref, enum_ref: &eref, annot: &annot, sugar: None, layout: None };
    Printer::new(p, &o).program(None)
}
