//! C08 (annotations), C09 (lexical resolution / renaming), C14 (sugar and layout):
//! relational checks over surface renderings of generated programs.
use crate::ast::*;
use crate::fw::*;
use crate::gen::{self, Cfg, Profile};
use crate::json::J;
use crate::print::*;
use crate::rel::*;
use crate::rng::{hash64, Rng};
use crate::scope::{self, ScopeKind};
use crate::sy::{self, Compiled};

fn all_annot(_s: AnnotSite) -> bool {
    true
}

fn annot_sites(p: &Program) -> (u64, u64, u64) {
    // (defs, params, rets)
    let mut defs = 0;
    let mut params = 0;
    let mut rets = 0;
    for it in &p.items {
        if let Item::Global { .. } = it {
            defs += 1;
        }
    }
    walk_program(p, &mut |e| {
        if let Expr::Lambda(fd) = e {
            params += fd.params.len() as u64;
            rets += 1;
        }
    });
    fn count_defs_block(b: &Block, n: &mut u64) {
        for s in &b.stmts {
            match s {
                Stmt::Def { .. } => *n += 1,
                Stmt::Loop { body, .. } => count_defs_block(body, n),
                Stmt::Block(b) => count_defs_block(b, n),
                _ => {}
            }
        }
    }
    walk_program(p, &mut |e| match e {
        Expr::Lambda(fd) => count_defs_block(&fd.body, &mut defs),
        Expr::If { branches, els } => {
            for (_, b) in branches {
                count_defs_block(b, &mut defs);
            }
            if let Some(b) = els {
                count_defs_block(b, &mut defs);
            }
        }
        Expr::Case { arms, els, .. } => {
            for a in arms {
                count_defs_block(&a.body, &mut defs);
            }
            if let Some(b) = els {
                count_defs_block(b, &mut defs);
            }
        }
        _ => {}
    });
    (defs, params, rets)
}

/// parameters whose type is needed to type a call: the callee is (a field of) the parameter
/// or of a local whose value derives from it (over-approximated: mentioned in its definition/assignments)
fn called_params(p: &Program) -> std::collections::BTreeSet<BId> {
    use std::collections::{BTreeMap, BTreeSet};
    let is_param = |b: BId| matches!(p.binders[b].kind, BKind::Param | BKind::CaseBind);
    // deps[local] = variables mentioned in its initialiser / assigned values
    let mut deps: BTreeMap<BId, BTreeSet<BId>> = BTreeMap::new();
    fn vars_in(e: &Expr) -> BTreeSet<BId> {
        let mut v = BTreeSet::new();
        walk_expr(e, &mut |x| {
            if let Expr::Var(b) = x {
                v.insert(*b);
            }
        });
        v
    }
    fn collect(b: &Block, deps: &mut BTreeMap<BId, BTreeSet<BId>>) {
        for s in &b.stmts {
            match s {
                Stmt::Def { b, init } => {
                    deps.entry(*b).or_default().extend(vars_in(init));
                }
                Stmt::Assign { target: LValue::Var(b), value, .. } => {
                    deps.entry(*b).or_default().extend(vars_in(value));
                }
                Stmt::Loop { body, .. } => collect(body, deps),
                Stmt::Block(b) => collect(b, deps),
                _ => {}
            }
        }
    }
    walk_program(p, &mut |e| match e {
        Expr::Lambda(fd) => collect(&fd.body, &mut deps),
        Expr::If { branches, els } => {
            for (_, b) in branches {
                collect(b, &mut deps);
            }
            if let Some(b) = els {
                collect(b, &mut deps);
            }
        }
        Expr::Case { scrut, arms, els, .. } => {
            for a in arms {
                if let Some(b) = a.bind {
                    deps.entry(b).or_default().extend(vars_in(scrut));
                }
                collect(&a.body, &mut deps);
            }
            if let Some(b) = els {
                collect(b, &mut deps);
            }
        }
        _ => {}
    });
    let mut roots: BTreeSet<BId> = BTreeSet::new();
    walk_program(p, &mut |e| {
        if let Expr::Call { callee, .. } = e {
            let mut c: &Expr = callee;
            loop {
                match c {
                    Expr::Field(inner, _) | Expr::TupleIndex(inner, _) => c = inner,
                    Expr::Var(b) => {
                        roots.insert(*b);
                        break;
                    }
                    _ => break,
                }
            }
        }
    });
    // transitive closure
    let mut out = BTreeSet::new();
    let mut work: Vec<BId> = roots.into_iter().collect();
    let mut seen = BTreeSet::new();
    while let Some(b) = work.pop() {
        if !seen.insert(b) {
            continue;
        }
        // parameters and case bindings get their type from an annotation or from the call site; a LOCAL that feeds a
        // callee can be of unknown type too where it is called - when its initialiser is the result of a (recursive)
        // call of a function whose return type has not been inferred yet. Both keep their annotation in clean cases.
        if is_param(b) || matches!(p.binders[b].kind, BKind::Local) {
            out.insert(b);
        }
        if let Some(d) = deps.get(&b) {
            work.extend(d.iter().copied());
        }
    }
    out
}

/// Generic user types and generic functions (the generator's own types are monomorphic):
/// (fully annotated, partially annotated, erased) renderings of the same definitions.
const GENERIC_SNIPPETS: &[[&str; 3]] = &[
    [
        "Gbox :: blob(*T) {\n    v: *T,\n}\n\ngshow :: fn b: Gbox -> void do\n    print(b.v)\nend\n\ngb1: Gbox : Gbox { v: 1 }\n\ngb2: Gbox : Gbox { v: \"s\" }\n\nguse1 :: fn -> void do\n    gshow(gb1)\n    gshow(gb2)\nend\n",
        "Gbox :: blob(*T) {\n    v: *T,\n}\n\ngshow :: fn b: Gbox do\n    print(b.v)\nend\n\ngb1 :: Gbox { v: 1 }\n\ngb2: Gbox(str) : Gbox { v: \"s\" }\n\nguse1 :: fn do\n    gshow(gb1)\n    gshow(gb2)\nend\n",
        "Gbox :: blob(*T) {\n    v: *T,\n}\n\ngshow :: fn b do\n    print(b.v)\nend\n\ngb1 :: Gbox { v: 1 }\n\ngb2 :: Gbox { v: \"s\" }\n\nguse1 :: fn do\n    gshow(gb1)\n    gshow(gb2)\nend\n",
    ],
    [
        "Gopt :: enum(*T)\n    Som *T,\n    Non,\nend\n\ngo1: Gopt : Gopt.Som 1\n\ngo2: Gopt(str) : Gopt.Som \"s\"\n\ngo3: Gopt : Gopt.Non\n\ngget :: fn o: Gopt(int), d: int -> int do\n    case o do\n        Som x ->\n            x\n        end\n        Non ->\n            d\n        end\n    end\nend\n\nguse2 :: fn -> void do\n    print(gget(go1, 0))\n    print(go2)\n    print(go3)\nend\n",
        "Gopt :: enum(*T)\n    Som *T,\n    Non,\nend\n\ngo1 :: Gopt.Som 1\n\ngo2: Gopt : Gopt.Som \"s\"\n\ngo3 :: Gopt.Non\n\ngget :: fn o: Gopt, d -> int do\n    case o do\n        Som x ->\n            x\n        end\n        Non ->\n            d\n        end\n    end\nend\n\nguse2 :: fn do\n    print(gget(go1, 0))\n    print(go2)\n    print(go3)\nend\n",
        "Gopt :: enum(*T)\n    Som *T,\n    Non,\nend\n\ngo1 :: Gopt.Som 1\n\ngo2 :: Gopt.Som \"s\"\n\ngo3 :: Gopt.Non\n\ngget :: fn o, d ->\n    case o do\n        Som x ->\n            x\n        end\n        Non ->\n            d\n        end\n    end\nend\n\nguse2 :: fn do\n    print(gget(go1, 0))\n    print(go2)\n    print(go3)\nend\n",
    ],
    [
        "gid: fn *A -> *A : fn x: *A -> *A do\n    x\nend\n\ngpair :: fn a: *A, b: *B -> (*A, *B) do\n    (a, b)\nend\n\nguse3 :: fn -> void do\n    print(gid(1))\n    print(gid(\"s\"))\n    print(gpair(1, \"s\"))\n    print(gpair(\"t\", 2.5))\nend\n",
        "gid :: fn x: *A -> *A do\n    x\nend\n\ngpair :: fn a, b: *B -> (*A, *B) do\n    (a, b)\nend\n\nguse3 :: fn do\n    print(gid(1))\n    print(gid(\"s\"))\n    print(gpair(1, \"s\"))\n    print(gpair(\"t\", 2.5))\nend\n",
        "gid :: fn x ->\n    x\nend\n\ngpair :: fn a, b ->\n    (a, b)\nend\n\nguse3 :: fn do\n    print(gid(1))\n    print(gid(\"s\"))\n    print(gpair(1, \"s\"))\n    print(gpair(\"t\", 2.5))\nend\n",
    ],
    [
        "gm: Maybe(int) : Maybe.None\n\ngl: [Maybe(str)] : [(Maybe.Just \"a\"), Maybe.None]\n\ngf :: fn m: Maybe(int) -> int do\n    case m do\n        Just v ->\n            v\n        end\n        None ->\n            0\n        end\n    end\nend\n\nguse4 :: fn -> void do\n    print(gf(gm))\n    print(gl)\nend\n",
        "gm: Maybe : Maybe.None\n\ngl :: [(Maybe.Just \"a\"), Maybe.None]\n\ngf :: fn m: Maybe(int) ->\n    case m do\n        Just v ->\n            v\n        end\n        None ->\n            0\n        end\n    end\nend\n\nguse4 :: fn do\n    print(gf(gm))\n    print(gl)\nend\n",
        "gm :: Maybe.None\n\ngl :: [(Maybe.Just \"a\"), Maybe.None]\n\ngf :: fn m ->\n    case m do\n        Just v ->\n            v\n        end\n        None ->\n            0\n        end\n    end\nend\n\nguse4 :: fn do\n    print(gf(gm))\n    print(gl)\nend\n",
    ],
    // element-wise tuple operators with the operand annotations written / partly written / erased
    [
        "gvdiv :: fn v: (float, float), d: (float, float) -> (float, float) do\n    v / d\nend\n\ngvhalf :: fn v: (float, float), k: float -> (float, float) do\n    v / k\nend\n\ngvmix :: fn v: (float, float), d: (float, float) -> (float, float) do\n    (1.0, 2.0) / d + v * d - d\nend\n\ngvlt :: fn v: (float, str), d: (float, str) -> bool do\n    v < d\nend\n\ngvcat :: fn v: (int, str), d: (int, str) -> (int, str) do\n    v + d\nend\n\nguse5 :: fn -> void do\n    print(gvdiv((1.0, 2.0), (2.0, 4.0)))\n    print(gvhalf((1.0, 2.0), 2.0))\n    print(gvmix((1.0, 2.0), (2.0, 4.0)))\n    print(gvlt((1.0, \"a\"), (1.0, \"b\")))\n    print(gvcat((1, \"a\"), (2, \"b\")))\nend\n",
        "gvdiv :: fn v: (float, float), d -> (float, float) do\n    v / d\nend\n\ngvhalf :: fn v, k: float ->\n    v / k\nend\n\ngvmix :: fn v, d: (float, float) ->\n    (1.0, 2.0) / d + v * d - d\nend\n\ngvlt :: fn v: (float, str), d -> bool do\n    v < d\nend\n\ngvcat :: fn v, d: (int, str) ->\n    v + d\nend\n\nguse5 :: fn do\n    print(gvdiv((1.0, 2.0), (2.0, 4.0)))\n    print(gvhalf((1.0, 2.0), 2.0))\n    print(gvmix((1.0, 2.0), (2.0, 4.0)))\n    print(gvlt((1.0, \"a\"), (1.0, \"b\")))\n    print(gvcat((1, \"a\"), (2, \"b\")))\nend\n",
        "gvdiv :: fn v, d ->\n    v / d\nend\n\ngvhalf :: fn v, k ->\n    v / k\nend\n\ngvmix :: fn v, d ->\n    (1.0, 2.0) / d + v * d - d\nend\n\ngvlt :: fn v, d ->\n    v < d\nend\n\ngvcat :: fn v, d ->\n    v + d\nend\n\nguse5 :: fn do\n    print(gvdiv((1.0, 2.0), (2.0, 4.0)))\n    print(gvhalf((1.0, 2.0), 2.0))\n    print(gvmix((1.0, 2.0), (2.0, 4.0)))\n    print(gvlt((1.0, \"a\"), (1.0, \"b\")))\n    print(gvcat((1, \"a\"), (2, \"b\")))\nend\n",
    ],
    // comparisons between an int and a float (allowed for < and >) with the operand annotations written / partly written / erased
    [
        "gclt :: fn a: float, b: int -> bool do\n    a < b\nend\n\ngcgt :: fn a: int, b: float -> bool do\n    a > b\nend\n\ngcfilt :: fn xs: [int] -> [int] do\n    filter(xs, pu x: int -> bool do\n        x < 2.5\n    end)\nend\n\ngcmix :: fn a: int, b: float, s: str -> bool do\n    (a < b) and (s < \"m\")\nend\n\nguse6 :: fn -> void do\n    print(gclt(2.5, 1))\n    print(gcgt(1, 2.5))\n    print(gcfilt([1, 2, 3, 4]))\n    print(gcmix(1, 2.5, \"a\"))\nend\n",
        "gclt :: fn a: float, b -> bool do\n    a < b\nend\n\ngcgt :: fn a, b: float ->\n    a > b\nend\n\ngcfilt :: fn xs: [int] ->\n    filter(xs, pu x ->\n        x < 2.5\n    end)\nend\n\ngcmix :: fn a, b: float, s ->\n    (a < b) and (s < \"m\")\nend\n\nguse6 :: fn do\n    print(gclt(2.5, 1))\n    print(gcgt(1, 2.5))\n    print(gcfilt([1, 2, 3, 4]))\n    print(gcmix(1, 2.5, \"a\"))\nend\n",
        "gclt :: fn a, b ->\n    a < b\nend\n\ngcgt :: fn a, b ->\n    a > b\nend\n\ngcfilt :: fn xs ->\n    filter(xs, pu x ->\n        x < 2.5\n    end)\nend\n\ngcmix :: fn a, b, s ->\n    (a < b) and (s < \"m\")\nend\n\nguse6 :: fn do\n    print(gclt(2.5, 1))\n    print(gcgt(1, 2.5))\n    print(gcfilt([1, 2, 3, 4]))\n    print(gcmix(1, 2.5, \"a\"))\nend\n",
    ],
    // generic types with several type variables, declared in non-alphabetical order; explicit type arguments written / partly written / erased
    [
        "Gres :: enum(*T, *E)\n    Ok *T,\n    Err *E,\nend\n\nGpr :: blob(*V, *K) {\n    val: *V,\n    key: *K,\n}\n\ngr1: Gres(int, str) : Gres.Ok 1\n\ngr2: Gres(int, str) : Gres.Err \"bad\"\n\ngp1: Gpr(str, int) : Gpr { val: \"v\", key: 7 }\n\ngunwrap :: fn r: Gres(int, str), d: int -> int do\n    case r do\n        Ok x ->\n            x\n        end\n        Err e ->\n            d\n        end\n    end\nend\n\ngkey :: fn p: Gpr(str, int) -> int do\n    p.key + 1\nend\n\ngswap :: fn p: Gpr(str, int) -> Gpr(int, str) do\n    Gpr { val: p.key, key: p.val }\nend\n\nguse7 :: fn -> void do\n    print(gunwrap(gr1, 0))\n    print(gunwrap(gr2, 5))\n    print(gkey(gp1))\n    print(gp1.val + \"!\")\n    print(gswap(gp1).key + \"?\")\nend\n",
        "Gres :: enum(*T, *E)\n    Ok *T,\n    Err *E,\nend\n\nGpr :: blob(*V, *K) {\n    val: *V,\n    key: *K,\n}\n\ngr1: Gres : Gres.Ok 1\n\ngr2: Gres(int, str) : Gres.Err \"bad\"\n\ngp1 :: Gpr { val: \"v\", key: 7 }\n\ngunwrap :: fn r: Gres, d -> int do\n    case r do\n        Ok x ->\n            x\n        end\n        Err e ->\n            d\n        end\n    end\nend\n\ngkey :: fn p: Gpr(str, int) ->\n    p.key + 1\nend\n\ngswap :: fn p -> Gpr(int, str) do\n    Gpr { val: p.key, key: p.val }\nend\n\nguse7 :: fn do\n    print(gunwrap(gr1, 0))\n    print(gunwrap(gr2, 5))\n    print(gkey(gp1))\n    print(gp1.val + \"!\")\n    print(gswap(gp1).key + \"?\")\nend\n",
        "Gres :: enum(*T, *E)\n    Ok *T,\n    Err *E,\nend\n\nGpr :: blob(*V, *K) {\n    val: *V,\n    key: *K,\n}\n\ngr1 :: Gres.Ok 1\n\ngr2 :: Gres.Err \"bad\"\n\ngp1 :: Gpr { val: \"v\", key: 7 }\n\ngunwrap :: fn r, d ->\n    case r do\n        Ok x ->\n            x\n        end\n        Err e ->\n            d\n        end\n    end\nend\n\ngkey :: fn p ->\n    p.key + 1\nend\n\ngswap :: fn p ->\n    Gpr { val: p.key, key: p.val }\nend\n\nguse7 :: fn do\n    print(gunwrap(gr1, 0))\n    print(gunwrap(gr2, 5))\n    print(gkey(gp1))\n    print(gp1.val + \"!\")\n    print(gswap(gp1).key + \"?\")\nend\n",
    ],
    // locals and parameters named like the namespace their (qualified) type lives in; annotations written / partly written / erased
    [
        "gq_size :: fn set: set.Set(int) -> int do\n    set.len(set)\nend\n\ngq_tally :: fn words: [str] -> dict.Dict(str, int) do\n    dict: dict.Dict(str, int) = dict.new()\n    for_each(words, fn w: str -> void do\n        n: int = maybe.orDefault(dict.get(dict, w), 0)\n        dict.update(dict, w, n + 1)\n    end)\n    dict\nend\n\nguse8 :: fn -> void do\n    seen: set.Set(int) = set.from_list([1, 2, 2, 3])\n    print(gq_size(seen))\n    counts: dict.Dict(str, int) = gq_tally([\"a\", \"b\", \"a\"])\n    print(dict.get(counts, \"a\"))\n    print(dict.get(counts, \"c\"))\nend\n",
        "gq_size :: fn set: set.Set(int) ->\n    set.len(set)\nend\n\ngq_tally :: fn words ->\n    dict: dict.Dict(str, int) = dict.new()\n    for_each(words, fn w do\n        n := maybe.orDefault(dict.get(dict, w), 0)\n        dict.update(dict, w, n + 1)\n    end)\n    dict\nend\n\nguse8 :: fn do\n    seen := set.from_list([1, 2, 2, 3])\n    print(gq_size(seen))\n    counts: dict.Dict(str, int) = gq_tally([\"a\", \"b\", \"a\"])\n    print(dict.get(counts, \"a\"))\n    print(dict.get(counts, \"c\"))\nend\n",
        "gq_size :: fn set ->\n    set.len(set)\nend\n\ngq_tally :: fn words ->\n    dict := dict.new()\n    for_each(words, fn w do\n        n := maybe.orDefault(dict.get(dict, w), 0)\n        dict.update(dict, w, n + 1)\n    end)\n    dict\nend\n\nguse8 :: fn do\n    seen := set.from_list([1, 2, 2, 3])\n    print(gq_size(seen))\n    counts := gq_tally([\"a\", \"b\", \"a\"])\n    print(dict.get(counts, \"a\"))\n    print(dict.get(counts, \"c\"))\nend\n",
    ],
];

// ------------------------------------------------------------------ C08

pub struct C08;

impl Check for C08 {
    fn id(&self) -> &'static str {
        "C08"
    }
    fn plan(&self, ctx: &Ctx) -> u64 {
        scaled(ctx, 6_000, 150_000)
    }
    fn run_case(&self, ctx: &Ctx, index: u64, st: &mut Stats) {
        let mut rng = Rng::for_case(ctx.seed, "C08", index);
        let depth = if ctx.tier == Tier::Quick { 2 + (index % 2) as u32 } else { 2 + (index % 3) as u32 };
        // every other case: binder-heavy program printed with maximal shadowing (the same names in
        // all 8 variants), so that annotations are also erased where a name hides an outer one
        let shadowed = index % 2 == 1;
        let mut cfg = Cfg::general(depth);
        if shadowed {
            cfg.profile = Profile::Binders;
        }
        let p = gen::generate(&mut rng, cfg);
        let distinct = default_name(&p);
        let an = scope::analyse(&p);
        let (sn_names, _) = shadow_names(&p, &an, if index % 4 == 1 { 0 } else { rng.next() | 1 }, LOCAL_POOL);
        let shadow = |b: BId| sn_names[b].clone();
        let name: &dyn Fn(BId) -> String = if shadowed { &shadow } else { &distinct };
        if shadowed {
            st.count("cases_with_shadowing_names");
        }
        // A call whose callee is (a field of) a parameter needs that parameter's type: erasing
        // that annotation is a quarantined hazard feature (known finding), used in 1 case out of 8.
        let called = called_params(&p);
        let hazard_case = index % 8 == 7 && !called.is_empty();
        let forced = called.clone();
        let keep = move |s: AnnotSite| -> bool { !hazard_case && matches!(s, AnnotSite::Param(b) | AnnotSite::Def(b) if forced.contains(&b)) };
        let keep2 = keep.clone();
        let none = move |s: AnnotSite| keep2(s);
        if hazard_case {
            st.count("hazard_cases(erased_annotation_of_called_parameter)");
        }
        let mut vs = vec![
            Variant { label: "all annotations".into(), text: print_with(&p, name, &all_annot, None, None, None) },
            Variant { label: "no annotations".into(), text: print_with(&p, name, &none, None, None, None) },
        ];
        for k in 0..6u64 {
            let salt = rng.next();
            let density = 1 + (k % 3); // 1/4, 2/4, 3/4 of the sites annotated
            let keep3 = keep.clone();
            let sub = move |s: AnnotSite| {
                let key = match s {
                    AnnotSite::Def(b) => (1u64, b as u64),
                    AnnotSite::Param(b) => (2, b as u64),
                    AnnotSite::Ret(f) => (3, f as u64),
                };
                keep3(s) || hash64(&[salt.to_le_bytes(), key.0.to_le_bytes(), key.1.to_le_bytes()].concat()) % 4 < density
            };
            vs.push(Variant { label: format!("subset#{} density {}/4", k, density), text: print_with(&p, name, &sub, None, None, None) });
        }
        // generic snippets: variant 0 = fully annotated, variant 1 = erased, the subsets rotate over the three renderings
        let sn = (index as usize) % GENERIC_SNIPPETS.len();
        for (k, v) in vs.iter_mut().enumerate() {
            let which = match k {
                0 => 0,
                1 => 2,
                other => other % 3,
            };
            v.text.push_str("\n");
            v.text.push_str(GENERIC_SNIPPETS[sn][which]);
            v.label.push_str(&format!(" + generic snippet #{} rendering {}", sn, which));
        }
        st.count(&format!("generic_snippet:{}", sn));
        let (d, pa, r) = annot_sites(&p);
        st.add("annotation_sites:definitions", d);
        st.add("annotation_sites:parameters", pa);
        st.add("annotation_sites:return_types", r);
        st.add("compilations", vs.len() as u64);
        let sample_text = vs[1].text.clone();
        let out = compare_variants(&vs, false);
        let hz = if hazard_case { Some("erased_annotation_of_called_parameter".to_string()) } else { None };
        if record(st, out, index, hz, "C08") {
            if d + pa + r >= 3 {
                st.nontrivial(hash64(vs[0].text.as_bytes()));
            }
            if index < 2 {
                st.sample(|| J::obj().with("erased_variant", J::s(sample_text)).with("variants", J::Int(8)));
            }
        }
    }
    fn replay_witness(&self, _ctx: &Ctx, f: &Finding) -> Option<String> {
        replay_variants(f, false)
    }
    fn finish(&self, _ctx: &Ctx, st: &Stats) -> Finish {
        let ok = st.get("C08:all_variants_accepted_and_equal");
        let mut inconclusive = Vec::new();
        if ok * 10 < st.evaluations * 8 {
            inconclusive.push(format!("only {} of {} programs were accepted in all variants (<80%)", ok, st.evaluations));
        }
        Finish {
            level: "exploration",
            rule: "typed generated programs, each rendered 8 times differing only in which (correct) annotations are written: all, none, six pseudo-random subsets over definition / parameter / return-type sites (`-> void do` vs `do` for void functions, `-> T do` vs `->` otherwise); all 8 must be accepted alike and give byte-identical Lua. Non-trivial: >= 3 annotation sites; distinct by hash of the fully annotated text.".into(),
            extra: J::obj(),
            assumptions: vec!["the generator's own typing decides which annotations are 'correct'; a program rejected in every variant is discarded".into()],
            exhaustive: false,
            inconclusive,
        }
    }
}

// ------------------------------------------------------------------ C14

/// (return type, expression) pairs: the same functions are appended to every rendering of a C14 case,
/// with the expression as the trailing expression of the body in some renderings and as `ret <expr>` in
/// the others ("a trailing expression means ret of that expression", for every kind of expression)
const TRAILING_KINDS: &[(&str, &str)] = &[
    ("bool", "a <=> b"),
    ("int", "a + b"),
    ("int", "if a > b do\n    1\nelse do\n    2\nend"),
    ("int", "case Maybe.Just a do\n    Just q -> q end\n    None -> b end\nend"),
    ("int", "zt_id(a)"),
    ("int", "a -> zt_id()"),
    ("int", "zt_id' a"),
    ("(int, int)", "(a, b)"),
    ("[int]", "[a, b]"),
    ("int", "-a"),
    ("bool", "a > b and b > 0"),
    ("bool", "not (a > b)"),
    ("fn int -> int", "fn x: int -> int do\n    x + a\nend"),
    ("ZtB", "ZtB { f: a }"),
    ("Maybe(int)", "Maybe.Just a"),
    ("str", "\"s\" + \"t\""),
    ("float", "a / b"),
    ("int", "(a, b)[0]"),
    ("bool", "a == b"),
    ("int", "a * b - a"),
];

/// the same nested calls written plainly and as unparenthesised arrow chains (2, 3 and 4 arrows)
fn chain_snippet(arrow_form: bool) -> String {
    let head = "\nzc_sub :: fn a: int, b: int -> int do\n    a - b\nend\n\nzc_mul :: fn a: int, b: int -> int do\n    a * b\nend\n\nzc_use :: fn x: int do\n";
    let body = if arrow_form {
        "    print(x -> zc_sub(1) -> zc_mul(2) -> zc_sub(3))\n    print(x -> zc_sub(1) -> zc_mul(2) -> zc_sub(3) -> zc_mul(4))\n    print(x -> zc_sub(1) -> zc_sub(2))\n    k :: (x -> zc_sub(1) -> zc_mul(2) -> zc_sub(3)) + 1\n    print(k)\n"
    } else {
        "    print(zc_sub(zc_mul(zc_sub(x, 1), 2), 3))\n    print(zc_mul(zc_sub(zc_mul(zc_sub(x, 1), 2), 3), 4))\n    print(zc_sub(zc_sub(x, 1), 2))\n    k :: zc_sub(zc_mul(zc_sub(x, 1), 2), 3) + 1\n    print(k)\n"
    };
    format!("{}{}end\n", head, body)
}

fn trailing_snippet(ret_form: bool) -> String {
    let mut t = String::from("\nZtB :: blob {\n    f: int,\n}\n\nzt_id :: fn a: int -> int do\n    a\nend\n\n");
    for (i, (ty, e)) in TRAILING_KINDS.iter().enumerate() {
        let mut lines: Vec<String> = e.lines().map(|l| l.to_string()).collect();
        if ret_form {
            lines[0] = format!("ret {}", lines[0]);
        }
        let body = lines.iter().map(|l| format!("    {}", l)).collect::<Vec<_>>().join("\n");
        t.push_str(&format!("zt_{} :: fn a: int, b: int -> {} do\n{}\nend\n\n", i, ty, body));
    }
    t.push_str("zt_use :: fn do\n");
    for (i, (ty, _)) in TRAILING_KINDS.iter().enumerate() {
        if *ty == "fn int -> int" || *ty == "ZtB" {
            t.push_str(&format!("    zk_{} :: zt_{}(1, 1)\n", i, i));
        } else {
            t.push_str(&format!("    print(zt_{}(1, 1))\n", i));
        }
    }
    t.push_str("end\n");
    t
}

/// Functions whose LAST expression decides whether they are well typed: statements that return early come first,
/// the final expression holds a nested `ret` (or is itself the value). Written once with the final expression
/// trailing and once as `ret <expression>`; each with a value of the declared type (both spellings accepted,
/// same Lua) and with a value of another type (both spellings rejected).
/// (statements before, final expression with VALUE as the nested / final value)
const TRAILING_TYPED: &[(&str, &str)] = &[
    ("if a < 0 do\n    ret 0\nend", "if a > 100 do\n    ret VALUE\nelse do\n    a\nend"),
    ("if a < 0 do\n    ret 0\nend", "case Maybe.Just a do\n    Just q -> ret VALUE end\n    None -> b end\nend"),
    ("", "if a > b do\n    ret VALUE\nelse do\n    1\nend"),
    ("if a < 0 do\n    ret 0\nend", "VALUE"),
    ("i := 0\nloop i < 3 do\n    i += 1\n    if i == a do\n        ret i\n    end\nend", "if a > 100 do\n    ret VALUE\nelse do\n    a\nend"),
    ("if a < 0 do\n    ret 0\nend", "if a > 100 do\n    if b > 0 do\n        ret VALUE\n    end\n    1\nelse do\n    2\nend"),
    ("if a < 0 do\n    ret 0\nend", "if a > 100 do\n    a\nelif a > 50 do\n    ret VALUE\nelse do\n    b\nend"),
    ("case Maybe.Just a do\n    Just q ->\n        if q < 0 do\n            ret q\n        end\n    end\n    None -> end\nend", "case Maybe.Just b do\n    Just q -> q end\n    None -> ret VALUE end\nend"),
    ("if a < 0 do\n    ret 0\nend", "if a > 100 do\n    1\nelse do\n    VALUE\nend"),
    ("do\n    if a < 0 do\n        ret 0\n    end\nend", "a + (if a > 100 do\n    ret VALUE\nelse do\n    1\nend)"),
];

fn trailing_typed_case(index: u64, st: &mut Stats) {
    let (pre, fin) = TRAILING_TYPED[index as usize % TRAILING_TYPED.len()];
    let declared = (index as usize / TRAILING_TYPED.len()) % 2 == 0;
    let render = |value: &str, ret_form: bool| {
        let mut lines: Vec<String> = pre.lines().map(|l| l.to_string()).collect();
        let f: Vec<String> = fin.replace("VALUE", value).lines().map(|l| l.to_string()).collect();
        for (i, l) in f.iter().enumerate() {
            lines.push(if i == 0 && ret_form { format!("ret {}", l) } else { l.clone() });
        }
        let body = lines.iter().map(|l| format!("    {}", l)).collect::<Vec<_>>().join("\n");
        format!("classify :: fn a: int, b: int {} do\n{}\nend\n\nstart :: fn do\n    print(classify(5, 1))\n    print(classify(200, 1))\n    print(classify(-3, 1))\nend\n", if declared { "-> int" } else { "->" }, body)
    };
    st.count("trailing_typed_functions");
    let viol = |sig: &str, text: String, obs: String| Violation { signature: sig.to_string(), hazard: None, case: index, detail: J::obj().with("program", J::s(text)).with("observed", J::s(obs)) };
    let (gt, gr) = (render("7", false), render("7", true));
    let (bt, br) = (render("\"big\"", false), render("\"big\"", true));
    match (compile_budgeted(&gt), compile_budgeted(&gr)) {
        (Compiled::Ok(x), Compiled::Ok(y)) => {
            if x != y {
                st.violation(viol("rel:trailing-vs-ret-lua-differs", gt.clone(), "the two spellings of a well-typed function give different Lua".into()));
                return;
            }
        }
        (x, y) => {
            st.violation(viol("rel:trailing-typed-template-rejected", gt.clone(), format!("trailing: {} | ret: {}", x.brief(), y.brief())));
            return;
        }
    }
    let (t, r) = (compile_budgeted(&bt), compile_budgeted(&br));
    match (&t, &r) {
        (Compiled::Err { .. }, Compiled::Err { .. }) => {
            st.count("trailing_typed_functions_as_expected");
            st.nontrivial(hash64(bt.as_bytes()));
        }
        (Compiled::Fuel, _) | (_, Compiled::Fuel) => st.count("trailing_typed_no_verdict"),
        _ => st.violation(viol("rel:trailing-vs-ret-acceptance-differs-on-ill-typed-function", bt.clone(), format!("trailing spelling: {} | `ret` spelling: {}", t.brief(), r.brief()))),
    }
}

// ---- statement-position layouts: a line break inside brackets is insignificant wherever the brackets stand -
// in an assignment target, an index, a compound assignment, a condition, a call statement, a definition.
const BRACKET_STATEMENTS: &[&str] = &[
    "pick(p, q).x = 5",
    "pick(p, q).x += 1",
    "pick(p, q).x *= idx(5, 2)",
    "p.x = idx(pick(p, q).x, 1)",
    "p.x = pick(p, q).x -> idx(1)",
    "print(idx(pick(p, q).x, 1))",
    "print' idx(pick(p, q).x, 1)",
    "pick(p, q).x -> idx(1) -> print()",
    "z := idx(pick(p, q).x, 1)",
    "z :: (idx(3, 1), [idx(4, 1), 2])",
    "z: (int, [int]) = (idx(3, 1), [idx(4, 1), 2])",
    "if idx(3, 1) > 1 do\n        p.x = 7\n    end",
    "if idx(3, 1) > 5 do\n        p.x = 7\n    elif idx(3, 1) > 1 do\n        p.x = 8\n    end",
    "loop idx(p.x, 1) < 3 do\n        p.x += 1\n    end",
    "case list.get(p.l, idx(2, 1)) do\n        Just v ->\n            p.x = v\n        end\n        None ->\n            p.x = 0\n        end\n    end",
    "z := (idx(3, 1), idx(4, 1))[1]",
    "p.x = (pick(p, q).x, (idx(3, 1), 4))[1][0]",
    "p.x += (idx(3, 1), idx(4, 1))[0]",
    "zb: Bx(int) = Bx { v: idx(3, 1) }",
    "zf: fn (int, int), [int] -> int = fn a: (int, int), b: [int] -> int do a[0] end",
    "list.push(pick(p, q).l, idx(9, 1))",
    "pick(p, q).l -> list.push(idx(9, 1))",
    "q.x = if idx(3, 1) > 1 do\n        4\n    else do\n        5\n    end",
];

/// `mode` bit 0: break after every opening ( or [; bit 1: after every comma inside brackets; bit 2: before every closing bracket.
fn break_brackets(stmt: &str, mode: u8) -> String {
    let mut out = String::new();
    let mut depth = 0i32;
    let cs: Vec<char> = stmt.chars().collect();
    let mut i = 0;
    let nl = |out: &mut String, depth: i32| {
        while out.ends_with(' ') {
            out.pop();
        }
        out.push('\n');
        out.push_str(&"    ".repeat(2 + depth.max(0) as usize));
    };
    while i < cs.len() {
        let c = cs[i];
        match c {
            '(' | '[' => {
                // `print' f(..)`-style and `()` with nothing inside stay as they are
                let empty = i + 1 < cs.len() && (cs[i + 1] == ')' || cs[i + 1] == ']');
                out.push(c);
                depth += 1;
                if mode & 1 != 0 && !empty {
                    nl(&mut out, depth);
                    while i + 1 < cs.len() && cs[i + 1] == ' ' {
                        i += 1;
                    }
                }
            }
            ')' | ']' => {
                let empty = i > 0 && (cs[i - 1] == '(' || cs[i - 1] == '[');
                depth -= 1;
                if mode & 4 != 0 && !empty {
                    nl(&mut out, depth);
                }
                out.push(c);
            }
            ',' if depth > 0 => {
                out.push(c);
                if mode & 2 != 0 {
                    nl(&mut out, depth);
                    while i + 1 < cs.len() && cs[i + 1] == ' ' {
                        i += 1;
                    }
                }
            }
            _ => out.push(c),
        }
        i += 1;
    }
    out
}

fn bracket_statement_case(index: u64, st: &mut Stats) {
    let stmt = BRACKET_STATEMENTS[index as usize % BRACKET_STATEMENTS.len()];
    let render = |s: &str| {
        format!(
            "Pt :: blob {{\n    x: int,\n    l: [int],\n}}\n\nBx :: blob(*T) {{\n    v: *T,\n}}\n\npick :: fn a: Pt, b: Pt -> Pt do\n    a\nend\n\nidx :: fn a: int, b: int -> int do\n    a - b\nend\n\nstart :: fn do\n    p := Pt {{ x: 1, l: [1, 2, 3] }}\n    q := Pt {{ x: 2, l: [4, 5, 6] }}\n    {}\n    print(p.x)\n    print(p.l)\n    print(q.x)\nend\n",
            s
        )
    };
    st.count("bracket_statement_programs");
    let base_text = render(stmt);
    let base = match compile_budgeted(&base_text) {
        Compiled::Ok(b) => b,
        Compiled::Fuel => return,
        other => {
            st.violation(Violation { signature: "rel:bracket-statement-template-rejected".into(), hazard: None, case: index, detail: J::obj().with("program", J::s(base_text)).with("observed", J::s(format!("{} {}", other.brief(), other.first_error().map(|e| e.display.clone()).unwrap_or_default()))) });
            return;
        }
    };
    for mode in 1..8u8 {
        let text = render(&break_brackets(stmt, mode));
        if text == base_text {
            continue;
        }
        st.count("bracket_statement_layouts_compiled");
        let same = match compile_budgeted(&text) {
            Compiled::Ok(b) => b == base,
            Compiled::Fuel => continue,
            _ => false,
        };
        if !same {
            st.violation(Violation {
                signature: "rel:line-break-inside-brackets-of-a-statement".into(),
                hazard: None,
                case: index,
                detail: J::obj().with("statement", J::s(stmt)).with("one_line_program", J::s(base_text.clone())).with("broken_program", J::s(text.clone())).with("observed", J::s({ let r = compile_budgeted(&text); format!("{} {}", r.brief(), r.first_error().map(|e| e.display.clone()).unwrap_or_default()) })),
            });
            return;
        }
    }
    st.count("bracket_statement_programs_layout_independent");
    st.nontrivial(hash64(base_text.as_bytes()));
}

pub struct C14;

impl Check for C14 {
    fn id(&self) -> &'static str {
        "C14"
    }
    fn plan(&self, ctx: &Ctx) -> u64 {
        scaled(ctx, 6_000, 150_000)
    }
    fn run_case(&self, ctx: &Ctx, index: u64, st: &mut Stats) {
        if (index as usize) < TRAILING_TYPED.len() * 2 {
            trailing_typed_case(index, st);
        }
        if (index as usize) < BRACKET_STATEMENTS.len() {
            bracket_statement_case(index, st);
        }
        let mut rng = Rng::for_case(ctx.seed, "C14", index);
        let depth = 2 + (index % 2) as u32;
        let p = gen::generate(&mut rng, Cfg::general(depth));
        let name = default_name(&p);
        // every other program is printed with its top-level items in a shuffled order (the same order in
        // all renderings): functions above the globals they read, globals above the functions they call
        let mut shuffled: Vec<usize> = (0..p.items.len()).collect();
        rng.shuffle(&mut shuffled);
        let order: Option<&[usize]> = if index % 2 == 1 { Some(&shuffled) } else { None };
        if order.is_some() {
            st.count("programs_with_shuffled_top_level_order");
        }
        let mut vs = vec![Variant { label: "canonical".into(), text: print_with(&p, &name, &all_annot, None, None, order) }];
        for k in 0..3 {
            let s = rng.next();
            vs.push(Variant { label: format!("sugar#{}", k), text: print_with(&p, &name, &all_annot, Some(s), None, order) });
        }
        for k in 0..2 {
            let s = rng.next();
            vs.push(Variant { label: format!("layout#{}", k), text: print_with(&p, &name, &all_annot, None, Some(s), order) });
        }
        let s1 = rng.next();
        let s2 = rng.next();
        vs.push(Variant { label: "sugar+layout".into(), text: print_with(&p, &name, &all_annot, Some(s1), Some(s2), order) });
        // the trailing-expression / `ret` pairs, alternating over the renderings
        for (k, v) in vs.iter_mut().enumerate() {
            v.text.push_str(&trailing_snippet(k % 2 == 1));
            v.text.push_str(&chain_snippet((k / 2) % 2 == 1));
            v.label.push_str(if k % 2 == 1 { " + snippet functions ending in `ret e`" } else { " + snippet functions ending in a trailing `e`" });
        }
        st.add("trailing_vs_ret_functions_compared", TRAILING_KINDS.len() as u64);
        // census of the forms used
        for v in &vs[1..] {
            st.add("form:prime_calls", v.text.matches("' ").count() as u64 + v.text.matches("'\n").count() as u64 + v.text.matches("')").count() as u64);
            st.add("form:arrow_calls", v.text.matches(" -> ").count() as u64);
            st.add("form:explicit_ret_of_trailing_value", v.text.matches("ret ").count() as u64);
            st.add("form:loop_true_do", v.text.matches("loop true do").count() as u64);
            st.add("form:comment_lines", v.text.matches("// note").count() as u64);
        }
        st.add("call_sites", p.n_sites as u64);
        st.add("compilations", vs.len() as u64);
        let sample = vs[6].text.clone();
        let out = compare_variants(&vs, true);
        if record(st, out, index, None, "C14") {
            if p.n_sites >= 3 {
                st.nontrivial(hash64(vs[0].text.as_bytes()));
            }
            if index < 2 {
                st.sample(|| J::obj().with("sugar_and_layout_variant", J::s(sample)).with("variants", J::Int(7)));
            }
        }
    }
    fn replay_witness(&self, _ctx: &Ctx, f: &Finding) -> Option<String> {
        replay_variants(f, true)
    }
    fn finish(&self, _ctx: &Ctx, st: &Stats) -> Finish {
        let ok = st.get("C14:all_variants_accepted_and_equal");
        let mut inconclusive = Vec::new();
        if ok * 10 < st.evaluations * 8 {
            inconclusive.push(format!("only {} of {} programs were accepted in all variants (<80%)", ok, st.evaluations));
        }
        for k in ["form:prime_calls", "form:arrow_calls", "form:explicit_ret_of_trailing_value", "form:loop_true_do"] {
            if st.get(k) == 0 {
                inconclusive.push(format!("surface form never produced: {}", k));
            }
        }
        Finish {
            level: "exploration",
            rule: "typed generated programs, each rendered 7 times: canonical; 3 sugar variants (per call site f(a,b) / f' a, b / a -> f(b) / a -> f' b; `ret e` vs trailing e; `loop do` vs `loop true do`); 2 layout variants (indent unit, blank lines, comments, line breaks inside brackets, redundant parentheses); 1 combined. All must be accepted alike with byte-identical Lua after masking the line number in `<!>` messages. Non-trivial: >= 3 call sites; distinct by hash of the canonical text.".into(),
            extra: J::obj(),
            assumptions: vec!["a prime call is only written as the last thing on its line or wrapped in its own parentheses; arrow form only for plain-name callees".into()],
            exhaustive: false,
            inconclusive,
        }
    }
}

// ------------------------------------------------------------------ C09

pub struct C09;

pub(crate) const LOCAL_POOL: &[&str] = &["a", "b", "x", "len", "push", "min", "filter", "n", "abs", "y", "pop", "get", "i", "max", "t", "s", "q", "r", "w", "z"];
/// hazard pool: names of namespaces the std preamble imports (quarantined: KF-C09-namespace-over-local)
const NAMESPACE_POOL: &[&str] = &["dict", "set", "math", "maybe", "common", "a", "dict", "x", "set", "n", "b", "y", "math", "i", "t", "s", "q", "r", "w", "z"];
const GLOBAL_POOL: &[&str] = &["a", "b", "x", "n", "y", "t", "s", "q", "r", "w", "z", "g", "h", "k", "m", "u"];

pub(crate) fn shadow_names(p: &Program, a: &scope::Analysis, salt: u64, local_pool: &[&str]) -> (Vec<String>, u64) {
    // globals take names from the pool without std names; locals may reuse everything
    let (mut names, mut reused) = scope::shadowing_names(p, a, local_pool, salt);
    let (gnames, _) = scope::shadowing_names(p, a, GLOBAL_POOL, salt);
    // a global must not collide with std imports: re-pick from the global pool
    let mut changed = false;
    for (b, bd) in p.binders.iter().enumerate() {
        if bd.kind == BKind::Global && !GLOBAL_POOL.contains(&names[b].as_str()) && b != p.start {
            names[b] = gnames[b].clone();
            changed = true;
        }
    }
    if changed {
        // re-validate: any violated conflict falls back to a unique name
        for (x, y) in &a.conflicts {
            if *x < names.len() && *y < names.len() && names[*x] == names[*y] {
                let v = if p.binders[*x].kind == BKind::Global { *y } else { *x };
                if v != p.start {
                    names[v] = format!("u{}", v);
                    reused = reused.saturating_sub(1);
                }
            }
        }
    }
    (names, reused)
}

/// binders declared inside `s` in nested scopes (not by `s` itself when it is a Def)
fn declared_inside(s: &Stmt) -> Vec<(BId, ScopeKind)> {
    let mut out = Vec::new();
    fn in_block(b: &Block, kind: ScopeKind, out: &mut Vec<(BId, ScopeKind)>) {
        for s in &b.stmts {
            if let Stmt::Def { b, .. } = s {
                out.push((*b, kind));
            }
            in_stmt(s, out);
        }
        if let Some(v) = &b.value {
            in_expr(v, out);
        }
    }
    fn in_stmt(s: &Stmt, out: &mut Vec<(BId, ScopeKind)>) {
        match s {
            Stmt::Def { init, .. } => in_expr(init, out),
            Stmt::Assign { target, value, .. } => {
                if let LValue::Field(e, _) = target {
                    in_expr(e, out);
                }
                in_expr(value, out);
            }
            Stmt::Loop { cond, body, .. } => {
                if let Some(c) = cond {
                    in_expr(c, out);
                }
                in_block(body, ScopeKind::LoopBody, out);
            }
            Stmt::Ret(Some(e)) | Stmt::Expr(e) => in_expr(e, out),
            Stmt::Block(b) => in_block(b, ScopeKind::Block, out),
            _ => {}
        }
    }
    fn in_expr(e: &Expr, out: &mut Vec<(BId, ScopeKind)>) {
        match e {
            Expr::If { branches, els } => {
                for (c, b) in branches {
                    in_expr(c, out);
                    in_block(b, ScopeKind::IfArm, out);
                }
                if let Some(b) = els {
                    in_block(b, ScopeKind::IfArm, out);
                }
            }
            Expr::Case { scrut, arms, els, .. } => {
                in_expr(scrut, out);
                for a in arms {
                    if let Some(b) = a.bind {
                        out.push((b, ScopeKind::CaseArm));
                    }
                    in_block(&a.body, ScopeKind::CaseArm, out);
                }
                if let Some(b) = els {
                    in_block(b, ScopeKind::CaseArm, out);
                }
            }
            Expr::Lambda(fd) => {
                for b in &fd.params {
                    out.push((*b, ScopeKind::FnBody));
                }
                in_block(&fd.body, ScopeKind::FnBody, out);
            }
            Expr::Bin(_, a, b) | Expr::AssertEq(a, b) => {
                in_expr(a, out);
                in_expr(b, out);
            }
            Expr::Un(_, a) | Expr::Field(a, _) | Expr::TupleIndex(a, _) => in_expr(a, out),
            Expr::Call { callee, args, .. } => {
                in_expr(callee, out);
                for a in args {
                    in_expr(a, out);
                }
            }
            Expr::StdCall { args, .. } | Expr::Tuple(args) | Expr::List(args, _) => {
                for a in args {
                    in_expr(a, out);
                }
            }
            Expr::BlobNew { fields, .. } => {
                for (_, x) in fields {
                    in_expr(x, out);
                }
            }
            Expr::Variant { payload, .. } => {
                if let Some(p) = payload {
                    in_expr(p, out);
                }
            }
            _ => {}
        }
    }
    in_stmt(s, &mut out);
    out
}

/// Visit every block mutably (pre-order). The callback returns true to stop.
fn blocks_mut(p: &mut Program, f: &mut dyn FnMut(&mut Block) -> bool) -> bool {
    fn in_block(b: &mut Block, f: &mut dyn FnMut(&mut Block) -> bool) -> bool {
        if f(b) {
            return true;
        }
        for s in b.stmts.iter_mut() {
            if in_stmt(s, f) {
                return true;
            }
        }
        if let Some(v) = b.value.as_mut() {
            if in_expr(v, f) {
                return true;
            }
        }
        false
    }
    fn in_stmt(s: &mut Stmt, f: &mut dyn FnMut(&mut Block) -> bool) -> bool {
        match s {
            Stmt::Def { init, .. } => in_expr(init, f),
            Stmt::Assign { target, value, .. } => {
                if let LValue::Field(e, _) = target {
                    if in_expr(e, f) {
                        return true;
                    }
                }
                in_expr(value, f)
            }
            Stmt::Loop { cond, body, .. } => {
                if let Some(c) = cond {
                    if in_expr(c, f) {
                        return true;
                    }
                }
                in_block(body, f)
            }
            Stmt::Ret(Some(e)) | Stmt::Expr(e) => in_expr(e, f),
            Stmt::Block(b) => in_block(b, f),
            _ => false,
        }
    }
    fn in_expr(e: &mut Expr, f: &mut dyn FnMut(&mut Block) -> bool) -> bool {
        match e {
            Expr::If { branches, els } => {
                for (c, b) in branches.iter_mut() {
                    if in_expr(c, f) || in_block(b, f) {
                        return true;
                    }
                }
                if let Some(b) = els {
                    return in_block(b, f);
                }
                false
            }
            Expr::Case { scrut, arms, els, .. } => {
                if in_expr(scrut, f) {
                    return true;
                }
                for a in arms.iter_mut() {
                    if in_block(&mut a.body, f) {
                        return true;
                    }
                }
                if let Some(b) = els {
                    return in_block(b, f);
                }
                false
            }
            Expr::Lambda(fd) => in_block(&mut fd.body, f),
            Expr::Bin(_, a, b) | Expr::AssertEq(a, b) => in_expr(a, f) || in_expr(b, f),
            Expr::Un(_, a) | Expr::Field(a, _) | Expr::TupleIndex(a, _) => in_expr(a, f),
            Expr::Call { callee, args, .. } => {
                if in_expr(callee, f) {
                    return true;
                }
                args.iter_mut().any(|a| in_expr(a, f))
            }
            Expr::StdCall { args, .. } | Expr::Tuple(args) | Expr::List(args, _) => args.iter_mut().any(|a| in_expr(a, f)),
            Expr::BlobNew { fields, .. } => fields.iter_mut().any(|(_, x)| in_expr(x, f)),
            Expr::Variant { payload, .. } => match payload {
                Some(p) => in_expr(p, f),
                None => false,
            },
            _ => false,
        }
    }
    let mut items = std::mem::take(&mut p.items);
    let mut stop = false;
    for it in items.iter_mut() {
        if let Item::Global { init, .. } = it {
            if in_expr(init, f) {
                stop = true;
                break;
            }
        }
    }
    p.items = items;
    stop
}

#[derive(Clone, Debug)]
pub struct Plant {
    pub block_no: usize,
    pub at: usize, // insert position in the block
    pub binder: BId,
    pub kind: &'static str,
}

fn scope_name(k: ScopeKind) -> &'static str {
    match k {
        ScopeKind::FnBody => "after-function",
        ScopeKind::IfArm => "after-if-arm",
        ScopeKind::CaseArm => "after-case-arm",
        ScopeKind::LoopBody => "after-loop",
        ScopeKind::Block => "after-block",
    }
}

pub fn scope_plants(p: &Program) -> Vec<Plant> {
    let mut p2 = p.clone();
    let mut plants = Vec::new();
    let mut block_no = 0usize;
    blocks_mut(&mut p2, &mut |b: &mut Block| {
        for (k, s) in b.stmts.iter().enumerate() {
            if let Stmt::Def { b: bd, .. } = s {
                plants.push(Plant { block_no, at: k, binder: *bd, kind: "before-declaration" });
            }
            for (inner, sk) in declared_inside(s) {
                plants.push(Plant { block_no, at: k + 1, binder: inner, kind: scope_name(sk) });
            }
        }
        block_no += 1;
        false
    });
    plants
}

pub fn apply_plant(p: &Program, pl: &Plant) -> Program {
    let mut p2 = p.clone();
    let ty = p2.binders[pl.binder].ty.clone();
    let nb = p2.new_binder("zz", ty, false, BKind::Local);
    let mut block_no = 0usize;
    let target = pl.clone();
    blocks_mut(&mut p2, &mut |b: &mut Block| {
        if block_no == target.block_no {
            let at = target.at.min(b.stmts.len());
            b.stmts.insert(at, Stmt::Def { b: nb, init: Expr::Var(target.binder) });
            return true;
        }
        block_no += 1;
        false
    });
    p2
}

/// `self` is only bound inside the function-valued fields of a blob literal: plant a use of `self`
/// in a plain field initialiser that follows a method field (outside any method). Must be rejected.
fn plant_self(p: &Program, rng: &mut Rng) -> Option<Program> {
    fn walk(e: &mut Expr, in_method: bool, k: &mut i64, done: &mut bool) {
        if *done {
            return;
        }
        if let Expr::BlobNew { blob, fields } = e {
            if !in_method {
                let mut seen_method = false;
                for i in 0..fields.len() {
                    let is_method = matches!(fields[i].1, Expr::Lambda(_));
                    if !is_method && seen_method {
                        if *k == 0 {
                            let fname = fields[i].0.clone();
                            fields[i].1 = Expr::Field(Box::new(Expr::SelfRef(*blob)), fname);
                            *done = true;
                            return;
                        }
                        *k -= 1;
                    }
                    seen_method |= is_method;
                }
            }
            let b = *blob;
            let _ = b;
            for (_, x) in fields.iter_mut() {
                let m = in_method || matches!(x, Expr::Lambda(_));
                walk(x, m, k, done);
            }
            return;
        }
        // generic descent
        match e {
            Expr::Bin(_, a, b) | Expr::AssertEq(a, b) => {
                walk(a, in_method, k, done);
                walk(b, in_method, k, done);
            }
            Expr::Un(_, a) | Expr::Field(a, _) | Expr::TupleIndex(a, _) => walk(a, in_method, k, done),
            Expr::Call { callee, args, .. } => {
                walk(callee, in_method, k, done);
                for a in args {
                    walk(a, in_method, k, done);
                }
            }
            Expr::StdCall { args, .. } | Expr::Tuple(args) | Expr::List(args, _) => {
                for a in args {
                    walk(a, in_method, k, done);
                }
            }
            Expr::If { branches, els } => {
                for (c, b) in branches {
                    walk(c, in_method, k, done);
                    walk_block(b, in_method, k, done);
                }
                if let Some(b) = els {
                    walk_block(b, in_method, k, done);
                }
            }
            Expr::Case { scrut, arms, els, .. } => {
                walk(scrut, in_method, k, done);
                for a in arms {
                    walk_block(&mut a.body, in_method, k, done);
                }
                if let Some(b) = els {
                    walk_block(b, in_method, k, done);
                }
            }
            Expr::Variant { payload: Some(p), .. } => walk(p, in_method, k, done),
            Expr::Lambda(fd) => walk_block(&mut fd.body, in_method, k, done),
            _ => {}
        }
    }
    fn walk_block(b: &mut Block, in_method: bool, k: &mut i64, done: &mut bool) {
        for s in b.stmts.iter_mut() {
            match s {
                Stmt::Def { init, .. } => walk(init, in_method, k, done),
                Stmt::Assign { target, value, .. } => {
                    if let LValue::Field(e, _) = target {
                        walk(e, in_method, k, done);
                    }
                    walk(value, in_method, k, done);
                }
                Stmt::Loop { cond, body, .. } => {
                    if let Some(c) = cond {
                        walk(c, in_method, k, done);
                    }
                    walk_block(body, in_method, k, done);
                }
                Stmt::Ret(Some(e)) | Stmt::Expr(e) => walk(e, in_method, k, done),
                Stmt::Block(b) => walk_block(b, in_method, k, done),
                _ => {}
            }
        }
        if let Some(v) = b.value.as_mut() {
            walk(v, in_method, k, done);
        }
    }
    // count candidates
    let mut probe = p.clone();
    let mut k: i64 = i64::MAX / 2;
    let start_k = k;
    let mut done = false;
    let mut items = std::mem::take(&mut probe.items);
    for it in items.iter_mut() {
        if let Item::Global { init, .. } = it {
            walk(init, false, &mut k, &mut done);
        }
    }
    let n = (start_k - k) as usize;
    if n == 0 {
        return None;
    }
    let mut p2 = p.clone();
    let mut k = rng.below(n) as i64;
    let mut done = false;
    let mut items = std::mem::take(&mut p2.items);
    for it in items.iter_mut() {
        if let Item::Global { init, .. } = it {
            walk(init, false, &mut k, &mut done);
        }
    }
    p2.items = items;
    if done {
        Some(p2)
    } else {
        None
    }
}

/// Names with a capital initial. The parser states "Variables have to start with a lowercase letter" but enforces
/// it for case bindings only, so parameters, locals, local functions and globals may be capitalised. Two
/// hand-written programs use @-marked names in exactly those positions; the spelling with capital initials must give
/// the Lua of the lower-case spelling. Should the parser start enforcing its rule (a syntax error), there is no verdict.
const CAPITAL_TEMPLATES: &[&str] = &[
    "@limit :: 100\n\ncap_at :: fn value: int, @limit: int -> int do\n    if value > @limit do\n        ret @limit\n    end\n    value\nend\n\nstart :: fn do\n    print(cap_at(250, 10))\n    print(@limit)\nend\n",
    "P :: blob {\n    n: int,\n}\n\nstart :: fn do\n    @total := 1\n    @total += 2\n    @konst :: @total * 2\n    @typed: int = @konst\n    @helper :: fn @a: int -> int do\n        @a + @typed\n    end\n    @pt := P { n: @helper(1) }\n    @pt.n = @pt.n + 1\n    @tup := (@pt.n, 2)\n    for_each([1, 2], fn @elem do\n        print(@elem + @tup[0])\n    end)\n    @fun := fn -> int do\n        @total\n    end\n    print(@fun() + @total)\nend\n",
];

fn capital_case(index: u64, st: &mut Stats) {
    let t = CAPITAL_TEMPLATES[index as usize % CAPITAL_TEMPLATES.len()];
    let mut upper = String::new();
    let mut cap_next = false;
    for c in t.chars() {
        if c == '@' {
            cap_next = true;
        } else if cap_next {
            upper.extend(c.to_uppercase());
            cap_next = false;
        } else {
            upper.push(c);
        }
    }
    let lower = t.replace('@', "");
    st.count("capital_initial_templates");
    let viol = |sig: &str, obs: String| Violation { signature: sig.to_string(), hazard: None, case: index, detail: J::obj().with("lower_case_spelling", J::s(lower.clone())).with("capitalised_spelling", J::s(upper.clone())).with("observed", J::s(obs)) };
    match (compile_budgeted(&lower), compile_budgeted(&upper)) {
        (Compiled::Ok(a), Compiled::Ok(b)) => {
            if a == b {
                st.count("capital_initial_templates_equal");
            } else {
                st.violation(viol("rel:lua-differs-for-capitalised-names", "both spellings are accepted but give different Lua".into()));
            }
        }
        (Compiled::Ok(_), Compiled::Err { errors, .. }) => {
            if errors.iter().all(|e| e.kind == "syntax") {
                st.count("capital_initial_templates_no_verdict(parser_enforces_lower_case)");
            } else {
                st.violation(viol("rel:acceptance-differs-for-capitalised-names", errors.first().map(|e| e.display.clone()).unwrap_or_default().chars().take(300).collect()));
            }
        }
        (a, _) => st.violation(viol("rel:capital-template-rejected", a.brief())),
    }
}

impl Check for C09 {
    fn id(&self) -> &'static str {
        "C09"
    }
    fn plan(&self, ctx: &Ctx) -> u64 {
        scaled(ctx, 6_000, 150_000)
    }
    fn run_case(&self, ctx: &Ctx, index: u64, st: &mut Stats) {
        if (index as usize) < CAPITAL_TEMPLATES.len() {
            capital_case(index, st);
        }
        let mut rng = Rng::for_case(ctx.seed, "C09", index);
        let mut cfg = Cfg::general(2 + (index % 2) as u32);
        cfg.profile = Profile::Binders;
        let p = gen::generate(&mut rng, cfg);
        let an = scope::analyse(&p);
        let distinct = default_name(&p);
        // (i) renamings
        let hazard_case = index % 8 == 5;
        let pool = if hazard_case { NAMESPACE_POOL } else { LOCAL_POOL };
        if hazard_case {
            st.count("hazard_cases(local_named_like_namespace)");
        }
        let (n1, reused1) = shadow_names(&p, &an, 0, pool);
        let (n2, reused2) = shadow_names(&p, &an, rng.next() | 1, pool);
        let f1 = |b: BId| n1[b].clone();
        let f2 = |b: BId| n2[b].clone();
        let long = |b: BId| if b == p.start { "start".to_string() } else { format!("a_rather_long_identifier_name_{}_{}", p.binders[b].hint, b) };
        let vs = vec![
            Variant { label: "distinct names".into(), text: print_with(&p, &distinct, &all_annot, None, None, None) },
            Variant { label: "maximal shadowing".into(), text: print_with(&p, &f1, &all_annot, None, None, None) },
            Variant { label: "rotated shadowing".into(), text: print_with(&p, &f2, &all_annot, None, None, None) },
            Variant { label: "long names".into(), text: print_with(&p, &long, &all_annot, None, None, None) },
        ];
        st.add("binders_renamed", p.binders.len() as u64);
        st.add("names_reused_by_shadowing", reused1 + reused2);
        st.add("uses_resolved", an.uses);
        st.add("compilations", 4);
        let sample = vs[1].text.clone();
        let out = compare_variants(&vs, false);
        // D1-type leaks show up as acceptance/lua differences of the shadowing variants
        let accepted = record(st, out, index, if hazard_case { Some("local_named_like_namespace".to_string()) } else { None }, "C09");
        if accepted {
            if reused1 >= 2 {
                st.nontrivial(hash64(vs[0].text.as_bytes()));
            }
            if index < 2 {
                st.sample(|| J::obj().with("maximal_shadowing_variant", J::s(sample)));
            }
        }
        // (ii) scope-violating variants (only meaningful when the base is accepted)
        if !accepted {
            return;
        }
        if let Some(p2) = plant_self(&p, &mut rng) {
            let name2 = default_name(&p2);
            let text = print_with(&p2, &name2, &all_annot, None, None, None);
            st.count("scope_violation_tried:self-in-plain-field-after-method");
            st.add("compilations", 1);
            match sy::compile_str(&text) {
                sy::Compiled::Err { .. } => st.count("scope_violation_rejected:self-in-plain-field-after-method"),
                sy::Compiled::Ok(_) => st.violation(Violation { signature: "scope:accepted:self-in-plain-field-after-method".into(), hazard: None, case: index, detail: J::obj().with("text", J::s(text)) }),
                other => st.violation(Violation { signature: format!("scope:{}", other.brief()), hazard: None, case: index, detail: J::obj().with("text", J::s(text)) }),
            }
        }
        let plants = scope_plants(&p);
        if plants.is_empty() {
            return;
        }
        let tries = if ctx.tier == Tier::Quick { 4 } else { 6 };
        for _ in 0..tries {
            let pl = rng.pick(&plants).clone();
            let p2 = apply_plant(&p, &pl);
            let name2 = default_name(&p2);
            let text = print_with(&p2, &name2, &all_annot, None, None, None);
            let r = sy::compile_str(&text);
            st.count(&format!("scope_violation_tried:{}", pl.kind));
            st.add("compilations", 1);
            match r {
                sy::Compiled::Err { .. } => st.count(&format!("scope_violation_rejected:{}", pl.kind)),
                sy::Compiled::Ok(_) => {
                    let hazard = if pl.kind == "after-if-arm" || pl.kind == "after-case-arm" { Some("use_after_branch_scope".to_string()) } else { None };
                    st.violation(Violation {
                        signature: format!("scope:accepted:{}", pl.kind),
                        hazard,
                        case: index,
                        detail: J::obj().with("kind", J::s(pl.kind)).with("moved_use_of", J::s(name2(pl.binder))).with("text", J::s(text)),
                    });
                }
                other => {
                    st.violation(Violation { signature: format!("scope:{}", other.brief()), hazard: None, case: index, detail: J::obj().with("text", J::s(text)) });
                }
            }
        }
    }
    fn replay_witness(&self, _ctx: &Ctx, f: &Finding) -> Option<String> {
        if f.raw.get("witness_variants").is_some() {
            return replay_variants(f, false);
        }
        let text = f.raw.get("witness_text").and_then(|x| x.as_str())?;
        match sy::compile_str(text) {
            sy::Compiled::Ok(_) => Some(f.signature.trim_end_matches('*').to_string() + "witness"),
            _ => None,
        }
    }
    fn finish(&self, _ctx: &Ctx, st: &Stats) -> Finish {
        let ok = st.get("C09:all_variants_accepted_and_equal");
        let mut inconclusive = Vec::new();
        if ok * 10 < st.evaluations * 8 {
            inconclusive.push(format!("only {} of {} programs were accepted in all variants (<80%)", ok, st.evaluations));
        }
        for k in ["after-function", "after-if-arm", "after-case-arm", "after-loop", "after-block", "before-declaration"] {
            if st.get(&format!("scope_violation_tried:{}", k)) == 0 {
                inconclusive.push(format!("scope kind never exercised: {}", k));
            }
        }
        Finish {
            level: "exploration",
            rule: "(i) typed generated programs rendered with 4 consistent namings of every binder (distinct; two maximal-legal-shadowing colourings over a 20-name pool incl. std names for locals; long names): acceptance and Lua bytes must agree. (ii) variants where one use of a local binder is planted outside its declaring scope (after the function / if-arm / case-arm / loop / block, or before the declaration) must be rejected. Non-trivial: >= 2 names reused through shadowing; distinct by hash of the distinct-names text.".into(),
            extra: J::obj(),
            assumptions: vec![
                "shadowing colourings avoid naming a binder like a variable used in its own initialiser (whether `a := a + 1` sees the new `a` is not documented)".into(),
                "externals, fields, variants and type names are not renamed".into(),
            ],
            exhaustive: false,
            inconclusive,
        }
    }
}
