//! Typed program generator: "expression of type T in environment Γ" with a depth budget.
use crate::ast::*;
use crate::refsem::{self, Val, SENTINEL};
use crate::rng::Rng;
use std::collections::BTreeMap;

#[derive(Clone, Copy, Debug, PartialEq)]
pub enum Profile {
    General,
    /// recursion / closure dense (C10)
    Reentrant,
    /// many nested binders, shadowing opportunities (C09)
    Binders,
}

#[derive(Clone, Debug)]
pub struct Cfg {
    pub profile: Profile,
    pub expr_depth: u32,
    pub start_stmts: usize,
    /// hazard features that may be used (names of quarantined generator decisions)
    pub hazards: Vec<&'static str>,
}

impl Cfg {
    pub fn general(depth: u32) -> Cfg {
        Cfg { profile: Profile::General, expr_depth: depth, start_stmts: 10, hazards: Vec::new() }
    }
}

#[derive(Clone)]
struct FnInfo {
    b: BId,
    params: Vec<Ty>,
    ret: Ty,
    /// first parameter is recursion fuel
    recursive: bool,
    /// no prints, no writes, reads immutable globals only: may be called from a global initialiser
    effect_free: bool,
}

struct FnCtx {
    ret: Ty,
    in_loop: bool,
    self_blob: Option<usize>,
    /// inside the recursive function `b` with fuel parameter
    rec: Option<(BId, BId)>,
    pure: bool,
}

pub struct Gen<'r> {
    pub rng: &'r mut Rng,
    pub p: Program,
    cfg: Cfg,
    scopes: Vec<Vec<BId>>,
    globals: Vec<BId>,
    fns: Vec<FnInfo>,
    ctx: Vec<FnCtx>,
    n_asserts: u32,
    n_unreach: u32,
    /// while generating a global initialiser: no statements with effects
    no_effects: bool,
    /// when set, the values of if/case arms mention this (fuel) parameter, so they differ per activation
    arm_bias: Option<BId>,
    /// global functions printed as `pu`: never used as first-class values (a `pu` and an `fn` function
    /// do not unify in both directions, so mixing them in one if/case would be a type error)
    pu_globals: Vec<BId>,
    /// while the base case of a recursive function is generated the function must not call itself
    /// (it would never return, and nothing but an annotation would determine its return type)
    banned_call: Option<BId>,
}

const INT_POOL: &[i64] = &[0, 1, 2, 3, 4, 5, 7, 10, 12, 100, 255, 1000, 65536, 2147483647, 4294967296, 9007199254740993, 9223372036854775807];
const FLOAT_POOL: &[(f64, &str)] = &[
    (0.0, "0.0"),
    (0.5, "0.5"),
    (1.0, "1.0"),
    (1.5, "1.5"),
    (2.0, "2.0"),
    (2.25, "2.25"),
    (3.75, "3.75"),
    (10.0, "10.0"),
    (100.5, "100.5"),
    (0.1, "0.1"),
    (0.25, ".25"),
    (3.0, "3."),
    (100000.0, "1e5"),
    (0.001, "1e-3"),
    (1e15, "1e15"),
    (1e16, "1e16"),
    (123456.789, "123456.789"),
];
const STR_POOL: &[&str] = &["", "a", "b", "ab", "abc", "hello", "Z", "0", "x y", "äö", "10", "-", "nil", "true"];

impl<'r> Gen<'r> {
    pub fn new(rng: &'r mut Rng, cfg: Cfg) -> Self {
        Gen { rng, p: Program::default(), cfg, scopes: Vec::new(), globals: Vec::new(), fns: Vec::new(), ctx: Vec::new(), n_asserts: 0, n_unreach: 0, no_effects: false, arm_bias: None, pu_globals: Vec::new(), banned_call: None }
    }

    fn feat(&mut self, f: &'static str) {
        self.p.features.insert(f);
    }

    // ------------------------------------------------------------ types

    fn simple_ty(&mut self) -> Ty {
        match self.rng.weighted(&[5, 3, 3, 2]) {
            0 => Ty::Int,
            1 => Ty::Float,
            2 => Ty::Str,
            _ => Ty::Bool,
        }
    }

    fn value_ty(&mut self, depth: u32) -> Ty {
        if depth == 0 {
            return self.simple_ty();
        }
        let nb = self.p.blobs.len();
        let ne = self.p.enums.len();
        match self.rng.weighted(&[12, 3, 2, if nb > 0 { 2 } else { 0 }, if ne > 0 { 2 } else { 0 }, 1]) {
            0 => self.simple_ty(),
            1 => {
                let n = 1 + self.rng.below(3);
                if self.rng.chance(1, 4) {
                    // vectors of floats (the element-wise operators incl. division apply)
                    Ty::Tuple(vec![Ty::Float; n.max(2)])
                } else {
                    Ty::Tuple((0..n).map(|_| self.value_ty(depth - 1)).collect())
                }
            }
            2 => Ty::List(Box::new(self.value_ty(depth - 1))),
            3 => Ty::Blob(self.rng.below(nb)),
            4 => Ty::Enum(self.rng.below(ne)),
            _ => Ty::Maybe(Box::new(self.simple_ty())),
        }
    }

    // ------------------------------------------------------------ environment

    fn visible(&self) -> Vec<BId> {
        let mut v: Vec<BId> = self.globals.clone();
        for s in &self.scopes {
            v.extend(s.iter().copied());
        }
        v
    }

    fn vars_of(&self, ty: &Ty) -> Vec<BId> {
        let pure = self.ctx.last().map(|c| c.pure).unwrap_or(false);
        self.visible().into_iter().filter(|b| &self.p.binders[*b].ty == ty && !(pure && self.p.binders[*b].mutable) && !self.pu_globals.contains(b)).collect()
    }

    fn mutable_vars(&self) -> Vec<BId> {
        self.visible().into_iter().filter(|b| self.p.binders[*b].mutable).collect()
    }

    fn declare(&mut self, hint: &str, ty: Ty, mutable: bool, kind: BKind) -> BId {
        let b = self.p.new_binder(hint, ty, mutable, kind);
        if kind == BKind::Global {
            self.globals.push(b);
        } else {
            self.scopes.last_mut().expect("scope").push(b);
        }
        b
    }

    // ------------------------------------------------------------ literals

    fn literal(&mut self, ty: &Ty) -> Expr {
        match ty {
            Ty::Int => {
                let v = if self.rng.chance(3, 4) { self.rng.range(0, 12) } else { *self.rng.pick(INT_POOL) };
                if self.rng.chance(1, 8) {
                    Expr::Int(-v.min(i64::MAX))
                } else {
                    Expr::Int(v)
                }
            }
            Ty::Float => {
                let (v, t) = *self.rng.pick(FLOAT_POOL);
                Expr::Float(v, t.to_string())
            }
            Ty::Str => Expr::Str(self.rng.pick(STR_POOL).to_string()),
            Ty::Bool => Expr::Bool(self.rng.chance(1, 2)),
            Ty::Tuple(ts) => Expr::Tuple(ts.iter().map(|t| self.literal(t)).collect()),
            Ty::List(t) => {
                let n = 1 + self.rng.below(3);
                Expr::List((0..n).map(|_| self.literal(t)).collect(), (**t).clone())
            }
            Ty::Blob(b) => {
                let fields = self.p.blobs[*b].fields.clone();
                let fs = fields.iter().map(|(n, t)| (n.clone(), self.field_init(*b, t, 0))).collect();
                Expr::BlobNew { blob: *b, fields: fs }
            }
            Ty::Enum(e) => {
                let vs = self.p.enums[*e].variants.clone();
                let (n, t) = self.rng.pick(&vs).clone();
                Expr::Variant { en: EnumRef::User(*e), variant: n, payload: t.map(|t| Box::new(self.literal(&t))) }
            }
            Ty::Maybe(t) => {
                if self.rng.chance(2, 3) {
                    Expr::Variant { en: EnumRef::Maybe((**t).clone()), variant: "Just".into(), payload: Some(Box::new(self.literal(t))) }
                } else {
                    Expr::Variant { en: EnumRef::Maybe((**t).clone()), variant: "None".into(), payload: None }
                }
            }
            Ty::Fn(ps, r) => self.lambda_of(ps, r, 0),
            Ty::Void => Expr::StdCall { f: Std::Print, args: vec![Expr::Int(0)], site: self.p.site() },
        }
    }

    /// initialiser of a blob field (function fields use `self`)
    fn field_init(&mut self, blob: usize, t: &Ty, depth: u32) -> Expr {
        match t {
            Ty::Fn(ps, r) => {
                self.feat("blob_method_self");
                let params: Vec<BId> = Vec::new();
                let fid = self.p.fn_id();
                self.scopes.push(Vec::new());
                let mut params = params;
                for t in ps.iter() {
                    params.push(self.declare("a", t.clone(), false, BKind::Param));
                }
                self.ctx.push(FnCtx { ret: (**r).clone(), in_loop: false, self_blob: Some(blob), rec: None, pure: false });
                let mut body = Block::default();
                // mutate / read a field through self
                let fields = self.p.blobs[blob].fields.clone();
                let data: Vec<&(String, Ty)> = fields.iter().filter(|(_, t)| matches!(t, Ty::Int | Ty::Float | Ty::Str)).collect();
                if !data.is_empty() && self.rng.chance(2, 3) {
                    let (fname, fty) = (*self.rng.pick(&data)).clone();
                    let v = self.expr(&fty, 1);
                    body.stmts.push(Stmt::Assign { target: LValue::Field(Box::new(Expr::SelfRef(blob)), fname), op: AssignOp::Add, value: v });
                }
                if **r != Ty::Void {
                    body.value = Some(Box::new(self.expr(r, depth.max(1))));
                }
                self.ctx.pop();
                self.scopes.pop();
                Expr::Lambda(Box::new(FnDef { id: fid, params, ret: (**r).clone(), body, pure: false }))
            }
            other => {
                if depth > 0 {
                    self.expr(other, depth)
                } else {
                    self.literal(other)
                }
            }
        }
    }

    fn lambda_of(&mut self, ps: &[Ty], r: &Ty, depth: u32) -> Expr {
        self.feat("lambda");
        let fid = self.p.fn_id();
        self.scopes.push(Vec::new());
        let params: Vec<BId> = ps.iter().map(|t| self.declare("q", t.clone(), false, BKind::Param)).collect();
        let self_blob = self.ctx.last().and_then(|c| c.self_blob);
        self.ctx.push(FnCtx { ret: r.clone(), in_loop: false, self_blob, rec: None, pure: false });
        let mut body = Block::default();
        if self.rng.chance(1, 3) {
            if let Some(s) = self.simple_stmt(depth) {
                body.stmts.push(s);
            }
        }
        if *r != Ty::Void {
            body.value = Some(Box::new(self.expr(r, depth)));
        } else if let Some(s) = self.effect_stmt(depth) {
            body.stmts.push(s);
        }
        self.ctx.pop();
        self.scopes.pop();
        Expr::Lambda(Box::new(FnDef { id: fid, params, ret: r.clone(), body, pure: false }))
    }

    // ------------------------------------------------------------ expressions

    pub fn expr(&mut self, ty: &Ty, depth: u32) -> Expr {
        if depth == 0 {
            return self.leaf(ty);
        }
        let d = depth - 1;
        // generic alternatives available for every type
        let vars = self.vars_of(ty);
        let calls: Vec<FnInfo> = self.fns.iter().filter(|f| &f.ret == ty && (!self.no_effects || f.effect_free) && Some(f.b) != self.banned_call).cloned().collect();
        let generic = self.rng.weighted(&[
            6,                                        // type-specific
            if vars.is_empty() { 0 } else { 4 },      // variable
            if calls.is_empty() { 0 } else { 3 },     // call of a user function
            if *ty != Ty::Void { 2 } else { 0 },      // if-expression
            if !self.p.enums.is_empty() && *ty != Ty::Void { 1 } else { 0 }, // case-expression
            1,                                        // field / tuple index / list get
            1,                                        // literal
            if Self::pure_ty(ty) { if self.cfg.profile == Profile::Reentrant { 4 } else { 1 } } else { 0 }, // map / fold with a `pu` callback
        ]);
        match generic {
            7 => match self.hof_expr(ty, d) {
                Some(e) => e,
                None => self.specific(ty, d),
            },
            1 => Expr::Var(*self.rng.pick(&vars)),
            2 => {
                let f = self.rng.pick(&calls).clone();
                self.call_fn(&f, d)
            }
            3 => self.if_expr(ty, d),
            4 => self.case_expr(ty, d),
            5 => self.projection(ty, d),
            6 => self.literal(ty),
            _ => self.specific(ty, d),
        }
    }

    // ------------------------------------------------------------ higher-order library calls

    /// types a `pu` callback may take and produce
    fn pure_ty(t: &Ty) -> bool {
        match t {
            Ty::Int | Ty::Float | Ty::Str | Ty::Bool => true,
            Ty::Tuple(ts) => !ts.is_empty() && ts.iter().all(Self::pure_ty),
            Ty::List(t) => Self::pure_ty(t),
            _ => false,
        }
    }

    /// `map(l, pu x -> ..)` for list types, `fold(l, init, pu x, acc -> ..)` otherwise; the callbacks may
    /// themselves call map / fold (the library helpers are re-entered while an outer call is running)
    fn hof_expr(&mut self, ty: &Ty, depth: u32) -> Option<Expr> {
        let pure = self.ctx.last().map(|c| c.pure).unwrap_or(false);
        let lists: Vec<BId> = self
            .visible()
            .into_iter()
            .filter(|b| {
                let bd = &self.p.binders[*b];
                matches!(&bd.ty, Ty::List(t) if Self::pure_ty(t)) && !(pure && bd.mutable)
            })
            .collect();
        if lists.is_empty() {
            return None;
        }
        let l = *self.rng.pick(&lists);
        let elem = match &self.p.binders[l].ty {
            Ty::List(t) => (**t).clone(),
            _ => return None,
        };
        let site = self.p.site();
        // the list operand is a variable or itself the result of a `map` (so that a fold / map inside a
        // callback runs `map` again while the outer `map` is still collecting its results)
        let (src, elem) = if depth > 0 && self.rng.chance(if self.cfg.profile == Profile::Reentrant { 2 } else { 1 }, 3) {
            self.feat("map_result_as_list_operand");
            let t2 = self.simple_ty();
            let f = self.pure_lambda(&[elem], &t2, depth - 1);
            let s2 = self.p.site();
            (Expr::StdCall { f: Std::ListMap, args: vec![Expr::Var(l), f], site: s2 }, t2)
        } else {
            (Expr::Var(l), elem)
        };
        match ty {
            Ty::List(u) => {
                self.feat("map_with_pure_callback");
                let f = self.pure_lambda(&[elem], u, depth);
                Some(Expr::StdCall { f: Std::ListMap, args: vec![src, f], site })
            }
            _ => {
                self.feat("fold_with_pure_callback");
                let init = if pure { self.pure_expr(ty, 0) } else { self.leaf(ty) };
                let f = self.pure_lambda(&[elem, ty.clone()], ty, depth);
                Some(Expr::StdCall { f: Std::ListFold, args: vec![src, init, f], site })
            }
        }
    }

    fn pure_lambda(&mut self, ps: &[Ty], r: &Ty, depth: u32) -> Expr {
        let fid = self.p.fn_id();
        self.scopes.push(Vec::new());
        let params: Vec<BId> = ps.iter().map(|t| self.declare("h", t.clone(), false, BKind::Param)).collect();
        self.ctx.push(FnCtx { ret: r.clone(), in_loop: false, self_blob: None, rec: None, pure: true });
        let mut body = Block::default();
        body.value = Some(Box::new(self.pure_expr(r, depth.min(2))));
        self.ctx.pop();
        self.scopes.pop();
        Expr::Lambda(Box::new(FnDef { id: fid, params, ret: r.clone(), body, pure: true }))
    }

    /// expression valid inside a `pu` function: immutable variables, literals, operators, if-expressions,
    /// nested map / fold
    fn pure_expr(&mut self, ty: &Ty, depth: u32) -> Expr {
        let vars: Vec<BId> = self.vars_of(ty).into_iter().filter(|b| !self.p.binders[*b].mutable).collect();
        if depth == 0 {
            return if !vars.is_empty() && self.rng.chance(2, 3) { Expr::Var(*self.rng.pick(&vars)) } else { self.literal(ty) };
        }
        let d = depth - 1;
        if !vars.is_empty() && self.rng.chance(1, 4) {
            return Expr::Var(*self.rng.pick(&vars));
        }
        if self.rng.chance(if matches!(ty, Ty::List(_)) { 2 } else { 1 }, 5) {
            // nested higher-order call (ctx is pure here: only immutable lists are used)
            if let Some(e) = self.hof_expr(ty, d) {
                self.feat("nested_higher_order_call");
                return e;
            }
        }
        if self.rng.chance(1, 6) {
            let c = self.pure_expr(&Ty::Bool, d);
            let a = self.pure_expr(ty, d);
            let b = self.pure_expr(ty, d);
            return Expr::If { branches: vec![(c, Block { stmts: vec![], value: Some(Box::new(a)) })], els: Some(Block { stmts: vec![], value: Some(Box::new(b)) }) };
        }
        match ty {
            Ty::Int => {
                if self.rng.chance(1, 5) {
                    // products only with a small constant (folds would overflow otherwise)
                    let k = self.rng.range(2, 4);
                    Expr::Bin(BinOp::Mul, Box::new(self.pure_expr(ty, d)), Box::new(Expr::Int(k)))
                } else {
                    let op = *self.rng.pick(&[BinOp::Add, BinOp::Sub]);
                    Expr::Bin(op, Box::new(self.pure_expr(ty, d)), Box::new(self.pure_expr(ty, d)))
                }
            }
            Ty::Float => {
                let op = *self.rng.pick(&[BinOp::Add, BinOp::Sub]);
                Expr::Bin(op, Box::new(self.pure_expr(ty, d)), Box::new(self.pure_expr(ty, d)))
            }
            Ty::Str => Expr::Bin(BinOp::Add, Box::new(self.pure_expr(ty, d)), Box::new(self.pure_expr(ty, d))),
            Ty::Bool => match self.rng.below(3) {
                0 => {
                    let t = if self.rng.chance(1, 2) { Ty::Int } else { Ty::Str };
                    let op = *self.rng.pick(&[BinOp::Lt, BinOp::Le, BinOp::Eq, BinOp::Ne, BinOp::Gt]);
                    Expr::Bin(op, Box::new(self.pure_expr(&t, d)), Box::new(self.pure_expr(&t, d)))
                }
                1 => {
                    let op = *self.rng.pick(&[BinOp::And, BinOp::Or]);
                    Expr::Bin(op, Box::new(self.pure_expr(ty, d)), Box::new(self.pure_expr(ty, d)))
                }
                _ => Expr::Un(UnOp::Not, Box::new(self.pure_expr(ty, d))),
            },
            Ty::Tuple(ts) => Expr::Tuple(ts.iter().map(|t| self.pure_expr(t, d)).collect()),
            Ty::List(t) => {
                let n = 1 + self.rng.below(2);
                Expr::List((0..n).map(|_| self.pure_expr(t, d)).collect(), (**t).clone())
            }
            _ => self.literal(ty),
        }
    }

    fn leaf(&mut self, ty: &Ty) -> Expr {
        let vars = self.vars_of(ty);
        if !vars.is_empty() && self.rng.chance(1, 2) {
            Expr::Var(*self.rng.pick(&vars))
        } else {
            self.literal(ty)
        }
    }

    fn call_fn(&mut self, f: &FnInfo, depth: u32) -> Expr {
        self.feat("call_user_fn");
        let mut args = Vec::new();
        // recursion fuel first
        let in_same = self.ctx.last().and_then(|c| c.rec).filter(|(b, _)| *b == f.b);
        for (i, t) in f.params.iter().enumerate() {
            if i == 0 && f.recursive {
                match in_same {
                    Some((_, fuel)) => {
                        self.feat("recursion");
                        args.push(Expr::Bin(BinOp::Sub, Box::new(Expr::Var(fuel)), Box::new(Expr::Int(1))))
                    }
                    None => args.push(Expr::Int(self.rng.range(0, 3))),
                }
            } else {
                args.push(self.expr(t, depth));
            }
        }
        let site = self.p.site();
        Expr::Call { callee: Box::new(Expr::Var(f.b)), args, site }
    }

    fn if_expr(&mut self, ty: &Ty, depth: u32) -> Expr {
        self.feat("if_expression");
        let n = 1 + self.rng.below(2);
        // one arm (any of them, also the else) is certain to yield the value; the others may leave the
        // function instead, now and then all of them do
        let anchor = self.rng.below(n + 1);
        let all_others_leave = self.rng.chance(1, if self.arm_bias.is_some() { 3 } else { 25 });
        let mut branches = Vec::new();
        for i in 0..n {
            let c = self.expr(&Ty::Bool, depth);
            let b = self.value_block3(ty, depth, if i == anchor { 0 } else if all_others_leave { 2 } else { 1 });
            branches.push((c, b));
        }
        let els = Some(self.value_block3(ty, depth, if n == anchor { 0 } else if all_others_leave { 2 } else { 1 }));
        Expr::If { branches, els }
    }

    fn value_block(&mut self, ty: &Ty, depth: u32) -> Block {
        self.value_block2(ty, depth, false)
    }

    /// `may_diverge`: the arm may leave the function instead of yielding a value (some other arm has a value)
    fn value_block2(&mut self, ty: &Ty, depth: u32, may_diverge: bool) -> Block {
        self.value_block3(ty, depth, if may_diverge { 1 } else { 0 })
    }

    /// mode 0: yields a value; 1: leaves the function instead in 1 case of 40; 2: leaves the function (if it can)
    fn value_block3(&mut self, ty: &Ty, depth: u32, mode: u8) -> Block {
        if mode > 0 && !self.no_effects && self.ctx.len() >= 1 && !self.ctx.last().map(|c| c.pure).unwrap_or(false) && (mode == 2 || self.rng.chance(1, 40)) {
            let ret_ty = self.ctx.last().map(|c| c.ret.clone()).unwrap_or(Ty::Void);
            let in_fn = !self.scopes.is_empty();
            if in_fn {
                self.feat("diverging_arm_in_value_position");
                self.scopes.push(Vec::new());
                let mut b = Block::default();
                if self.rng.chance(1, 3) {
                    if let Some(s) = self.simple_stmt(depth) {
                        b.stmts.push(s);
                    }
                }
                if ret_ty == Ty::Void {
                    b.stmts.push(Stmt::Ret(None));
                } else {
                    let v = self.expr(&ret_ty, depth.min(1));
                    b.stmts.push(Stmt::Ret(Some(v)));
                }
                self.scopes.pop();
                return b;
            }
        }
        self.scopes.push(Vec::new());
        let mut b = Block::default();
        if self.rng.chance(1, 4) {
            if let Some(s) = self.simple_stmt(depth) {
                b.stmts.push(s);
            }
        }
        let mut v = self.expr(ty, depth);
        if let Some(fuel) = self.arm_bias {
            match ty {
                Ty::Int => v = Expr::Bin(BinOp::Add, Box::new(Expr::Bin(BinOp::Mul, Box::new(Expr::Var(fuel)), Box::new(Expr::Int(self.rng.range(2, 9))))), Box::new(v)),
                Ty::Str => {
                    let site = self.p.site();
                    v = Expr::Bin(BinOp::Add, Box::new(Expr::StdCall { f: Std::AsStr, args: vec![Expr::Var(fuel)], site }), Box::new(v))
                }
                _ => {}
            }
        }
        b.value = Some(Box::new(v));
        self.scopes.pop();
        b
    }

    fn enum_scrutinee(&mut self, depth: u32) -> (Expr, EnumRef) {
        // prefer variables of enum / maybe type
        let vis = self.visible();
        let cands: Vec<BId> = vis.into_iter().filter(|b| matches!(self.p.binders[*b].ty, Ty::Enum(_) | Ty::Maybe(_))).collect();
        let pure = self.ctx.last().map(|c| c.pure).unwrap_or(false);
        let cands: Vec<BId> = cands.into_iter().filter(|b| !(pure && self.p.binders[*b].mutable)).collect();
        if !cands.is_empty() && self.rng.chance(2, 3) {
            let b = *self.rng.pick(&cands);
            let en = match &self.p.binders[b].ty {
                Ty::Enum(e) => EnumRef::User(*e),
                Ty::Maybe(t) => EnumRef::Maybe((**t).clone()),
                _ => unreachable!(),
            };
            return (Expr::Var(b), en);
        }
        if self.p.enums.is_empty() || self.rng.chance(1, 4) {
            let t = self.simple_ty();
            let e = self.expr(&Ty::Maybe(Box::new(t.clone())), depth);
            (e, EnumRef::Maybe(t))
        } else {
            let e = self.rng.below(self.p.enums.len());
            (self.expr(&Ty::Enum(e), depth), EnumRef::User(e))
        }
    }

    fn case_expr(&mut self, ty: &Ty, depth: u32) -> Expr {
        self.feat("case_expression");
        let (scrut, en) = self.enum_scrutinee(depth);
        let variants = self.p.enum_variants(&en);
        let biased = self.arm_bias.is_some();
        let use_else = (self.rng.chance(1, 3) || (biased && self.rng.chance(1, 2))) && variants.len() > 1;
        let mut arms = Vec::new();
        let listed: Vec<(String, Option<Ty>)> = if use_else {
            let k = 1 + self.rng.below(variants.len() - 1);
            variants[..k].to_vec()
        } else {
            variants.clone()
        };
        let n_arms = listed.len() + if use_else { 1 } else { 0 };
        let anchor = if biased && use_else && self.rng.chance(1, 2) { n_arms - 1 } else { self.rng.below(n_arms) };
        let all_others_leave = self.rng.chance(1, if biased { 3 } else { 25 });
        let mode_of = |i: usize| if i == anchor { 0u8 } else if all_others_leave { 2 } else { 1 };
        for (vn, vt) in listed {
            self.scopes.push(Vec::new());
            let bind = match vt {
                Some(t) if self.rng.chance(3, 4) => {
                    self.feat("case_binding");
                    Some(self.declare("c", t, false, BKind::CaseBind))
                }
                _ => None,
            };
            let i = arms.len();
            let body = if *ty == Ty::Void { self.stmt_block(depth, 2) } else { self.value_block3(ty, depth, mode_of(i)) };
            self.scopes.pop();
            arms.push(CaseArm { variant: vn, bind, body });
        }
        let els = if use_else { Some(if *ty == Ty::Void { self.stmt_block(depth, 2) } else { self.value_block3(ty, depth, mode_of(n_arms - 1)) }) } else { None };
        Expr::Case { scrut: Box::new(scrut), en, arms, els }
    }

    fn projection(&mut self, ty: &Ty, depth: u32) -> Expr {
        let vis = self.visible();
        let pure = self.ctx.last().map(|c| c.pure).unwrap_or(false);
        let mut cands: Vec<Expr> = Vec::new();
        for b in vis {
            if pure && self.p.binders[b].mutable {
                continue;
            }
            match &self.p.binders[b].ty {
                Ty::Blob(bl) => {
                    for (f, t) in &self.p.blobs[*bl].fields {
                        if t == ty {
                            cands.push(Expr::Field(Box::new(Expr::Var(b)), f.clone()));
                        }
                    }
                }
                Ty::Tuple(ts) => {
                    for (i, t) in ts.iter().enumerate() {
                        if t == ty {
                            cands.push(Expr::TupleIndex(Box::new(Expr::Var(b)), i));
                        }
                    }
                }
                _ => {}
            }
        }
        if let Some(sb) = self.ctx.last().and_then(|c| c.self_blob) {
            for (f, t) in &self.p.blobs[sb].fields {
                if t == ty {
                    cands.push(Expr::Field(Box::new(Expr::SelfRef(sb)), f.clone()));
                }
            }
        }
        if !cands.is_empty() {
            self.feat("projection");
            return self.rng.pick(&cands).clone();
        }
        self.specific(ty, depth)
    }

    fn specific(&mut self, ty: &Ty, d: u32) -> Expr {
        match ty {
            Ty::Int => match self.rng.weighted(&[5, 1, 1, 1]) {
                0 => {
                    let op = *self.rng.pick(&[BinOp::Add, BinOp::Sub, BinOp::Mul]);
                    self.feat("int_arith");
                    Expr::Bin(op, Box::new(self.expr(&Ty::Int, d)), Box::new(self.expr(&Ty::Int, d)))
                }
                1 => Expr::Un(UnOp::Neg, Box::new(self.expr(&Ty::Int, d))),
                2 => {
                    let lists: Vec<BId> = self.visible().into_iter().filter(|b| matches!(self.p.binders[*b].ty, Ty::List(_))).collect();
                    let pure = self.ctx.last().map(|c| c.pure).unwrap_or(false);
                    let lists: Vec<BId> = lists.into_iter().filter(|b| !(pure && self.p.binders[*b].mutable)).collect();
                    if lists.is_empty() {
                        self.literal(ty)
                    } else {
                        self.feat("list_len");
                        let site = self.p.site();
                        Expr::StdCall { f: Std::ListLen, args: vec![Expr::Var(*self.rng.pick(&lists))], site }
                    }
                }
                _ => self.literal(ty),
            },
            Ty::Float => match self.rng.weighted(&[5, 2, 1, 1]) {
                0 => {
                    let op = *self.rng.pick(&[BinOp::Add, BinOp::Sub, BinOp::Mul, BinOp::Div]);
                    self.feat("float_arith");
                    Expr::Bin(op, Box::new(self.expr(&Ty::Float, d)), Box::new(self.expr(&Ty::Float, d)))
                }
                1 => {
                    self.feat("int_division");
                    Expr::Bin(BinOp::Div, Box::new(self.expr(&Ty::Int, d)), Box::new(self.expr(&Ty::Int, d)))
                }
                2 => Expr::Un(UnOp::Neg, Box::new(self.expr(&Ty::Float, d))),
                _ => self.literal(ty),
            },
            Ty::Str => match self.rng.weighted(&[4, 2, 1]) {
                0 => {
                    self.feat("str_concat");
                    Expr::Bin(BinOp::Add, Box::new(self.expr(&Ty::Str, d)), Box::new(self.expr(&Ty::Str, d)))
                }
                1 => {
                    self.feat("as_str");
                    let t = if self.rng.chance(1, 2) { Ty::Int } else { Ty::Bool };
                    let site = self.p.site();
                    Expr::StdCall { f: Std::AsStr, args: vec![self.expr(&t, d)], site }
                }
                _ => self.literal(ty),
            },
            Ty::Bool => match self.rng.weighted(&[4, 3, 2, 2, 1]) {
                0 => {
                    let t = match self.rng.weighted(&[4, 2, 2, 1]) {
                        0 => Ty::Int,
                        1 => Ty::Float,
                        2 => Ty::Str,
                        _ => Ty::Tuple(vec![Ty::Int, self.simple_ord_ty()]),
                    };
                    if matches!(t, Ty::Tuple(_)) {
                        self.feat("tuple_ordering");
                    }
                    self.feat("ordering");
                    let op = *self.rng.pick(&[BinOp::Lt, BinOp::Le, BinOp::Gt, BinOp::Ge]);
                    Expr::Bin(op, Box::new(self.expr(&t, d)), Box::new(self.expr(&t, d)))
                }
                1 => {
                    let t = self.value_ty(1);
                    let t = if t.comparable(&self.p) { t } else { Ty::Int };
                    self.feat("equality");
                    if !matches!(t, Ty::Int | Ty::Float | Ty::Str | Ty::Bool) {
                        self.feat("structural_equality");
                    }
                    let op = *self.rng.pick(&[BinOp::Eq, BinOp::Ne]);
                    Expr::Bin(op, Box::new(self.expr(&t, d)), Box::new(self.expr(&t, d)))
                }
                2 => {
                    self.feat("and");
                    Expr::Bin(BinOp::And, Box::new(self.expr(&Ty::Bool, d)), Box::new(self.expr(&Ty::Bool, d)))
                }
                3 => {
                    self.feat("or");
                    Expr::Bin(BinOp::Or, Box::new(self.expr(&Ty::Bool, d)), Box::new(self.expr(&Ty::Bool, d)))
                }
                _ => Expr::Un(UnOp::Not, Box::new(self.expr(&Ty::Bool, d))),
            },
            Ty::Tuple(ts) => {
                let numeric = !ts.is_empty() && (ts.iter().all(|t| *t == Ty::Int) || ts.iter().all(|t| *t == Ty::Float));
                let all_float = !ts.is_empty() && ts.iter().all(|t| *t == Ty::Float);
                if all_float && self.rng.chance(1, 4) {
                    // element-wise division: tuple / tuple and tuple / number (floats keep their type)
                    self.feat("tuple_division");
                    if self.rng.chance(1, 2) {
                        Expr::Bin(BinOp::Div, Box::new(self.expr(ty, d)), Box::new(self.expr(ty, d)))
                    } else {
                        Expr::Bin(BinOp::Div, Box::new(self.expr(ty, d)), Box::new(self.expr(&Ty::Float, d)))
                    }
                } else if numeric && self.rng.chance(1, 2) {
                    self.feat("tuple_arith");
                    let op = *self.rng.pick(&[BinOp::Add, BinOp::Sub, BinOp::Mul]);
                    Expr::Bin(op, Box::new(self.expr(ty, d)), Box::new(self.expr(ty, d)))
                } else {
                    self.feat("tuple_literal");
                    Expr::Tuple(ts.iter().map(|t| self.expr(t, d)).collect())
                }
            }
            Ty::List(t) => {
                self.feat("list_literal");
                let n = 1 + self.rng.below(3);
                Expr::List((0..n).map(|_| self.expr(t, d)).collect(), (**t).clone())
            }
            Ty::Blob(b) => {
                self.feat("blob_literal");
                let fields = self.p.blobs[*b].fields.clone();
                // initialisers are written (and evaluated) in an order of their own, not the declaration's
                let mut order: Vec<usize> = (0..fields.len()).collect();
                if self.rng.chance(1, 2) {
                    self.rng.shuffle(&mut order);
                    self.feat("blob_literal_fields_reordered");
                }
                let fs = order.iter().map(|k| (fields[*k].0.clone(), self.field_init(*b, &fields[*k].1, d))).collect();
                Expr::BlobNew { blob: *b, fields: fs }
            }
            Ty::Enum(e) => {
                self.feat("variant");
                let vs = self.p.enums[*e].variants.clone();
                let (n, t) = self.rng.pick(&vs).clone();
                Expr::Variant { en: EnumRef::User(*e), variant: n, payload: t.map(|t| Box::new(self.expr(&t, d))) }
            }
            Ty::Maybe(t) => {
                let lists: Vec<BId> = self.vars_of(&Ty::List(t.clone()));
                if !lists.is_empty() && self.rng.chance(1, 2) {
                    self.feat("list_get");
                    let site = self.p.site();
                    Expr::StdCall { f: Std::ListGet, args: vec![Expr::Var(*self.rng.pick(&lists)), Expr::Int(self.rng.range(0, 3))], site }
                } else if self.rng.chance(3, 4) {
                    Expr::Variant { en: EnumRef::Maybe((**t).clone()), variant: "Just".into(), payload: Some(Box::new(self.expr(t, d))) }
                } else {
                    Expr::Variant { en: EnumRef::Maybe((**t).clone()), variant: "None".into(), payload: None }
                }
            }
            Ty::Fn(ps, r) => self.lambda_of(ps, r, d),
            Ty::Void => self.literal(ty),
        }
    }

    fn simple_ord_ty(&mut self) -> Ty {
        match self.rng.below(3) {
            0 => Ty::Int,
            1 => Ty::Str,
            _ => Ty::Float,
        }
    }

    // ------------------------------------------------------------ statements

    fn printable_expr(&mut self, depth: u32) -> Expr {
        // prefer printing variables in scope (observes state)
        let vis = self.visible();
        let pure = self.ctx.last().map(|c| c.pure).unwrap_or(false);
        let cands: Vec<BId> = vis.into_iter().filter(|b| self.p.binders[*b].ty.printable(&self.p) && !(pure && self.p.binders[*b].mutable)).collect();
        if !cands.is_empty() && self.rng.chance(1, 2) {
            return Expr::Var(*self.rng.pick(&cands));
        }
        let mut t = self.value_ty(1);
        if !t.printable(&self.p) {
            t = self.simple_ty();
        }
        self.expr(&t, depth)
    }

    fn print_stmt(&mut self, depth: u32) -> Stmt {
        let e = self.printable_expr(depth);
        let site = self.p.site();
        Stmt::Expr(Expr::StdCall { f: Std::Print, args: vec![e], site })
    }

    fn assert_stmt(&mut self, depth: u32) -> Stmt {
        self.feat("assert_eq");
        let mut t = self.value_ty(1);
        if !t.comparable(&self.p) || !t.printable(&self.p) {
            t = self.simple_ty();
        }
        let e = self.expr(&t, depth);
        self.n_asserts += 1;
        Stmt::Expr(Expr::AssertEq(Box::new(e), Box::new(Expr::Str(format!("{}{}", SENTINEL, self.n_asserts)))))
    }

    /// a statement with an observable effect but no new binder
    fn effect_stmt(&mut self, depth: u32) -> Option<Stmt> {
        let pure = self.ctx.last().map(|c| c.pure).unwrap_or(false);
        if pure || self.no_effects {
            return None;
        }
        let muts = self.mutable_vars();
        match self.rng.weighted(&[4, if muts.is_empty() { 0 } else { 4 }, 2, 1]) {
            0 => Some(self.print_stmt(depth)),
            1 => {
                let b = *self.rng.pick(&muts);
                let ty = self.p.binders[b].ty.clone();
                Some(self.assign_to(LValue::Var(b), &ty, depth))
            }
            2 => self.mutate_container(depth),
            _ => Some(self.assert_stmt(depth)),
        }
    }

    fn assign_to(&mut self, target: LValue, ty: &Ty, depth: u32) -> Stmt {
        let ops: &[AssignOp] = match ty {
            Ty::Int => &[AssignOp::Set, AssignOp::Add, AssignOp::Sub, AssignOp::Mul],
            Ty::Float => &[AssignOp::Set, AssignOp::Add, AssignOp::Sub, AssignOp::Mul, AssignOp::Div],
            Ty::Str => &[AssignOp::Set, AssignOp::Add],
            _ => &[AssignOp::Set],
        };
        let op = *self.rng.pick(ops);
        if op != AssignOp::Set {
            self.feat("compound_assign");
        } else {
            self.feat("assign");
        }
        Stmt::Assign { target, op, value: self.expr(ty, depth) }
    }

    fn mutate_container(&mut self, depth: u32) -> Option<Stmt> {
        let vis = self.visible();
        let mut opts: Vec<Stmt> = Vec::new();
        for b in vis {
            match self.p.binders[b].ty.clone() {
                Ty::List(t) => {
                    let site = self.p.site();
                    let v = self.expr(&t, depth.min(1));
                    opts.push(Stmt::Expr(Expr::StdCall { f: Std::ListPush, args: vec![Expr::Var(b), v], site }));
                }
                Ty::Blob(bl) => {
                    let fields = self.p.blobs[bl].fields.clone();
                    for (f, t) in fields {
                        if matches!(t, Ty::Int | Ty::Float | Ty::Str | Ty::Bool) {
                            opts.push(self.assign_to(LValue::Field(Box::new(Expr::Var(b)), f.clone()), &t, depth.min(1)));
                        } else if let Ty::Fn(ps, r) = &t {
                            if **r == Ty::Void || self.rng.chance(1, 2) {
                                let args = ps.iter().map(|t| self.expr(t, depth.min(1))).collect();
                                let site = self.p.site();
                                let call = Expr::Call { callee: Box::new(Expr::Field(Box::new(Expr::Var(b)), f.clone())), args, site };
                                self.feat("method_call");
                                opts.push(Stmt::Expr(call));
                            }
                        }
                    }
                }
                _ => {}
            }
        }
        if opts.is_empty() {
            None
        } else {
            self.feat("container_mutation");
            let k = self.rng.below(opts.len());
            Some(opts.swap_remove(k))
        }
    }

    fn def_stmt(&mut self, depth: u32) -> Stmt {
        let pure = self.ctx.last().map(|c| c.pure).unwrap_or(false);
        let ty = self.value_ty(2);
        let mutable = !pure && self.rng.chance(1, 2);
        let init = self.expr(&ty, depth);
        let b = self.declare(if mutable { "m" } else { "k" }, ty, mutable, BKind::Local);
        self.feat(if mutable { "mutable_local" } else { "const_local" });
        Stmt::Def { b, init }
    }

    /// statement without nested blocks
    fn simple_stmt(&mut self, depth: u32) -> Option<Stmt> {
        match self.rng.weighted(&[3, 3]) {
            0 => Some(self.def_stmt(depth)),
            _ => self.effect_stmt(depth),
        }
    }

    fn closure_def(&mut self, depth: u32) -> Option<Vec<Stmt>> {
        // counter-style closure over a mutable local, defined and called
        let pure = self.ctx.last().map(|c| c.pure).unwrap_or(false);
        if pure || self.no_effects {
            return None;
        }
        self.feat("closure_over_mutable");
        let mut out = Vec::new();
        let muts: Vec<BId> = self.mutable_vars().into_iter().filter(|b| matches!(self.p.binders[*b].ty, Ty::Int | Ty::Str | Ty::Float) && self.p.binders[*b].kind != BKind::Global).collect();
        let target = if !muts.is_empty() && self.rng.chance(2, 3) {
            *self.rng.pick(&muts)
        } else {
            let init = self.literal(&Ty::Int);
            let b = self.declare("cnt", Ty::Int, true, BKind::Local);
            out.push(Stmt::Def { b, init });
            b
        };
        let tty = self.p.binders[target].ty.clone();
        let nparams = self.rng.below(2);
        let ps: Vec<Ty> = (0..nparams).map(|_| tty.clone()).collect();
        let ret = if self.rng.chance(1, 2) { tty.clone() } else { Ty::Void };
        let fid = self.p.fn_id();
        self.scopes.push(Vec::new());
        let params: Vec<BId> = ps.iter().map(|t| self.declare("d", t.clone(), false, BKind::Param)).collect();
        let self_blob = self.ctx.last().and_then(|c| c.self_blob);
        self.ctx.push(FnCtx { ret: ret.clone(), in_loop: false, self_blob, rec: None, pure: false });
        let mut body = Block::default();
        let delta = if let Some(p0) = params.first() { Expr::Var(*p0) } else { self.literal(&tty) };
        body.stmts.push(Stmt::Assign { target: LValue::Var(target), op: AssignOp::Add, value: delta });
        if ret != Ty::Void {
            body.value = Some(Box::new(Expr::Var(target)));
        }
        self.ctx.pop();
        self.scopes.pop();
        let fty = Ty::Fn(ps.clone(), Box::new(ret.clone()));
        let f = self.declare("clo", fty, false, BKind::Local);
        out.push(Stmt::Def { b: f, init: Expr::Lambda(Box::new(FnDef { id: fid, params, ret: ret.clone(), body, pure: false })) });
        // call it once or twice and observe
        for _ in 0..(1 + self.rng.below(2)) {
            let args = ps.iter().map(|t| self.expr(t, depth.min(1))).collect();
            let site = self.p.site();
            let call = Expr::Call { callee: Box::new(Expr::Var(f)), args, site };
            if ret != Ty::Void && self.rng.chance(1, 2) {
                let s2 = self.p.site();
                out.push(Stmt::Expr(Expr::StdCall { f: Std::Print, args: vec![call], site: s2 }));
            } else {
                out.push(Stmt::Expr(call));
            }
        }
        let s3 = self.p.site();
        out.push(Stmt::Expr(Expr::StdCall { f: Std::Print, args: vec![Expr::Var(target)], site: s3 }));
        Some(out)
    }

    /// a function-typed local whose initialiser is not a function literal: a read of another
    /// function (global, closure or parameter) or an if-expression choosing between two; called afterwards
    fn fn_alias(&mut self, depth: u32) -> Vec<Stmt> {
        let pure = self.ctx.last().map(|c| c.pure).unwrap_or(false);
        if pure || self.no_effects {
            return Vec::new();
        }
        let mut cands: Vec<BId> = self.fns.iter().filter(|f| !f.recursive && !self.pu_globals.contains(&f.b)).map(|f| f.b).collect();
        for b in self.visible() {
            let bd = &self.p.binders[b];
            if bd.kind != BKind::Global && !bd.mutable && matches!(bd.ty, Ty::Fn(..)) && !cands.contains(&b) {
                cands.push(b);
            }
        }
        if cands.is_empty() {
            return Vec::new();
        }
        self.feat("function_alias");
        let f = *self.rng.pick(&cands);
        let fty = self.p.binders[f].ty.clone();
        let (ps, ret) = match &fty {
            Ty::Fn(ps, r) => (ps.clone(), (**r).clone()),
            _ => return Vec::new(),
        };
        let same: Vec<BId> = cands.iter().copied().filter(|b| self.p.binders[*b].ty == fty).collect();
        let init = if same.len() >= 2 && self.rng.chance(1, 3) {
            self.feat("function_alias_through_if");
            let g = *self.rng.pick(&same);
            let c = self.expr(&Ty::Bool, depth.min(1));
            Expr::If { branches: vec![(c, Block { stmts: vec![], value: Some(Box::new(Expr::Var(f))) })], els: Some(Block { stmts: vec![], value: Some(Box::new(Expr::Var(g))) }) }
        } else {
            Expr::Var(f)
        };
        let mut out = Vec::new();
        let a = self.declare("al", fty, false, BKind::Local);
        out.push(Stmt::Def { b: a, init });
        for _ in 0..(1 + self.rng.below(2)) {
            let args = ps.iter().map(|t| self.expr(t, depth.min(1))).collect();
            let site = self.p.site();
            let call = Expr::Call { callee: Box::new(Expr::Var(a)), args, site };
            if ret != Ty::Void && ret.printable(&self.p) && self.rng.chance(2, 3) {
                let s2 = self.p.site();
                out.push(Stmt::Expr(Expr::StdCall { f: Std::Print, args: vec![call], site: s2 }));
            } else if ret == Ty::Void {
                out.push(Stmt::Expr(call));
            } else {
                let k = self.declare("k", ret.clone(), false, BKind::Local);
                out.push(Stmt::Def { b: k, init: call });
            }
        }
        out
    }

    /// `for_each(<fresh list>, fn x do .. end)`: the list is a literal or the result of a `map`, so the
    /// callback cannot modify the list being traversed (undefined for Lua's `pairs`)
    fn for_each_stmt(&mut self, depth: u32) -> Vec<Stmt> {
        let pure = self.ctx.last().map(|c| c.pure).unwrap_or(false);
        if pure || self.no_effects {
            return Vec::new();
        }
        self.feat("for_each");
        let t = self.simple_ty();
        let lt = Ty::List(Box::new(t.clone()));
        let list = match self.hof_expr(&lt, depth.min(1)) {
            Some(e) if self.rng.chance(1, 2) => e,
            _ => {
                let n = 1 + self.rng.below(3);
                Expr::List((0..n).map(|_| self.leaf(&t)).collect(), t.clone())
            }
        };
        let f = self.lambda_of(&[t], &Ty::Void, depth.min(1));
        let site = self.p.site();
        vec![Stmt::Expr(Expr::StdCall { f: Std::ForEach, args: vec![list, f], site })]
    }

    fn loop_stmt(&mut self, depth: u32) -> Vec<Stmt> {
        self.feat("loop");
        let mut out = Vec::new();
        let i = self.declare("i", Ty::Int, true, BKind::Local);
        out.push(Stmt::Def { b: i, init: Expr::Int(0) });
        let n = self.rng.range(1, 4);
        let cond_in_header = self.rng.chance(2, 3);
        let id = self.p.loop_id();
        self.scopes.push(Vec::new());
        let was = self.ctx.last().map(|c| c.in_loop).unwrap_or(false);
        if let Some(c) = self.ctx.last_mut() {
            c.in_loop = true;
        }
        let mut body = Block::default();
        if !cond_in_header {
            self.feat("loop_without_condition");
            body.stmts.push(Stmt::Expr(Expr::If {
                branches: vec![(Expr::Bin(BinOp::Ge, Box::new(Expr::Var(i)), Box::new(Expr::Int(n))), Block { stmts: vec![Stmt::Break], value: None })],
                els: None,
            }));
            self.feat("break");
        }
        body.stmts.push(Stmt::Assign { target: LValue::Var(i), op: AssignOp::Add, value: Expr::Int(1) });
        let k = 1 + self.rng.below(3);
        for _ in 0..k {
            match self.rng.weighted(&[5, 1, 1, 1]) {
                0 => body.stmts.extend(self.stmt(depth)),
                1 => {
                    self.feat("continue");
                    let c = self.expr(&Ty::Bool, depth.min(1));
                    body.stmts.push(Stmt::Expr(Expr::If { branches: vec![(c, Block { stmts: vec![Stmt::Continue], value: None })], els: None }));
                }
                2 => {
                    self.feat("break");
                    let c = self.expr(&Ty::Bool, depth.min(1));
                    body.stmts.push(Stmt::Expr(Expr::If { branches: vec![(c, Block { stmts: vec![Stmt::Break], value: None })], els: None }));
                }
                _ => {
                    // closure created per iteration capturing the iteration's variable
                    if let Some(v) = self.closure_def(depth.min(1)) {
                        self.feat("closure_in_loop");
                        body.stmts.extend(v);
                    }
                }
            }
        }
        self.neutral_tail(&mut body);
        if let Some(c) = self.ctx.last_mut() {
            c.in_loop = was;
        }
        self.scopes.pop();
        let cond = if cond_in_header { Some(Expr::Bin(BinOp::Lt, Box::new(Expr::Var(i)), Box::new(Expr::Int(n)))) } else { None };
        out.push(Stmt::Loop { id, cond, body });
        out
    }

    /// blocks whose trailing expression statement would be typed as the block's value get a neutral last statement
    fn neutral_tail(&mut self, b: &mut Block) {
        if b.value.is_none() {
            if let Some(Stmt::Expr(_)) = b.stmts.last() {
                let k = self.p.new_binder("u", Ty::Int, false, BKind::Local);
                b.stmts.push(Stmt::Def { b: k, init: Expr::Int(0) });
            }
        }
    }

    fn stmt_block(&mut self, depth: u32, max: usize) -> Block {
        self.scopes.push(Vec::new());
        let mut b = Block::default();
        let n = 1 + self.rng.below(max);
        for _ in 0..n {
            b.stmts.extend(self.stmt(depth));
        }
        // now and then the block is left in the middle: what follows is dead but ordinary code
        // (definitions of closures included) that still has to compile to loadable Lua
        let pure = self.ctx.last().map(|c| c.pure).unwrap_or(false);
        if !pure && !self.no_effects && !self.ctx.is_empty() && self.rng.chance(1, 20) {
            self.feat("dead_code_after_exit");
            let (in_loop, ret_ty) = self.ctx.last().map(|c| (c.in_loop, c.ret.clone())).unwrap_or((false, Ty::Void));
            let exit = if in_loop && self.rng.chance(1, 2) {
                if self.rng.chance(1, 2) {
                    Stmt::Break
                } else {
                    Stmt::Continue
                }
            } else if ret_ty == Ty::Void {
                Stmt::Ret(None)
            } else {
                Stmt::Ret(Some(self.expr(&ret_ty, 1)))
            };
            b.stmts.push(exit);
            let tail = if self.rng.chance(1, 2) { self.closure_def(0).unwrap_or_default() } else { self.stmt(depth.saturating_sub(1)) };
            b.stmts.extend(tail);
        }
        self.neutral_tail(&mut b);
        self.scopes.pop();
        b
    }

    fn if_stmt(&mut self, depth: u32) -> Stmt {
        self.feat("if_statement");
        let n = 1 + self.rng.below(2);
        let mut branches = Vec::new();
        for _ in 0..n {
            let c = self.expr(&Ty::Bool, depth);
            let mut b = self.stmt_block(depth.saturating_sub(1), 2);
            // early return from inside a branch
            let (can_ret, ret_ty) = match self.ctx.last() {
                Some(c) => (true, c.ret.clone()),
                None => (false, Ty::Void),
            };
            if can_ret && self.rng.chance(1, 6) {
                self.feat("early_ret");
                if ret_ty == Ty::Void {
                    b.stmts.push(Stmt::Ret(None));
                } else {
                    let v = self.expr(&ret_ty, 1);
                    b.stmts.push(Stmt::Ret(Some(v)));
                }
            }
            branches.push((c, b));
        }
        let els = if self.rng.chance(1, 2) { Some(self.stmt_block(depth.saturating_sub(1), 2)) } else { None };
        Stmt::Expr(Expr::If { branches, els })
    }

    pub fn stmt(&mut self, depth: u32) -> Vec<Stmt> {
        let d = depth;
        let nested = d > 0;
        let pure = self.ctx.last().map(|c| c.pure).unwrap_or(false) || self.no_effects;
        match self.rng.weighted(&[
            5,
            5,
            if nested { 3 } else { 0 },
            if nested && !pure { 2 } else { 0 },
            if nested && !self.p.enums.is_empty() { 2 } else { 0 },
            if nested && !pure { 2 } else { 0 },
            if nested { 1 } else { 0 },
            if self.n_unreach == 0 { 1 } else { 0 },
            if !pure { 1 } else { 0 },
        ]) {
            0 => vec![self.def_stmt(d)],
            1 => self.effect_stmt(d).into_iter().collect(),
            2 => vec![self.if_stmt(d)],
            3 => self.loop_stmt(d.saturating_sub(1)),
            4 => {
                self.feat("case_statement");
                vec![Stmt::Expr(self.case_expr(&Ty::Void, d.saturating_sub(1)))]
            }
            5 => self.closure_def(d.saturating_sub(1)).unwrap_or_default(),
            6 => {
                self.feat("block_statement");
                vec![Stmt::Block(self.stmt_block(d.saturating_sub(1), 3))]
            }
            8 => {
                let v = if self.rng.chance(1, 3) { self.for_each_stmt(d) } else { self.fn_alias(d) };
                if v.is_empty() {
                    vec![self.def_stmt(d)]
                } else {
                    v
                }
            }
            _ => {
                // guarded unreachable
                self.feat("unreachable");
                self.n_unreach += 1;
                let c = self.expr(&Ty::Bool, 1);
                vec![Stmt::Expr(Expr::If { branches: vec![(c, Block { stmts: vec![Stmt::Unreachable], value: None })], els: None })]
            }
        }
    }

    // ------------------------------------------------------------ top level

    fn gen_types(&mut self) {
        let nb = self.rng.below(3);
        for i in 0..nb {
            let nf = 1 + self.rng.below(3);
            let mut fields = Vec::new();
            for k in 0..nf {
                let t = match self.rng.weighted(&[6, 1, 1]) {
                    0 => self.simple_ty(),
                    1 => Ty::Tuple(vec![Ty::Int, Ty::Int]),
                    _ => Ty::List(Box::new(Ty::Int)),
                };
                // names that are NOT in alphabetical order when listed in declaration order
                fields.push((format!("{}{}", ["t", "g", "p", "b", "w", "d"][(k + i) % 6], k), t));
            }
            if self.rng.chance(1, 2) {
                let r = if self.rng.chance(1, 2) { Ty::Void } else { fields[0].1.clone() };
                let ps = if self.rng.chance(1, 2) { vec![Ty::Int] } else { vec![] };
                // the method may come before, between or after the data fields
                let at = self.rng.below(fields.len() + 1);
                fields.insert(at, (format!("{}{}", ["m", "a", "z"][i % 3], nf), Ty::Fn(ps, Box::new(r))));
            }
            self.p.blobs.push(BlobDecl { name: format!("Bl{}", i), fields });
            self.p.items.push(Item::Blob(i));
        }
        let ne = self.rng.below(3);
        for i in 0..ne {
            let nv = 1 + self.rng.below(3);
            let mut variants = Vec::new();
            for k in 0..nv {
                let t = match self.rng.weighted(&[3, 4, 1]) {
                    0 => None,
                    1 => Some(self.simple_ty()),
                    _ => Some(Ty::Tuple(vec![Ty::Int, Ty::Str])),
                };
                variants.push((format!("K{}", k), t));
            }
            self.p.enums.push(EnumDecl { name: format!("En{}", i), variants });
            self.p.items.push(Item::Enum(i));
        }
    }

    fn gen_globals(&mut self) {
        let n = self.rng.below(4);
        for _ in 0..n {
            let ty = self.value_ty(1);
            let mutable = self.rng.chance(1, 2);
            self.scopes.push(Vec::new());
            self.ctx.push(FnCtx { ret: Ty::Void, in_loop: false, self_blob: None, rec: None, pure: false });
            self.no_effects = true;
            let init = self.expr(&ty, 1);
            self.no_effects = false;
            self.ctx.pop();
            self.scopes.pop();
            let b = self.declare(if mutable { "gm" } else { "gk" }, ty, mutable, BKind::Global);
            self.feat(if mutable { "mutable_global" } else { "const_global" });
            self.p.items.push(Item::Global { b, init });
        }
    }

    /// a global function without effects (parameters and immutable globals only; printed as `fn` or `pu`)
    fn gen_pure_helper(&mut self) {
        let np = 1 + self.rng.below(2);
        let ptys: Vec<Ty> = (0..np).map(|_| self.simple_ty()).collect();
        let ret = {
            let t = self.value_ty(1);
            if Self::pure_ty(&t) {
                t
            } else {
                Ty::Int
            }
        };
        let fty = Ty::Fn(ptys.clone(), Box::new(ret.clone()));
        let fb = self.p.new_binder("pf", fty, false, BKind::Global);
        let fid = self.p.fn_id();
        self.scopes.push(Vec::new());
        let params: Vec<BId> = ptys.iter().map(|t| self.declare("a", t.clone(), false, BKind::Param)).collect();
        self.ctx.push(FnCtx { ret: ret.clone(), in_loop: false, self_blob: None, rec: None, pure: true });
        let mut body = Block::default();
        body.value = Some(Box::new(self.pure_expr(&ret, 2)));
        self.ctx.pop();
        self.scopes.pop();
        self.globals.push(fb);
        self.feat("effect_free_global_function");
        let as_pu = self.rng.chance(1, 2);
        if as_pu {
            self.pu_globals.push(fb);
        }
        self.fns.push(FnInfo { b: fb, params: ptys, ret: ret.clone(), recursive: false, effect_free: true });
        self.p.items.push(Item::Global { b: fb, init: Expr::Lambda(Box::new(FnDef { id: fid, params, ret, body, pure: as_pu })) });
    }

    /// globals whose initialisers call effect-free functions (which in turn read earlier globals)
    fn gen_late_globals(&mut self) {
        let helpers: Vec<FnInfo> = self.fns.iter().filter(|f| f.effect_free).cloned().collect();
        if helpers.is_empty() {
            return;
        }
        let n = 1 + self.rng.below(2);
        for _ in 0..n {
            let f = self.rng.pick(&helpers).clone();
            let mutable = self.rng.chance(1, 3);
            self.scopes.push(Vec::new());
            self.ctx.push(FnCtx { ret: Ty::Void, in_loop: false, self_blob: None, rec: None, pure: false });
            self.no_effects = true;
            let init = self.call_fn(&f, 1);
            self.no_effects = false;
            self.ctx.pop();
            self.scopes.pop();
            let b = self.declare(if mutable { "gm" } else { "gk" }, f.ret.clone(), mutable, BKind::Global);
            self.feat("global_initialised_through_function");
            self.p.items.push(Item::Global { b, init });
        }
    }

    fn gen_function(&mut self, depth: u32) {
        let recursive = self.rng.chance(match self.cfg.profile {
            Profile::Reentrant => 3,
            _ => 1,
        }, 4);
        let mut ptys = Vec::new();
        if recursive {
            ptys.push(Ty::Int);
        }
        for _ in 0..self.rng.below(3) {
            ptys.push(self.value_ty(1));
        }
        if self.rng.chance(1, 8) {
            // higher-order parameter
            ptys.push(Ty::Fn(vec![Ty::Int], Box::new(Ty::Int)));
            self.feat("function_parameter");
        }
        let ret = if self.rng.chance(1, 4) { Ty::Void } else { self.value_ty(1) };
        let fty = Ty::Fn(ptys.clone(), Box::new(ret.clone()));
        // declare first (so that the body can recurse)
        let fb = self.p.new_binder("fun", fty, false, BKind::Global);
        let fid = self.p.fn_id();
        self.scopes.push(Vec::new());
        let params: Vec<BId> = ptys.iter().map(|t| self.declare("p", t.clone(), false, BKind::Param)).collect();
        let rec = if recursive { Some((fb, params[0])) } else { None };
        if recursive {
            self.globals.push(fb);
            self.fns.push(FnInfo { b: fb, params: ptys.clone(), ret: ret.clone(), recursive, effect_free: false });
        }
        self.ctx.push(FnCtx { ret: ret.clone(), in_loop: false, self_blob: None, rec, pure: false });
        let mut body = Block::default();
        if recursive {
            // base case
            self.banned_call = Some(fb);
            let base: Vec<Stmt> = if ret == Ty::Void { vec![Stmt::Ret(None)] } else { vec![Stmt::Ret(Some(self.expr(&ret, 1)))] };
            self.banned_call = None;
            body.stmts.push(Stmt::Expr(Expr::If {
                branches: vec![(Expr::Bin(BinOp::Le, Box::new(Expr::Var(params[0])), Box::new(Expr::Int(0))), Block { stmts: base, value: None })],
                els: None,
            }));
            self.feat("early_ret");
        }
        let n = 1 + self.rng.below(4);
        for _ in 0..n {
            body.stmts.extend(self.stmt(depth));
        }
        if recursive && ret == Ty::Void {
            // make sure the recursive call happens
            let info = self.fns.iter().find(|f| f.b == fb).unwrap().clone();
            let c = self.call_fn(&info, 1);
            body.stmts.push(Stmt::Expr(c));
        }
        if ret != Ty::Void {
            let v = if recursive && self.rng.chance(2, 3) {
                let info = self.fns.iter().find(|f| f.b == fb).unwrap().clone();
                let call = self.call_fn(&info, 1);
                // combine the recursive result with something that is live across the call
                match &ret {
                    Ty::Int | Ty::Float | Ty::Str => {
                        self.feat("value_live_across_recursive_call");
                        // often the result of an if / case expression whose arm values depend on the
                        // fuel: a result variable shared between activations would be overwritten
                        let other = if ret != Ty::Float && self.rng.chance(2, 3) {
                            self.feat("arm_value_live_across_recursive_call");
                            self.arm_bias = Some(params[0]);
                            let e = if !self.p.enums.is_empty() && self.rng.chance(1, 2) { self.case_expr(&ret, depth.min(1)) } else { self.if_expr(&ret, depth.min(1)) };
                            self.arm_bias = None;
                            e
                        } else {
                            self.expr(&ret, depth)
                        };
                        if self.rng.chance(1, 2) {
                            Expr::Bin(BinOp::Add, Box::new(other), Box::new(call))
                        } else {
                            Expr::Bin(BinOp::Add, Box::new(call), Box::new(other))
                        }
                    }
                    _ => call,
                }
            } else {
                self.expr(&ret, depth)
            };
            body.value = Some(Box::new(v));
        }
        self.ctx.pop();
        self.scopes.pop();
        if !recursive {
            self.globals.push(fb);
            self.fns.push(FnInfo { b: fb, params: ptys, ret: ret.clone(), recursive, effect_free: false });
        }
        self.p.items.push(Item::Global { b: fb, init: Expr::Lambda(Box::new(FnDef { id: fid, params, ret, body, pure: false })) });
    }

    fn gen_start(&mut self, depth: u32) {
        let fb = self.p.new_binder("start", Ty::Fn(vec![], Box::new(Ty::Void)), false, BKind::Global);
        self.p.start = fb;
        let fid = self.p.fn_id();
        self.scopes.push(Vec::new());
        self.ctx.push(FnCtx { ret: Ty::Void, in_loop: false, self_blob: None, rec: None, pure: false });
        let mut body = Block::default();
        let n = self.cfg.start_stmts / 2 + self.rng.below(self.cfg.start_stmts);
        for _ in 0..n {
            body.stmts.extend(self.stmt(depth));
        }
        // observe every printable variable still in scope at the end
        let vis: Vec<BId> = self.scopes.last().unwrap().clone();
        for b in vis.into_iter().chain(self.globals.clone().into_iter()) {
            if self.p.binders[b].ty.printable(&self.p) {
                let site = self.p.site();
                body.stmts.push(Stmt::Expr(Expr::StdCall { f: Std::Print, args: vec![Expr::Var(b)], site }));
            }
        }
        self.ctx.pop();
        self.scopes.pop();
        self.p.items.push(Item::Global { b: fb, init: Expr::Lambda(Box::new(FnDef { id: fid, params: vec![], ret: Ty::Void, body, pure: false })) });
    }

    pub fn program(mut self) -> Program {
        let depth = self.cfg.expr_depth;
        self.gen_types();
        self.gen_globals();
        for _ in 0..self.rng.below(3) {
            self.gen_pure_helper();
        }
        self.gen_late_globals();
        let nf = match self.cfg.profile {
            Profile::Reentrant => 2 + self.rng.below(3),
            _ => self.rng.below(4),
        };
        for _ in 0..nf {
            self.gen_function(depth.min(3));
        }
        self.gen_start(depth);
        let mut p = self.p;
        patch_asserts(&mut p);
        p
    }
}

// ---------------------------------------------------------------- assert patching

fn val_to_literal(v: &Val, lists: &Vec<Vec<Val>>) -> Option<Expr> {
    Some(match v {
        Val::Int(i) => Expr::Int(*i),
        Val::Float(f) => {
            let t = format!("{:?}", f);
            if t.contains('e') || t.contains("inf") || t.contains("NaN") || *f < 0.0 || f.is_sign_negative() {
                return None;
            }
            Expr::Float(*f, t)
        }
        Val::Str(s) => {
            if s.contains('"') || s.contains('\\') || s.contains('\n') {
                return None;
            }
            Expr::Str(s.to_string())
        }
        Val::Bool(b) => Expr::Bool(*b),
        Val::Tuple(xs) => {
            let mut out = Vec::new();
            for x in xs.iter() {
                out.push(val_to_literal(x, lists)?);
            }
            Expr::Tuple(out)
        }
        Val::List(l) => {
            let mut out = Vec::new();
            for x in lists[*l].iter() {
                out.push(val_to_literal(x, lists)?);
            }
            if out.is_empty() {
                return None;
            }
            Expr::List(out, Ty::Int)
        }
        _ => return None,
    })
}

pub fn map_exprs_program(p: &mut Program, f: &mut dyn FnMut(&mut Expr)) {
    let mut items = std::mem::take(&mut p.items);
    for it in items.iter_mut() {
        if let Item::Global { init, .. } = it {
            map_expr(init, f);
        }
    }
    p.items = items;
}

pub fn map_block(b: &mut Block, f: &mut dyn FnMut(&mut Expr)) {
    for s in b.stmts.iter_mut() {
        map_stmt(s, f);
    }
    if let Some(v) = b.value.as_mut() {
        map_expr(v, f);
    }
}

pub fn map_stmt(s: &mut Stmt, f: &mut dyn FnMut(&mut Expr)) {
    match s {
        Stmt::Def { init, .. } => map_expr(init, f),
        Stmt::Assign { target, value, .. } => {
            if let LValue::Field(e, _) = target {
                map_expr(e, f);
            }
            map_expr(value, f);
        }
        Stmt::Loop { cond, body, .. } => {
            if let Some(c) = cond {
                map_expr(c, f);
            }
            map_block(body, f);
        }
        Stmt::Ret(Some(e)) | Stmt::Expr(e) => map_expr(e, f),
        Stmt::Block(b) => map_block(b, f),
        _ => {}
    }
}

pub fn map_expr(e: &mut Expr, f: &mut dyn FnMut(&mut Expr)) {
    match e {
        Expr::Bin(_, a, b) | Expr::AssertEq(a, b) => {
            map_expr(a, f);
            map_expr(b, f);
        }
        Expr::Un(_, a) | Expr::Field(a, _) | Expr::TupleIndex(a, _) => map_expr(a, f),
        Expr::Call { callee, args, .. } => {
            map_expr(callee, f);
            for a in args {
                map_expr(a, f);
            }
        }
        Expr::StdCall { args, .. } => {
            for a in args {
                map_expr(a, f);
            }
        }
        Expr::If { branches, els } => {
            for (c, b) in branches {
                map_expr(c, f);
                map_block(b, f);
            }
            if let Some(b) = els {
                map_block(b, f);
            }
        }
        Expr::Case { scrut, arms, els, .. } => {
            map_expr(scrut, f);
            for a in arms {
                map_block(&mut a.body, f);
            }
            if let Some(b) = els {
                map_block(b, f);
            }
        }
        Expr::Tuple(xs) | Expr::List(xs, _) => {
            for x in xs {
                map_expr(x, f);
            }
        }
        Expr::BlobNew { fields, .. } => {
            for (_, x) in fields {
                map_expr(x, f);
            }
        }
        Expr::Variant { payload, .. } => {
            if let Some(p) = payload {
                map_expr(p, f);
            }
        }
        Expr::Lambda(fd) => map_block(&mut fd.body, f),
        _ => {}
    }
    f(e);
}

/// Replace assert sentinels by the literal the reference model computed (first execution),
/// or turn the assert into a print when the value has no literal form / was never reached.
pub fn patch_asserts(p: &mut Program) {
    let (rec, lists, _blobs): (BTreeMap<u32, Val>, _, _) = refsem::record_asserts(p, 30_000);
    let mut sites = p.n_sites;
    map_exprs_program(p, &mut |e: &mut Expr| {
        if let Expr::AssertEq(a, b) = e {
            if let Some(id) = refsem::assert_sentinel(b) {
                let lit = rec.get(&id).and_then(|v| val_to_literal(v, &lists));
                match lit {
                    Some(l) => **b = l,
                    None => {
                        sites += 1;
                        let inner = std::mem::replace(&mut **a, Expr::Int(0));
                        *e = Expr::StdCall { f: Std::Print, args: vec![inner], site: sites };
                    }
                }
            }
        }
    });
    p.n_sites = sites;
}

pub fn generate(rng: &mut Rng, cfg: Cfg) -> Program {
    Gen::new(rng, cfg).program()
}
