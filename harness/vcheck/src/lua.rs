//! Thin wrapper over luamon (stub until the interpreter is linked).
pub enum Simple {
    Prints(Vec<String>),
    Inconclusive(String),
    Failed(String),
}
pub fn run_simple(_lua: &str) -> Simple {
    Simple::Inconclusive("luamon-not-linked".into())
}

/// Lua 5.3 tostring of a float: "%.14g", plus ".0" when the result looks like an integer.
pub fn fmt_float(f: f64) -> String {
    if f.is_nan() {
        return if f.is_sign_negative() { "-nan".into() } else { "nan".into() };
    }
    if f.is_infinite() {
        return if f > 0.0 { "inf".into() } else { "-inf".into() };
    }
    let g = fmt_g(f, 14);
    if g.bytes().all(|c| c.is_ascii_digit() || c == b'-') {
        format!("{}.0", g)
    } else {
        g
    }
}

/// C's "%.{prec}g" for finite values.
pub fn fmt_g(f: f64, prec: usize) -> String {
    if f == 0.0 {
        return if f.is_sign_negative() { "-0".into() } else { "0".into() };
    }
    let e = format!("{:.*e}", prec - 1, f);
    let (mant, exp) = e.split_once('e').unwrap();
    let x: i32 = exp.parse().unwrap();
    if x < -4 || x >= prec as i32 {
        let mut m = mant.to_string();
        if m.contains('.') {
            while m.ends_with('0') {
                m.pop();
            }
            if m.ends_with('.') {
                m.pop();
            }
        }
        format!("{}e{}{:02}", m, if x < 0 { '-' } else { '+' }, x.abs())
    } else {
        let decimals = (prec as i32 - 1 - x).max(0) as usize;
        let mut s = format!("{:.*}", decimals, f);
        if s.contains('.') {
            while s.ends_with('0') {
                s.pop();
            }
            if s.ends_with('.') {
                s.pop();
            }
        }
        s
    }
}
