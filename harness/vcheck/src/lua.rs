//! Wrapper over luamon (the instrumented Lua 5.3-subset runtime).
pub use luamon::{Census, Counters, ErrClass, Event, LoadClass, LoadError, Outcome};

#[derive(Debug, Clone)]
pub enum Loaded {
    Ok(std::sync::Arc<luamon::Chunk>),
    /// the chunk is not a loadable Lua chunk
    Error { class: String, line: u32, msg: String },
    /// a limit count falls in the grey zone: no load verdict
    GreyZone(String),
}

pub fn load(lua: &str) -> Loaded {
    match luamon::load(lua) {
        Ok(c) => Loaded::Ok(std::sync::Arc::new(c)),
        Err(e) => match e.class {
            LoadClass::GreyZone { what, count } => Loaded::GreyZone(format!("{}={}", what, count)),
            LoadClass::Syntax => Loaded::Error { class: "syntax".into(), line: e.line, msg: e.msg },
            LoadClass::ReturnNotLast => Loaded::Error { class: "return-not-last".into(), line: e.line, msg: e.msg },
            LoadClass::BreakOutsideLoop => Loaded::Error { class: "break-outside-loop".into(), line: e.line, msg: e.msg },
            LoadClass::Goto => Loaded::Error { class: "goto".into(), line: e.line, msg: e.msg },
            LoadClass::Limit { what, count } => Loaded::Error { class: format!("limit-{}", what), line: e.line, msg: format!("{} ({})", e.msg, count) },
        },
    }
}

pub fn run_opts(monitors: bool) -> luamon::Options {
    luamon::Options { max_steps: 400_000, max_depth: 400, strict_arith: monitors, monitor_v: monitors, assert_adds_position: true, ..Default::default() }
}

pub fn run(chunk: &luamon::Chunk, monitors: bool) -> luamon::RunResult {
    luamon::run(chunk, &run_opts(monitors))
}

pub fn class_name(c: &ErrClass) -> String {
    match c {
        ErrClass::AssertFailed => "assert-failed".into(),
        ErrClass::Crash(m) => {
            if m.starts_with("Reached unreachable code") {
                "unreachable".into()
            } else {
                format!("crash:{}", m.chars().take(40).collect::<String>())
            }
        }
        ErrClass::PreambleAssert(m) => format!("preamble-assert:{}", m.chars().filter(|c| !c.is_ascii_digit()).take(40).collect::<String>()),
        ErrClass::Arith(t) => format!("arith-on-{}", t),
        ErrClass::Call(t) => format!("call-{}", t),
        ErrClass::Index(t) => format!("index-{}", t),
        ErrClass::Concat(t) => format!("concat-{}", t),
        ErrClass::Compare(a, b) => format!("compare-{}-{}", a, b),
        ErrClass::DivZero => "div-zero".into(),
        ErrClass::StackOverflow => "stack-overflow".into(),
        ErrClass::ErrorCall(m) => format!("error-call:{}", m.chars().take(30).collect::<String>()),
        ErrClass::Other(m) => format!("other:{}", m.chars().filter(|c| !c.is_ascii_digit()).take(40).collect::<String>()),
    }
}

#[derive(Debug)]
pub enum Simple {
    Prints(Vec<String>),
    Inconclusive(String),
    Failed(String),
}

/// load + run without monitors; used where only the printed values matter
pub fn run_simple(lua: &str) -> Simple {
    match load(lua) {
        Loaded::Ok(c) => {
            let r = run(&c, false);
            match r.outcome {
                Outcome::Ok => Simple::Prints(r.prints),
                Outcome::Budget(b) => Simple::Inconclusive(format!("budget-{}", b)),
                Outcome::Error(e) => Simple::Failed(class_name(&e.class)),
            }
        }
        Loaded::GreyZone(g) => Simple::Inconclusive(format!("grey-zone-{}", g)),
        Loaded::Error { class, .. } => Simple::Failed(format!("load-{}", class)),
    }
}

/// Lua 5.3 tostring of a float (shared with the reference model)
pub fn fmt_float(f: f64) -> String {
    luamon::tostring_number_f64(f)
}

/// Own "%.14g" implementation kept as a cross-check of luamon's (selftest compares them).
pub fn fmt_float_own(f: f64) -> String {
    if f.is_nan() {
        return if f.is_sign_negative() { "-nan".into() } else { "nan".into() };
    }
    if f.is_infinite() {
        return if f > 0.0 { "inf".into() } else { "-inf".into() };
    }
    let g = fmt_g(f, 14);
    if g.bytes().all(|c| c.is_ascii_digit() || c == b'-') {
        format!("{}.0", g)
    } else {
        g
    }
}

pub fn fmt_g(f: f64, prec: usize) -> String {
    if f == 0.0 {
        return if f.is_sign_negative() { "-0".into() } else { "0".into() };
    }
    let e = format!("{:.*e}", prec - 1, f);
    let (mant, exp) = e.split_once('e').unwrap();
    let x: i32 = exp.parse().unwrap();
    if x < -4 || x >= prec as i32 {
        let mut m = mant.to_string();
        if m.contains('.') {
            while m.ends_with('0') {
                m.pop();
            }
            if m.ends_with('.') {
                m.pop();
            }
        }
        format!("{}e{}{:02}", m, if x < 0 { '-' } else { '+' }, x.abs())
    } else {
        let decimals = (prec as i32 - 1 - x).max(0) as usize;
        let mut s = format!("{:.*}", decimals, f);
        if s.contains('.') {
            while s.ends_with('0') {
                s.pop();
            }
            if s.ends_with('.') {
                s.pop();
            }
        }
        s
    }
}
