//! C01 (compiled Lua behaves as the source denotes) and C10 (re-entrancy):
//! generated typed programs are compiled by the real compiler, the emitted Lua
//! is executed under luamon with monitors, and the observed trace is compared
//! with the reference interpreter's trace of the same abstract program.
use crate::ast::*;
use crate::fw::*;
use crate::gen::{self, Cfg, Profile};
use crate::json::J;
use crate::lua::{self, Loaded};
use crate::print;
use crate::refsem::{self, Outcome as RefOutcome};
use crate::rel::compile_budgeted;
use crate::rng::{hash64, Rng};
use crate::sy::{self, Compiled};

pub struct Traced {
    pub prop: &'static str,
}
pub static C01: Traced = Traced { prop: "C01" };
pub static C10: Traced = Traced { prop: "C10" };

#[derive(Debug)]
pub enum Verdict {
    /// judged and equal
    Agree,
    /// not judged (out of domain, budgets, grey zones, rejected by the compiler)
    Skipped(String),
    Violation { signature: String, detail: J },
}

pub struct Observed {
    pub verdict: Verdict,
    pub hazard: Option<String>,
    pub lua_counters: Option<lua::Counters>,
    pub events: Vec<lua::Event>,
    pub census: Option<lua::Census>,
    pub ref_result: Option<refsem::RunResult>,
    pub prints_compared: u64,
    pub lua_text: String,
}

fn outcome_name(o: &RefOutcome) -> String {
    match o {
        RefOutcome::Ok => "ok".into(),
        RefOutcome::AssertFailed => "assert-failed".into(),
        RefOutcome::Unreachable => "unreachable".into(),
        RefOutcome::OutOfDomain(s) => format!("out-of-domain:{}", s),
        RefOutcome::TagError(s) => format!("tag-error:{}", s),
        RefOutcome::Budget => "budget".into(),
    }
}

/// The full pipeline for one abstract program.
pub fn observe(p: &Program, text: &str, monitors: bool) -> Observed {
    let mut ob = Observed { verdict: Verdict::Agree, hazard: None, lua_counters: None, events: Vec::new(), census: None, ref_result: None, prints_compared: 0, lua_text: String::new() };
    let r = refsem::run_program(p, 60_000);
    let ref_out = r.outcome.clone();
    let ref_prints = r.prints.clone();
    if r.order_sensitive_field {
        ob.hazard = Some("order_sensitive_field_read".into());
    } else if r.order_sensitive_var {
        ob.hazard = Some("order_sensitive_variable_read".into());
    }
    ob.ref_result = Some(r);
    match &ref_out {
        RefOutcome::OutOfDomain(s) => {
            ob.verdict = Verdict::Skipped(format!("reference:out-of-domain:{}", s.split(':').next().unwrap_or("")));
            return ob;
        }
        RefOutcome::Budget => {
            ob.verdict = Verdict::Skipped("reference:budget".into());
            return ob;
        }
        RefOutcome::TagError(e) => {
            // our own generator produced an ill-typed program: harness problem, never a verdict on the compiler
            ob.verdict = Verdict::Skipped(format!("HARNESS:reference-tag-error:{}", e));
            return ob;
        }
        _ => {}
    }
    let compiled = compile_budgeted(text);
    let lua_text = match &compiled {
        Compiled::Ok(b) => String::from_utf8_lossy(b).to_string(),
        Compiled::Fuel => {
            ob.verdict = Verdict::Skipped("compile:budget".into());
            return ob;
        }
        Compiled::Err { errors, .. } => {
            ob.verdict = Verdict::Skipped(format!("compile:rejected:{}", errors.first().map(|e| e.display.lines().skip(1).take(2).collect::<Vec<_>>().join("|")).unwrap_or_default()));
            return ob;
        }
        Compiled::Panic { location, .. } => {
            ob.verdict = Verdict::Violation { signature: format!("compile:panic@{}", location), detail: J::obj().with("source", J::s(text)) };
            return ob;
        }
    };
    let chunk = match lua::load(&lua_text) {
        Loaded::Ok(c) => c,
        Loaded::GreyZone(g) => {
            ob.verdict = Verdict::Skipped(format!("load:grey-zone:{}", g.split('=').next().unwrap_or("")));
            return ob;
        }
        Loaded::Error { class, line, msg } => {
            ob.verdict = Verdict::Violation {
                signature: format!("load:{}", class),
                detail: J::obj().with("source", J::s(text)).with("lua_error", J::s(format!("line {}: {}", line, msg))).with("lua_line", J::s(lua_text.lines().nth(line.saturating_sub(1) as usize).unwrap_or("").to_string())),
            };
            return ob;
        }
    };
    ob.census = Some(chunk.census.clone());
    ob.lua_text = lua_text.clone();
    let rr = lua::run(&chunk, monitors);
    ob.lua_counters = Some(rr.counters.clone());
    ob.events = rr.events.clone();
    let lua_outcome = match &rr.outcome {
        lua::Outcome::Ok => "ok".to_string(),
        lua::Outcome::Budget(b) => {
            ob.verdict = Verdict::Skipped(format!("lua:budget-{}", b));
            return ob;
        }
        lua::Outcome::Error(e) => lua::class_name(&e.class),
    };
    // compare traces
    let n = ref_prints.len().min(rr.prints.len());
    ob.prints_compared = n as u64;
    let mut first_diff = None;
    for i in 0..n {
        if ref_prints[i] != rr.prints[i] {
            first_diff = Some(i);
            break;
        }
    }
    let detail = |what: &str| {
        let mut d = J::obj()
            .with("what", J::s(what))
            .with("source", J::s(text))
            .with("reference_outcome", J::s(outcome_name(&ref_out)))
            .with("lua_outcome", J::s(lua_outcome.clone()))
            .with("reference_prints", J::Arr(ref_prints.iter().take(60).map(|s| J::s(s.clone())).collect()))
            .with("lua_prints", J::Arr(rr.prints.iter().take(60).map(|s| J::s(s.clone())).collect()))
            .with("lua_user_part", J::s(sy::user_part(&lua_text).chars().take(6000).collect::<String>()));
        if let lua::Outcome::Error(e) = &rr.outcome {
            d.set("lua_error", J::s(format!("{} (line {}): {}", e.msg, e.line, lua_text.lines().nth(e.line.saturating_sub(1) as usize).unwrap_or("").trim())));
        }
        d
    };
    if let Some(i) = first_diff {
        ob.verdict = Verdict::Violation { signature: "trace:print-differs".into(), detail: detail(&format!("print #{}: reference {:?}, lua {:?}", i, ref_prints[i], rr.prints[i])) };
        return ob;
    }
    let ref_name = outcome_name(&ref_out);
    if ref_name != lua_outcome {
        let sig = match lua_outcome.as_str() {
            "ok" | "assert-failed" | "unreachable" => format!("trace:outcome:{}-vs-{}", ref_name, lua_outcome),
            other => format!("lua-error:{}", other),
        };
        ob.verdict = Verdict::Violation { signature: sig, detail: detail("terminal outcome differs") };
        return ob;
    }
    if ref_prints.len() != rr.prints.len() {
        ob.verdict = Verdict::Violation { signature: "trace:print-count-differs".into(), detail: detail(&format!("reference printed {} lines, lua {}", ref_prints.len(), rr.prints.len())) };
        return ob;
    }
    ob
}

/// The first CORPUS_SLOTS case indices of C01 replay the repository's own test programs
/// (tests/**/*.sy) under luamon with their `// error:` annotations as the oracle.
const CORPUS_SLOTS: u64 = 400;

/// The first HELD_SLOTS case indices of C10: a value read from a mutable variable is held while calls
/// that assign that variable run; the ONLY assignment of the variable sits in one of 12 syntactic
/// positions, written `=` or `+=`, the variable is a global or a captured local, and the held read is
/// used in 5 expression forms. Expected prints are known in closed form.
const HELD_SLOTS: u64 = 12 * 2 * 2 * 5;

fn held_value_case(index: u64, st: &mut Stats) {
    let pos = (index % 12) as usize;
    let form = ((index / 12) % 2) as usize;
    let captured = (index / 24) % 2 == 1;
    let read = ((index / 48) % 5) as usize;
    let assign = ["g = g + 1", "g += 1"][form];
    let pos_names = ["plain", "if-arm", "else-arm", "elif-arm", "case-arm", "case-else", "loop-body", "block", "closure", "method", "nested", "for_each-lambda"];
    let body = match pos {
        0 => "ASSIGN".to_string(),
        1 => "if true do\n    ASSIGN\nend".to_string(),
        2 => "if g < 0 do\n    print(0)\nelse do\n    ASSIGN\nend".to_string(),
        3 => "if g < 0 do\n    print(0)\nelif true do\n    ASSIGN\nend".to_string(),
        4 => "case E.A 1 do\n    A q ->\n        ASSIGN\n    end\n    B ->\n    end\nend".to_string(),
        5 => "case E.B do\n    A q ->\n        print(q)\n    end\n    else\n        ASSIGN\n    end\nend".to_string(),
        6 => "i := 0\nloop i < 1 do\n    i += 1\n    ASSIGN\nend".to_string(),
        7 => "do\n    ASSIGN\nend".to_string(),
        8 => "h :: fn do\n    ASSIGN\nend\nh()".to_string(),
        9 => "o :: Bq { f: fn do\n    ASSIGN\nend }\no.f()".to_string(),
        10 => "do\n    i := 0\n    loop i < 1 do\n        i += 1\n        if i > 0 do\n            ASSIGN\n        end\n    end\nend".to_string(),
        _ => "list.for_each([1], fn e do\n    ASSIGN\nend)".to_string(),
    }
    .replace("ASSIGN", assign);
    let (read_src, probe_value, side_calls) = match read {
        0 => ("g + side() + side()", "5", 2),
        1 => ("pair(g, side())", "50", 1),
        2 => ("(g, side())[0]", "5", 1),
        3 => ("k :: g\nside()\nk", "5", 1),
        _ => ("g * 1 + side()", "5", 1),
    };
    let indent = |t: &str, n: usize| t.lines().map(|l| format!("{}{}", " ".repeat(n), l)).collect::<Vec<_>>().join("\n");
    let decls = "E :: enum\n    A int,\n    B,\nend\n\nBq :: blob {\n    f: fn -> void,\n}\n\npair :: fn a: int, b: int -> int do\n    a * 10 + b\nend\n\n";
    let text = if captured {
        format!(
            "{}start :: fn do\n    g := 5\n    bump :: fn do\n{}\n    end\n    side :: fn -> int do\n        bump()\n        0\n    end\n    probe :: fn -> int do\n{}\n    end\n    print(probe())\n    print(g)\nend\n",
            decls,
            indent(&body, 8),
            indent(read_src, 8)
        )
    } else {
        format!(
            "{}g := 5\n\nbump :: fn do\n{}\nend\n\nside :: fn -> int do\n    bump()\n    0\nend\n\nprobe :: fn -> int do\n{}\nend\n\nstart :: fn do\n    print(probe())\n    print(g)\nend\n",
            decls,
            indent(&body, 4),
            indent(read_src, 4)
        )
    };
    let expect = vec![probe_value.to_string(), (5 + side_calls).to_string()];
    let what = format!("only assignment in {} ({}), {} variable, held read `{}`", pos_names[pos], assign, if captured { "captured local" } else { "global" }, read_src.replace("\n", " ; "));
    st.count("held_value_programs");
    st.count(&format!("held_value:position:{}", pos_names[pos]));
    let viol = |sig: &str, obs: String| Violation { signature: sig.to_string(), hazard: None, case: index, detail: J::obj().with("what", J::s(what.clone())).with("program", J::s(text.clone())).with("expected_prints", J::Arr(expect.iter().map(|e| J::s(e.clone())).collect())).with("observed", J::s(obs)) };
    match sy::compile_files(&sy::one_file(&text), "main.sy", &sy::CompileOpts { fuel: Some(crate::rel::CAMPAIGN_FUEL), ..Default::default() }) {
        sy::Compiled::Ok(b) => match lua::run_simple(&String::from_utf8_lossy(&b)) {
            lua::Simple::Prints(p) if p == expect => {
                st.count("held_value_programs_as_expected");
                st.nontrivial(hash64(text.as_bytes()));
            }
            lua::Simple::Prints(p) => st.violation(viol("held:value-changed-by-later-call", format!("{:?}", p))),
            other => st.violation(viol("held:run-failed", format!("{:?}", other).chars().take(300).collect())),
        },
        other => st.violation(viol("held:template-rejected", other.brief())),
    }
}

/// Held-callee family (C10): the function a call goes to is read from a mutable variable before the
/// arguments are evaluated; an argument's call re-binds the variable (the only assignment sits in one of
/// 12 syntactic positions, the variable is a global or a captured local), the pending call still goes to
/// the function that was read. 5 call forms.
const CALLEE_SLOTS: u64 = 12 * 2 * 5;

fn held_callee_case(index: u64, st: &mut Stats) {
    let pos = (index % 12) as usize;
    let captured = (index / 12) % 2 == 1;
    let read = ((index / 24) % 5) as usize;
    let pos_names = ["plain", "if-arm", "else-arm", "elif-arm", "case-arm", "case-else", "loop-body", "block", "closure", "method", "nested", "for_each-lambda"];
    let body = match pos {
        0 => "ASSIGN".to_string(),
        1 => "if true do\n    ASSIGN\nend".to_string(),
        2 => "if h(0) < 0 do\n    print(0)\nelse do\n    ASSIGN\nend".to_string(),
        3 => "if h(0) < 0 do\n    print(0)\nelif true do\n    ASSIGN\nend".to_string(),
        4 => "case E.A 1 do\n    A q ->\n        ASSIGN\n    end\n    B ->\n    end\nend".to_string(),
        5 => "case E.B do\n    A q ->\n        print(q)\n    end\n    else\n        ASSIGN\n    end\nend".to_string(),
        6 => "i := 0\nloop i < 1 do\n    i += 1\n    ASSIGN\nend".to_string(),
        7 => "do\n    ASSIGN\nend".to_string(),
        8 => "w :: fn do\n    ASSIGN\nend\nw()".to_string(),
        9 => "o :: Bq { f: fn do\n    ASSIGN\nend }\no.f()".to_string(),
        10 => "do\n    i := 0\n    loop i < 1 do\n        i += 1\n        if i > 0 do\n            ASSIGN\n        end\n    end\nend".to_string(),
        _ => "list.for_each([1], fn e do\n    ASSIGN\nend)".to_string(),
    }
    .replace("ASSIGN", "h = times");
    let read_src = ["h(side(2))", "h' side(2)", "side(2) -> h()", "k :: h\nside(2)\nk(2)", "(h, side(2))[0](2)"][read];
    let indent = |t: &str, n: usize| t.lines().map(|l| format!("{}{}", " ".repeat(n), l)).collect::<Vec<_>>().join("\n");
    let decls = "E :: enum\n    A int,\n    B,\nend\n\nBq :: blob {\n    f: fn -> void,\n}\n\ntimes :: fn n: int -> int do\n    n * 100\nend\n\n";
    let text = if captured {
        format!(
            "{}start :: fn do\n    h := fn n: int -> int do\n        n + 1\n    end\n    bump :: fn do\n{}\n    end\n    side :: fn n: int -> int do\n        bump()\n        n\n    end\n    probe :: fn -> int do\n{}\n    end\n    print(probe())\n    print(h(1))\nend\n",
            decls,
            indent(&body, 8),
            indent(read_src, 8)
        )
    } else {
        format!(
            "{}h := fn n: int -> int do\n    n + 1\nend\n\nbump :: fn do\n{}\nend\n\nside :: fn n: int -> int do\n    bump()\n    n\nend\n\nprobe :: fn -> int do\n{}\nend\n\nstart :: fn do\n    print(probe())\n    print(h(1))\nend\n",
            decls,
            indent(&body, 4),
            indent(read_src, 4)
        )
    };
    let expect = vec!["3".to_string(), "100".to_string()];
    let what = format!("only re-binding in {}, {} variable, call form `{}`", pos_names[pos], if captured { "captured local" } else { "global" }, read_src.replace("\n", " ; "));
    st.count("held_callee_programs");
    let viol = |sig: &str, obs: String| Violation { signature: sig.to_string(), hazard: None, case: index, detail: J::obj().with("what", J::s(what.clone())).with("program", J::s(text.clone())).with("expected_prints", J::Arr(expect.iter().map(|e| J::s(e.clone())).collect())).with("observed", J::s(obs)) };
    match sy::compile_files(&sy::one_file(&text), "main.sy", &sy::CompileOpts { fuel: Some(crate::rel::CAMPAIGN_FUEL), ..Default::default() }) {
        sy::Compiled::Ok(b) => match lua::run_simple(&String::from_utf8_lossy(&b)) {
            lua::Simple::Prints(p) if p == expect => {
                st.count("held_callee_programs_as_expected");
                st.nontrivial(hash64(text.as_bytes()));
            }
            lua::Simple::Prints(p) => st.violation(viol("held:callee-changed-by-argument-call", format!("{:?}", p))),
            other => st.violation(viol("held:callee-run-failed", format!("{:?}", other).chars().take(300).collect())),
        },
        other => st.violation(viol("held:callee-template-rejected", other.brief())),
    }
}

/// Fresh-literal family (C10): a literal that builds a mutable container (a list, alone or inside a tuple, a
/// nested tuple or a blob) is evaluated several times - by two calls, by loop iterations, by the activations of
/// a recursion, by two closures from one factory; each evaluation gives a container of its own, so what one
/// activation pushes is not seen by another. 6 literal shapes x 4 evaluation forms, closed-form expectation.
const FRESH_SLOTS: u64 = 6 * 4;

fn fresh_literal_case(index: u64, st: &mut Stats) {
    // (literal, accessor of the inner list, its initial length)
    let shapes: [(&str, &str, i64); 6] = [("[]", "v", 0), ("[1, 2]", "v", 2), ("(0, [])", "v[1]", 0), ("(\"hits\", [5])", "v[1]", 1), ("Box { l: [] }", "v.l", 0), ("(0, (1, []))", "v[1][1]", 0)];
    let (lit, acc, base) = shapes[(index % 6) as usize];
    let form = (index / 6) % 4;
    let decls = "Box :: blob {\n    l: [int],\n}\n\n";
    let (body, expect): (String, Vec<String>) = match form {
        0 => (
            format!("mk :: fn ->\n    {lit}\nend\n\nstart :: fn do\n    v := mk()\n    list.push({acc}, 7)\n    w := mk()\n    list.push({accw}, 8)\n    list.push({accw}, 9)\n    print(list.len({acc}))\n    print(list.len({accw}))\nend\n", lit = lit, acc = acc, accw = acc.replacen("v", "w", 1)),
            vec![(base + 1).to_string(), (base + 2).to_string()],
        ),
        1 => (
            format!("start :: fn do\n    i := 0\n    loop i < 3 do\n        i += 1\n        v := {lit}\n        list.push({acc}, i)\n        print(list.len({acc}))\n    end\nend\n", lit = lit, acc = acc),
            vec![(base + 1).to_string(); 3],
        ),
        2 => (
            format!("visit :: fn n: int -> int do\n    v := {lit}\n    list.push({acc}, n)\n    if n > 0 do\n        print(visit(n - 1))\n    end\n    list.len({acc})\nend\n\nstart :: fn do\n    print(visit(2))\nend\n", lit = lit, acc = acc),
            vec![(base + 1).to_string(); 3],
        ),
        _ => (
            format!("counter :: fn -> fn -> int do\n    v := {lit}\n    fn -> int do\n        list.push({acc}, 1)\n        list.len({acc})\n    end\nend\n\nstart :: fn do\n    a := counter()\n    b := counter()\n    print(a())\n    print(a())\n    print(b())\nend\n", lit = lit, acc = acc),
            vec![(base + 1).to_string(), (base + 2).to_string(), (base + 1).to_string()],
        ),
    };
    let text = format!("{}{}", decls, body);
    let what = format!("literal `{}` evaluated by {}", lit, ["two calls", "loop iterations", "the activations of a recursion", "two closures from one factory"][form as usize]);
    st.count("fresh_literal_programs");
    let viol = |sig: &str, obs: String| Violation { signature: sig.to_string(), hazard: None, case: index, detail: J::obj().with("what", J::s(what.clone())).with("program", J::s(text.clone())).with("expected_prints", J::Arr(expect.iter().map(|e| J::s(e.clone())).collect())).with("observed", J::s(obs)) };
    match sy::compile_files(&sy::one_file(&text), "main.sy", &sy::CompileOpts { fuel: Some(crate::rel::CAMPAIGN_FUEL), ..Default::default() }) {
        sy::Compiled::Ok(b) => match lua::run_simple(&String::from_utf8_lossy(&b)) {
            lua::Simple::Prints(p) if p == expect => {
                st.count("fresh_literal_programs_as_expected");
                st.nontrivial(hash64(text.as_bytes()));
            }
            lua::Simple::Prints(p) => st.violation(viol("held:literal-container-shared-between-evaluations", format!("{:?}", p))),
            other => st.violation(viol("held:fresh-literal-run-failed", format!("{:?}", other).chars().take(300).collect())),
        },
        other => st.violation(viol("held:fresh-literal-template-rejected", other.brief())),
    }
}

/// Shared-literal family (C10), the converse of the fresh-literal one: a container literal evaluated ONCE and bound
/// to a name is one container, however often and from wherever the name is read - also when the program text
/// reads the name exactly once (inside a closure, a loop body, a recursive function). 3 shapes x 3 contexts x {::, :=}.
const SHARED_SLOTS: u64 = 3 * 3 * 2;

fn shared_literal_case(index: u64, st: &mut Stats) {
    let shapes: [(&str, &str); 3] = [("[]", "seen"), ("(0, [])", "seen[1]"), ("Box { l: [] }", "seen.l")];
    let (lit, acc) = shapes[(index % 3) as usize];
    let ctx = (index / 3) % 3;
    let def = if (index / 9) % 2 == 0 { "::" } else { ":=" };
    let decls = "Box :: blob {\n    l: [int],\n}\n\n";
    let body = match ctx {
        0 => format!("counter :: fn -> fn int -> int do\n    seen {def} {lit}\n    fn x: int -> int do\n        l :: {acc}\n        list.push(l, x)\n        list.len(l)\n    end\nend\n\nstart :: fn do\n    c :: counter()\n    print(c(10))\n    print(c(20))\n    print(c(30))\nend\n", def = def, lit = lit, acc = acc),
        1 => format!("start :: fn do\n    seen {def} {lit}\n    i := 0\n    n := 0\n    loop i < 3 do\n        i += 1\n        l :: {acc}\n        list.push(l, i)\n        n = list.len(l)\n        print(n)\n    end\nend\n", def = def, lit = lit, acc = acc),
        _ => format!("seen {def} {lit}\n\nvisit :: fn n: int -> int do\n    l :: {acc}\n    list.push(l, n)\n    if n > 1 do\n        ret visit(n - 1)\n    end\n    list.len(l)\nend\n\nstart :: fn do\n    print(visit(3))\n    print(visit(2))\nend\n", def = def, lit = lit, acc = acc),
    };
    let expect: Vec<String> = match ctx {
        0 | 1 => vec!["1".into(), "2".into(), "3".into()],
        _ => vec!["3".into(), "5".into()],
    };
    let text = format!("{}{}", decls, body);
    let what = format!("`seen {} {}` read once in {}", def, lit, ["a closure called three times", "a loop body", "a recursive function"][ctx as usize]);
    st.count("shared_literal_programs");
    let viol = |sig: &str, obs: String| Violation { signature: sig.to_string(), hazard: None, case: index, detail: J::obj().with("what", J::s(what.clone())).with("program", J::s(text.clone())).with("expected_prints", J::Arr(expect.iter().map(|e| J::s(e.clone())).collect())).with("observed", J::s(obs)) };
    match sy::compile_files(&sy::one_file(&text), "main.sy", &sy::CompileOpts { fuel: Some(crate::rel::CAMPAIGN_FUEL), ..Default::default() }) {
        sy::Compiled::Ok(b) => match lua::run_simple(&String::from_utf8_lossy(&b)) {
            lua::Simple::Prints(p) if p == expect => {
                st.count("shared_literal_programs_as_expected");
                st.nontrivial(hash64(text.as_bytes()));
            }
            lua::Simple::Prints(p) => st.violation(viol("held:named-container-rebuilt-at-its-read", format!("{:?}", p))),
            other => st.violation(viol("held:shared-literal-run-failed", format!("{:?}", other).chars().take(300).collect())),
        },
        other => st.violation(viol("held:shared-literal-template-rejected", other.brief())),
    }
}

/// Expression-result family (C01): the value of an if / case / and / or expression is combined with the
/// result of a recursive call of the same function; each activation's expression value depends on its
/// argument, so the sum has a closed form. 12 expression shapes x value before / after the call.
const RESULT_SLOTS: u64 = 12 * 2;

fn expression_result_case(index: u64, st: &mut Stats) {
    let form = (index % 12) as usize;
    let call_first = (index / 12) % 2 == 1;
    // every shape evaluates to n * 10 for n >= 1
    let shapes: [(&str, &str); 12] = [
        ("if-expression, then-arm valued", "(if n > 0 do\n    n * 10\nelse do\n    0\nend)"),
        ("if-expression, else-arm valued", "(if n < 0 do\n    0\nelse do\n    n * 10\nend)"),
        ("if-expression, then-arm leaves", "(if n < 0 do\n    ret 0\nelse do\n    n * 10\nend)"),
        ("if-expression, else-arm leaves", "(if n > 0 do\n    n * 10\nelse do\n    ret 0\nend)"),
        ("elif chain, middle arm valued", "(if n < 0 do\n    ret 0\nelif n > 0 do\n    n * 10\nelse do\n    ret 0\nend)"),
        ("case-expression, pattern arm valued", "(case pick(n) do\n    A q -> q * 10 end\n    B -> 0 end\nend)"),
        ("case-expression, only the else arm valued", "(case other(n) do\n    A q -> ret 0 end\n    else n * 10 end\nend)"),
        ("case-expression, else arm leaves", "(case pick(n) do\n    A q -> q * 10 end\n    else ret 0 end\nend)"),
        ("and/or deciding an if-expression", "(if n > 0 and (n > 100 or true) do\n    n * 10\nelse do\n    0\nend)"),
        ("nested if inside a case arm", "(case pick(n) do\n    A q ->\n        if q > 0 do\n            q * 10\n        else do\n            ret 0\n        end\n    end\n    B -> 0 end\nend)"),
        ("block value", "(if true do\n    k :: n * 5\n    k + k\nelse do\n    0\nend)"),
        ("call result held", "ten(n)"),
    ];
    let (name, e) = shapes[form];
    let sum = if call_first { format!("total(n - 1) + {}", e) } else { format!("{} + total(n - 1)", e) };
    let ind = |t: &str, n: usize| t.lines().map(|l| format!("{}{}\n", " ".repeat(n), l)).collect::<String>();
    let text = format!(
        "E :: enum\n    A int,\n    B,\nend\n\npick :: fn n: int -> E do\n    E.A n\nend\n\nother :: fn n: int -> E do\n    E.B\nend\n\nten :: fn n: int -> int do\n    n * 10\nend\n\ntotal :: fn n: int -> int do\n    if n <= 0 do\n        ret 0\n    end\n{}end\n\nstart :: fn do\n    print(total(3))\n    print(total(1))\nend\n",
        ind(&sum, 4)
    );
    let expect = vec!["60".to_string(), "10".to_string()];
    st.count("expression_result_programs");
    let what = format!("{} {} the recursive call", name, if call_first { "after" } else { "before" });
    let viol = |sig: &str, obs: String| Violation { signature: sig.to_string(), hazard: None, case: index, detail: J::obj().with("what", J::s(what.clone())).with("program", J::s(text.clone())).with("expected_prints", J::Arr(expect.iter().map(|e| J::s(e.clone())).collect())).with("observed", J::s(obs)) };
    match sy::compile_files(&sy::one_file(&text), "main.sy", &sy::CompileOpts { fuel: Some(crate::rel::CAMPAIGN_FUEL), ..Default::default() }) {
        sy::Compiled::Ok(b) => match lua::run_simple(&String::from_utf8_lossy(&b)) {
            lua::Simple::Prints(p) if p == expect => {
                st.count("expression_result_programs_as_expected");
                st.nontrivial(hash64(text.as_bytes()));
            }
            lua::Simple::Prints(p) => st.violation(viol("trace:expression-result-across-recursion", format!("{:?}", p))),
            other => st.violation(viol("trace:expression-result-run-failed", format!("{:?}", other).chars().take(300).collect())),
        },
        other => st.violation(viol("trace:expression-result-template-rejected", other.brief())),
    }
}

/// String-literal family (C01): every ASCII byte a literal can hold (all but `"`, `\`, LF, CR - the quarantined
/// backslash/newline feature) stands in a literal directly before digits and letters; the running program must
/// print exactly the bytes that were written, also after a concatenation.
const STRING_SLOTS: u64 = 123;

fn string_literal_case(index: u64, st: &mut Stats) {
    let bytes: Vec<u8> = (1u8..=127).filter(|b| ![b'"', b'\\', b'\n', b'\r'].contains(b)).collect();
    let b = bytes[index as usize % bytes.len()] as char;
    let mut body = String::new();
    let mut expect = Vec::new();
    for (i, follow) in ["", "7", "42", "99", "255", "x41", "z", "u{41}", "n", "065", " 1"].iter().enumerate() {
        let lit = format!("{}{}{}", if i % 2 == 0 { "id" } else { "" }, b, follow);
        body.push_str(&format!("    w{} :: \"{}\"\n    print(w{})\n    print(w{} + \"9\")\n", i, lit, i, i));
        expect.push(lit.clone());
        expect.push(format!("{}9", lit));
    }
    let text = format!("start :: fn do\n{}end\n", body);
    st.count("string_literal_programs");
    let viol = |sig: &str, obs: String| Violation { signature: sig.to_string(), hazard: None, case: index, detail: J::obj().with("byte", J::Int(b as i64)).with("program", J::s(text.clone())).with("expected_prints", J::Arr(expect.iter().map(|e| J::s(e.clone())).collect())).with("observed", J::s(obs)) };
    match sy::compile_files(&sy::one_file(&text), "main.sy", &sy::CompileOpts { fuel: Some(crate::rel::CAMPAIGN_FUEL), ..Default::default() }) {
        sy::Compiled::Ok(bytes) => match lua::run_simple(&String::from_utf8_lossy(&bytes)) {
            lua::Simple::Prints(p) if p == expect => {
                st.count("string_literal_programs_as_expected");
                st.nontrivial(hash64(text.as_bytes()));
            }
            lua::Simple::Prints(p) => st.violation(viol("trace:string-literal-content", format!("{:?}", p))),
            other => st.violation(viol("trace:string-literal-run-failed", format!("{:?}", other).chars().take(300).collect())),
        },
        sy::Compiled::Err { .. } => st.count("string_literal_programs_rejected"),
        other => st.violation(viol("trace:string-literal-compile", other.brief())),
    }
}

/// Assignment-target family (C10): `x = <expression that calls a function reading x>`: the callee (also a
/// recursive activation of the assigning function) must see the OLD value of x - the target is written
/// only after the right-hand side has been evaluated. 8 right-hand-side forms x global / captured local.
const TARGET_SLOTS: u64 = 8 * 2;

fn assign_target_case(index: u64, st: &mut Stats) {
    let form = (index % 8) as usize;
    let captured = (index / 8) % 2 == 1;
    // (type, initial value, statement, expected final x)
    let (ty, init, stmt, expect_x) = match form {
        0 => ("bool", "true", "x = p and reader()", "true"),
        1 => ("bool", "false", "x = q or reader()", "false"),
        2 => ("int", "5", "x = reader() + 1", "6"),
        3 => ("int", "5", "x = if reader() > 0 do\n    reader() * 2\nelse do\n    0\nend", "10"),
        4 => ("int", "5", "x = (reader(), 1)[0] + 10", "15"),
        5 => ("int", "5", "x = -reader()", "-5"),
        6 => ("int", "5", "x += reader()", "10"),
        _ => ("bool", "true", "x = visit(2)", "true"),
    };
    let names = ["p and reader()", "q or reader()", "reader() + 1", "if-expression calling reader()", "tuple index of (reader(), 1)", "-reader()", "+= reader()", "recursive `x = n < 10 and visit(n - 1)`"];
    let ind = |t: &str, n: usize| t.lines().map(|l| format!("{}{}\n", " ".repeat(n), l)).collect::<String>();
    let fns = format!(
        "reader :: fn -> {ty} do\n    x\nend\n\nvisit :: fn n: int -> bool do\n    if n <= 0 do\n        ret flag\n    end\n    flag = n < 10 and visit(n - 1)\n    flag\nend\n",
        ty = ty
    );
    let text = if captured {
        format!(
            "start :: fn do\n    x: {ty} = {init}\n    flag := true\n    p := true\n    q := false\n{fns}{stmt}    print(x)\n    print(flag)\nend\n",
            ty = ty,
            init = init,
            fns = ind(&fns, 4),
            stmt = ind(stmt, 4)
        )
    } else {
        format!("x: {ty} = {init}\n\nflag := true\n\np := true\n\nq := false\n\n{fns}\nstart :: fn do\n{stmt}    print(x)\n    print(flag)\nend\n", ty = ty, init = init, fns = fns, stmt = ind(stmt, 4))
    };
    let expect = vec![expect_x.to_string(), "true".to_string()];
    let what = format!("right-hand side {}, {} variable", names[form], if captured { "captured local" } else { "global" });
    st.count("assign_target_programs");
    let viol = |sig: &str, obs: String| Violation { signature: sig.to_string(), hazard: None, case: index, detail: J::obj().with("what", J::s(what.clone())).with("program", J::s(text.clone())).with("expected_prints", J::Arr(expect.iter().map(|e| J::s(e.clone())).collect())).with("observed", J::s(obs)) };
    match sy::compile_files(&sy::one_file(&text), "main.sy", &sy::CompileOpts { fuel: Some(crate::rel::CAMPAIGN_FUEL), ..Default::default() }) {
        sy::Compiled::Ok(b) => match lua::run_simple(&String::from_utf8_lossy(&b)) {
            lua::Simple::Prints(p) if p == expect => {
                st.count("assign_target_programs_as_expected");
                st.nontrivial(hash64(text.as_bytes()));
            }
            lua::Simple::Prints(p) => st.violation(viol("target:written-before-the-right-hand-side-finished", format!("{:?}", p))),
            other => st.violation(viol("target:run-failed", format!("{:?}", other).chars().take(300).collect())),
        },
        other => st.violation(viol("target:template-rejected", other.brief())),
    }
}

/// Closure-capture family (C10): a closure reading a mutable variable is created in one of 7 expression
/// positions (often right after another read of the same variable in the same expression), its body reads
/// the variable in 4 forms, the variable is a local or a global and is changed afterwards by the creator
/// or through a sibling closure: the closure must see the new value (captured by reference).
const CAPTURE_SLOTS: u64 = 7 * 4 * 2 * 2;

fn capture_case(index: u64, st: &mut Stats) {
    let pos = (index % 7) as usize;
    let form = ((index / 7) % 4) as usize;
    let global = (index / 28) % 2 == 1;
    let sibling = (index / 56) % 2 == 1;
    let body = ["x", "ret x", "y :: x\ny", "x + 0"][form];
    let lam = |ind: usize| {
        let pad = " ".repeat(ind);
        format!("fn -> int do\n{}\n{}end", body.lines().map(|l| format!("{}    {}", pad, l)).collect::<Vec<_>>().join("\n"), pad)
    };
    let pos_names = ["definition", "blob field after a field reading the variable", "tuple element after an element reading the variable", "call argument after an argument reading the variable", "if-expression arm (condition reads the variable)", "returned through a function taking the closure", "list element then fold"];
    let create = match pos {
        0 => format!("g :: {}", lam(4)),
        1 => format!("h :: Holder {{ first: x, get: {} }}\n    g :: h.get", lam(4)),
        2 => format!("t :: (x, {})\n    g :: t[1]", lam(4)),
        3 => format!("g :: idf2(x, {})", lam(4)),
        4 => format!("g :: if x > 0 do\n        {}\n    else do\n        fn -> int do\n            0\n        end\n    end", lam(8)),
        5 => format!("g :: idf1({})", lam(4)),
        _ => format!("l :: [{}]\n    g :: fn -> int do\n        fold(l, 0, pu f, acc -> acc end)\n        x\n    end", lam(4)),
    };
    let change1 = if sibling { "inc()" } else { "x += 1" };
    let decls = "Holder :: blob {\n    first: int,\n    get: fn -> int,\n}\n\nidf2 :: fn a: int, f: fn -> int -> fn -> int do\n    f\nend\n\nidf1 :: fn f: fn -> int -> fn -> int do\n    f\nend\n\n";
    let text = format!(
        "{}{}start :: fn do\n{}    inc :: fn do\n        x += 1\n    end\n    {}\n    {}\n    print(g())\n    x = x + 5\n    print(g())\n    print(x)\nend\n",
        decls,
        if global { "x := 10\n\n" } else { "" },
        if global { "" } else { "    x := 10\n" },
        create,
        change1
    );
    let expect = vec!["11".to_string(), "16".to_string(), "16".to_string()];
    let what = format!("closure created as {}, body `{}`, {} variable, changed {}", pos_names[pos], body.replace('\n', " ; "), if global { "global" } else { "local" }, if sibling { "through a sibling closure" } else { "by the creator" });
    st.count("capture_programs");
    st.count(&format!("capture:position:{}", pos_names[pos]));
    let viol = |sig: &str, obs: String| Violation { signature: sig.to_string(), hazard: None, case: index, detail: J::obj().with("what", J::s(what.clone())).with("program", J::s(text.clone())).with("expected_prints", J::Arr(expect.iter().map(|e| J::s(e.clone())).collect())).with("observed", J::s(obs)) };
    match sy::compile_files(&sy::one_file(&text), "main.sy", &sy::CompileOpts { fuel: Some(crate::rel::CAMPAIGN_FUEL), ..Default::default() }) {
        sy::Compiled::Ok(b) => match lua::run_simple(&String::from_utf8_lossy(&b)) {
            lua::Simple::Prints(p) if p == expect => {
                st.count("capture_programs_as_expected");
                st.nontrivial(hash64(text.as_bytes()));
            }
            lua::Simple::Prints(p) => st.violation(viol("capture:closure-does-not-see-the-variable", format!("{:?}", p))),
            other => st.violation(viol("capture:run-failed", format!("{:?}", other).chars().take(300).collect())),
        },
        other => st.violation(viol("capture:template-rejected", other.brief())),
    }
}

fn corpus_files() -> &'static (Vec<String>, sy::Files) {
    static C: std::sync::OnceLock<(Vec<String>, sy::Files)> = std::sync::OnceLock::new();
    C.get_or_init(|| {
        let mut files = sy::Files::new();
        fn walk(dir: &std::path::Path, out: &mut sy::Files) {
            let Ok(rd) = std::fs::read_dir(dir) else { return };
            let mut es: Vec<_> = rd.flatten().map(|e| e.path()).collect();
            es.sort();
            for p in es {
                if p.is_dir() {
                    walk(&p, out);
                } else if p.extension().map(|e| e == "sy").unwrap_or(false) {
                    if let Ok(t) = std::fs::read_to_string(&p) {
                        out.insert(p.display().to_string(), t);
                    }
                }
            }
        }
        walk(std::path::Path::new("/repo/tests"), &mut files);
        // test programs are the files that define `start`
        // (files whose name starts with `_` are helpers / disabled tests: the repo's own runner skips them)
        let mains: Vec<String> = files
            .iter()
            .filter(|(k, t)| (t.contains("start ::") || t.contains("start:")) && !k.rsplit('/').next().unwrap_or("").starts_with('_'))
            .map(|(k, _)| k.clone())
            .collect();
        (mains, files)
    })
}

fn corpus_case(index: u64, st: &mut Stats) {
    let (mains, files) = corpus_files();
    let Some(path) = mains.get(index as usize) else { return };
    let text = &files[path];
    let mut expect_runtime = false;
    let mut expect_compile_errors = 0;
    for l in text.lines() {
        if let Some(rest) = l.strip_prefix("// error:") {
            if rest.trim().starts_with('#') || rest.trim() == "Runtime" {
                expect_runtime = true;
            } else {
                expect_compile_errors += 1;
            }
        }
    }
    st.count("corpus:programs");
    let r = sy::compile_files(files, path, &sy::CompileOpts { fuel: Some(crate::rel::CAMPAIGN_FUEL), ..Default::default() });
    let viol = |sig: String, extra: J| Violation { signature: sig, hazard: None, case: index, detail: J::obj().with("corpus_file", J::s(path.clone())).with("observed", extra) };
    match r {
        Compiled::Fuel => st.count("corpus:compile_budget"),
        Compiled::Panic { location, msg, .. } => st.violation(viol(format!("corpus:panic@{}", location), J::s(msg))),
        Compiled::Err { errors, .. } => {
            if expect_compile_errors > 0 {
                st.count("corpus:rejected_as_annotated");
            } else {
                st.violation(viol("corpus:rejected-but-annotated-as-passing".into(), J::s(errors.first().map(|e| e.display.clone()).unwrap_or_default())));
            }
        }
        Compiled::Ok(b) => {
            if expect_compile_errors > 0 && !expect_runtime {
                st.violation(viol("corpus:accepted-but-annotated-with-compile-errors".into(), J::Null));
                return;
            }
            let lua_text = String::from_utf8_lossy(&b).to_string();
            match lua::load(&lua_text) {
                Loaded::GreyZone(_) => st.count("corpus:grey_zone"),
                Loaded::Error { class, line, msg } => st.violation(viol(format!("corpus:load:{}", class), J::s(format!("line {}: {} | {}", line, msg, lua_text.lines().nth(line.saturating_sub(1) as usize).unwrap_or(""))))),
                Loaded::Ok(c) => {
                    let rr = lua::run(&c, true);
                    st.add("corpus:lua_calls", rr.counters.calls);
                    match (&rr.outcome, expect_runtime) {
                        (lua::Outcome::Ok, false) => st.count("corpus:ran_ok_as_annotated"),
                        (lua::Outcome::Error(_), true) => st.count("corpus:runtime_error_as_annotated"),
                        (lua::Outcome::Budget(_), _) => st.count("corpus:run_budget"),
                        (lua::Outcome::Ok, true) => st.violation(viol("corpus:ran-ok-but-annotated-with-runtime-error".into(), J::Null)),
                        (lua::Outcome::Error(e), false) => st.violation(viol(
                            format!("corpus:runtime-error:{}", lua::class_name(&e.class)),
                            J::s(format!("{} (line {}): {}", e.msg, e.line, lua_text.lines().nth(e.line.saturating_sub(1) as usize).unwrap_or("").trim())),
                        )),
                    }
                }
            }
        }
    }
}

const REQUIRED_FEATURES: &[&str] = &[
    "int_arith",
    "float_arith",
    "str_concat",
    "ordering",
    "equality",
    "structural_equality",
    "tuple_arith",
    "and",
    "or",
    "if_expression",
    "case_expression",
    "case_binding",
    "loop",
    "break",
    "continue",
    "early_ret",
    "closure_over_mutable",
    "blob_method_self",
    "variant",
    "list_literal",
    "mutable_global",
    "recursion",
    "assert_eq",
    "unreachable",
    "compound_assign",
    "closure_in_loop",
];

impl Check for Traced {
    fn id(&self) -> &'static str {
        self.prop
    }
    fn plan(&self, ctx: &Ctx) -> u64 {
        scaled(ctx, 20_000, 600_000)
    }
    fn run_case(&self, ctx: &Ctx, index: u64, st: &mut Stats) {
        if self.prop == "C01" && index < CORPUS_SLOTS {
            corpus_case(index, st);
            return;
        }
        if self.prop == "C01" && index < CORPUS_SLOTS + RESULT_SLOTS {
            expression_result_case(index - CORPUS_SLOTS, st);
            return;
        }
        if self.prop == "C01" && index < CORPUS_SLOTS + RESULT_SLOTS + STRING_SLOTS {
            string_literal_case(index - CORPUS_SLOTS - RESULT_SLOTS, st);
            return;
        }
        if self.prop == "C10" && index < HELD_SLOTS {
            held_value_case(index, st);
            return;
        }
        if self.prop == "C10" && index < HELD_SLOTS + CAPTURE_SLOTS {
            capture_case(index - HELD_SLOTS, st);
            return;
        }
        if self.prop == "C10" && index < HELD_SLOTS + CAPTURE_SLOTS + TARGET_SLOTS {
            assign_target_case(index - HELD_SLOTS - CAPTURE_SLOTS, st);
            return;
        }
        if self.prop == "C10" && index < HELD_SLOTS + CAPTURE_SLOTS + TARGET_SLOTS + CALLEE_SLOTS {
            held_callee_case(index - HELD_SLOTS - CAPTURE_SLOTS - TARGET_SLOTS, st);
            return;
        }
        if self.prop == "C10" && index < HELD_SLOTS + CAPTURE_SLOTS + TARGET_SLOTS + CALLEE_SLOTS + FRESH_SLOTS {
            fresh_literal_case(index - HELD_SLOTS - CAPTURE_SLOTS - TARGET_SLOTS - CALLEE_SLOTS, st);
            return;
        }
        if self.prop == "C10" && index < HELD_SLOTS + CAPTURE_SLOTS + TARGET_SLOTS + CALLEE_SLOTS + FRESH_SLOTS + SHARED_SLOTS {
            shared_literal_case(index - HELD_SLOTS - CAPTURE_SLOTS - TARGET_SLOTS - CALLEE_SLOTS - FRESH_SLOTS, st);
            return;
        }
        let mut rng = Rng::for_case(ctx.seed, self.prop, index);
        let depth = match ctx.tier {
            Tier::Quick => 2 + (index % 2) as u32,
            Tier::Thorough => 2 + (index % 3) as u32,
        };
        let mut cfg = Cfg::general(depth);
        if self.prop == "C10" || index % 4 == 3 {
            // C10: always; C01: a quarter of the programs are recursion / closure dense as well
            cfg.profile = Profile::Reentrant;
            cfg.start_stmts = 6;
        }
        let p = gen::generate(&mut rng, cfg);
        // a quarter of the programs is printed with maximal legal shadowing (a name is reused as soon as the scope
        // rules allow it): which variable a name means then depends on every scope ending exactly where it should
        let text = if index % 4 == 1 {
            let an = crate::scope::analyse(&p);
            let (names, _) = crate::c08_09_14::shadow_names(&p, &an, if index % 8 == 1 { 0 } else { rng.next() | 1 }, crate::c08_09_14::LOCAL_POOL);
            st.count("programs_printed_with_shadowing_names");
            crate::rel::print_with(&p, &|b: BId| names[b].clone(), &|_s: crate::print::AnnotSite| true, None, None, None)
        } else {
            print::canonical(&p)
        };
        let ob = observe(&p, &text, true);
        st.count("programs");
        if let Some(r) = &ob.ref_result {
            st.add("reference:steps", r.steps);
            st.add("reference:asserts_executed", r.asserts_executed);
            st.add("reference:closure_or_function_calls", r.closures_called);
            st.add("reference:loop_iterations", r.loop_iterations);
            st.maxi("reference:recursion_depth", r.max_depth as u64);
        }
        match &ob.verdict {
            Verdict::Agree => {
                st.count("judged:agree");
                st.add("print_events_compared", ob.prints_compared);
                for f in &p.features {
                    st.count(&format!("feature:{}", f));
                }
                if ob.hazard.is_some() {
                    st.count(&format!("not_judged:{}:agrees_with_left_to_right", ob.hazard.clone().unwrap()));
                }
                if ob.prints_compared >= 1 && p.features.len() >= 3 {
                    st.nontrivial(hash64(text.as_bytes()));
                }
                if index < 3 {
                    let t = text.clone();
                    let pr = ob.ref_result.as_ref().map(|r| r.prints.clone()).unwrap_or_default();
                    st.sample(|| J::obj().with("program", J::s(t)).with("trace", J::Arr(pr.into_iter().take(30).map(J::Str).collect())));
                }
            }
            Verdict::Skipped(why) => {
                if why.starts_with("HARNESS:") {
                    st.note(format!("inconclusive: {}", why.chars().take(160).collect::<String>()));
                    st.count("harness_problems");
                } else {
                    let key: String = why.chars().take(70).collect();
                    st.count(&format!("skipped:{}", key));
                }
            }
            Verdict::Violation { signature, detail } => {
                if ob.hazard.as_deref().map(|h| h.starts_with("order_sensitive")).unwrap_or(false) && signature.starts_with("trace:") {
                    // Evaluation order of operands is undocumented: statements in which an operand whose
                    // read the compiler defers (field read, compound-assignment target) is written by a
                    // later operand are outside the documented domain. Counted, never judged.
                    st.count(&format!("not_judged:{}:differs_from_left_to_right", ob.hazard.clone().unwrap()));
                } else {
                    st.violation(Violation { signature: signature.clone(), hazard: ob.hazard.clone(), case: index, detail: detail.clone() });
                }
            }
        }
        // monitor observations
        if let Some(c) = &ob.lua_counters {
            st.add("lua:calls", c.calls);
            st.add("lua:v_reads_checked", c.v_reads_checked);
            st.add("lua:free_v_reads", c.free_v_reads);
            st.add("lua:free_v_writes", c.free_v_writes);
            st.add("lua:live_across_call_reads", c.live_across_call_reads);
            st.add("lua:closures_created", c.closures_created);
            st.add("lua:closures_called_after_creator_returned", c.closures_called_after_creator_returned);
            st.maxi("lua:call_depth", c.max_depth as u64);
        }
        if let Some(c) = &ob.census {
            if self.prop == "C10" && !c.free_v_written_in_functions.is_empty() && !matches!(ob.verdict, Verdict::Violation { .. }) {
                // a temporary assigned inside a function body that is not declared local is shared by all activations
                st.violation(Violation {
                    signature: "census:global-temporary-written-in-function".into(),
                    hazard: None,
                    case: index,
                    detail: J::obj().with("names", J::Arr(c.free_v_written_in_functions.iter().take(8).map(|n| J::s(n.clone())).collect())).with("source", J::s(text.clone())),
                });
            }
            st.add("census:free_V_names_written_inside_functions", c.free_v_written_in_functions.len() as u64);
            st.maxi("census:locals_in_one_function", c.max_locals_in_function as u64);
        }
        if matches!(ob.verdict, Verdict::Agree) || self.prop == "C10" {
            // monitor events are violations of their own even when the printed trace agrees
            for e in &ob.events {
                // benign: number -> string coercion when the preamble builds its assertion messages
                if matches!(e, lua::Event::Coercion { op, .. } if *op == "..") {
                    continue;
                }
                let (sig, line) = match e {
                    lua::Event::Interference { origin, line, .. } => (format!("monitor:interference:{}", origin), *line),
                    lua::Event::UninitRead { kind, line, .. } => (format!("monitor:uninitialised-read:{}", kind), *line),
                    lua::Event::MissingField { line, .. } => ("monitor:missing-field".to_string(), *line),
                    lua::Event::Coercion { op, line, .. } => (format!("monitor:coercion:{}", op), *line),
                    lua::Event::Require { .. } => continue,
                };
                if matches!(ob.verdict, Verdict::Violation { .. }) {
                    break;
                }
                // benign: a function whose last statement is a value-less if/case returns that
                // statement's (never assigned) result variable; the value is void and unused
                if matches!(e, lua::Event::UninitRead { .. }) && ob.lua_text.lines().nth(line.saturating_sub(1) as usize).map(|l| l.trim().starts_with("return V") || l.trim().starts_with("do return V")).unwrap_or(false) {
                    st.count("monitor:benign_return_of_valueless_if");
                    continue;
                }
                st.violation(Violation {
                    signature: sig,
                    hazard: ob.hazard.clone(),
                    case: index,
                    detail: J::obj().with("event", J::s(format!("{:?}", e))).with("lua_line", J::Int(line as i64)).with("source", J::s(text.clone())),
                });
                break;
            }
        }
    }
    fn replay_witness(&self, _ctx: &Ctx, f: &Finding) -> Option<String> {
        // witnesses of trace findings are Sylt programs with an expected trace
        let text = f.raw.get("witness_text").and_then(|x| x.as_str())?;
        let expect: Vec<String> = f.raw.get("witness_expected_prints")?.as_arr()?.iter().filter_map(|x| x.as_str().map(|s| s.to_string())).collect();
        let lua_text = match compile_budgeted(text) {
            Compiled::Ok(b) => String::from_utf8_lossy(&b).to_string(),
            _ => return None,
        };
        match lua::load(&lua_text) {
            Loaded::Ok(c) => {
                let r = lua::run(&c, true);
                if let lua::Outcome::Error(e) = &r.outcome {
                    return Some(format!("lua-error:{}", lua::class_name(&e.class)));
                }
                if r.prints != expect {
                    return Some("trace:print-differs".into());
                }
                if let Some(e) = r.events.first() {
                    return Some(match e {
                        lua::Event::Interference { origin, .. } => format!("monitor:interference:{}", origin),
                        other => format!("monitor:{:?}", other).chars().take(40).collect(),
                    });
                }
                None
            }
            Loaded::Error { class, .. } => Some(format!("load:{}", class)),
            Loaded::GreyZone(_) => None,
        }
    }
    fn finish(&self, _ctx: &Ctx, st: &Stats) -> Finish {
        let mut inconclusive = Vec::new();
        let judged = st.get("judged:agree") + st.violations_total;
        if judged * 10 < st.evaluations * 5 {
            inconclusive.push(format!("only {} of {} programs were judged", judged, st.evaluations));
        }
        let rejected: u64 = st.counters.iter().filter(|(k, _)| k.starts_with("skipped:compile:rejected")).map(|(_, v)| *v).sum();
        if rejected * 10 > st.evaluations * 2 {
            inconclusive.push(format!("{} of {} generated programs were rejected by the compiler (>20%)", rejected, st.evaluations));
        }
        for f in REQUIRED_FEATURES {
            if st.get(&format!("feature:{}", f)) == 0 {
                inconclusive.push(format!("construct never exercised in a judged program: {}", f));
            }
        }
        if st.get("lua:v_reads_checked") < 10_000 {
            inconclusive.push("blind-monitor guard: fewer than 10000 V-name reads were seen by the uninitialised-read monitor".into());
        }
        if self.prop == "C10" && st.get("lua:live_across_call_reads") < 1_000 {
            inconclusive.push("fewer than 1000 reads of values live across a call".into());
        }
        Finish {
            level: "exploration",
            rule: "typed programs from the generator (ints/floats/strings/tuples arithmetic and comparisons, short-circuit and/or, if- and case-expressions and statements, loops with break/continue, early ret, closures over mutable variables incl. per-iteration closures, blobs with self methods, enums and Maybe, lists, globals, recursion with fuel, <=> with model-computed expectations, guarded <!>) are compiled by the real compiler; the emitted Lua runs under luamon with monitors; print trace and terminal outcome are compared with the reference interpreter. Programs the reference run leaves (overflow, NaN, budgets) are skipped and counted. Non-trivial: >= 1 compared print and >= 3 construct kinds; distinct by source hash.".into(),
            extra: J::obj(),
            assumptions: vec![
                "luamon models Lua 5.3 (conformance snippets + preamble tests in harness/luamon/tests)".into(),
                "the reference interpreter is the definition of source meaning: strict left-to-right, callee before arguments; statements where an earlier operand's deferred read conflicts with a later operand's write are tagged order-sensitive (hazard)".into(),
            ],
            exhaustive: false,
            inconclusive,
        }
    }
}
