//! C18 — standard-library containers and helpers meet their contracts: a compiled
//! Sylt program applies a generated operation history to a list / dict / set /
//! Maybe / math helper and prints an observation after every step; every printed
//! observation is compared with a plain model (Vec, BTreeMap, BTreeSet, arithmetic).
use crate::fw::*;
use crate::json::J;
use crate::lua::{self, Loaded};
use crate::rel::compile_budgeted;
use crate::rng::{hash64, Rng};
use crate::sy::Compiled;
use std::collections::{BTreeMap, BTreeSet};

pub struct C18;

#[derive(Clone, Copy, Debug, PartialEq)]
enum KT {
    Int,
    Str,
    Pair,
}

#[derive(Clone, Debug, PartialEq, Eq, PartialOrd, Ord)]
enum K {
    I(i64),
    S(String),
    P(i64, String),
}

impl K {
    fn lit(&self) -> String {
        match self {
            K::I(i) => {
                if *i < 0 {
                    format!("(-{})", -i)
                } else {
                    i.to_string()
                }
            }
            K::S(s) => format!("\"{}\"", s),
            K::P(i, s) => format!("({}, \"{}\")", i, s),
        }
    }
    fn show(&self) -> String {
        match self {
            K::I(i) => i.to_string(),
            K::S(s) => s.clone(),
            K::P(i, s) => format!("({}, {})", i, s),
        }
    }
}

fn ty_name(t: KT) -> &'static str {
    match t {
        KT::Int => "int",
        KT::Str => "str",
        KT::Pair => "(int, str)",
    }
}

/// unique values: a counter makes every inserted value distinct
fn fresh(t: KT, counter: &mut i64) -> K {
    *counter += 1;
    match t {
        KT::Int => K::I(*counter),
        KT::Str => K::S(format!("s{}", counter)),
        KT::Pair => K::P(*counter, format!("p{}", counter)),
    }
}

fn few_keys(t: KT, rng: &mut Rng) -> K {
    // few keys, many operations
    let i = rng.range(0, 4);
    match t {
        KT::Int => K::I(i),
        KT::Str => K::S(["a", "b", "10", "1", ""][i as usize].to_string()),
        KT::Pair => K::P(i % 2, ["a", "b"][(i / 2 % 2) as usize].to_string()),
    }
}

fn maybe_show(v: Option<&K>) -> String {
    match v {
        Some(k) => format!("Just {}", k.show()),
        None => "None nil".to_string(),
    }
}
fn maybe_lit(v: Option<&K>) -> String {
    match v {
        Some(k) => format!("(Maybe.Just {})", k.lit()),
        None => "Maybe.None".to_string(),
    }
}

struct Prog {
    decls: String,
    steps: Vec<(String, Vec<String>)>, // (statement lines, expected prints)
    ops: Vec<&'static str>,
    hazard: Option<&'static str>,
}

impl Prog {
    fn step(&mut self, op: &'static str, code: String, expect: Vec<String>) {
        self.ops.push(op);
        self.steps.push((code, expect));
    }
    fn source(&self) -> (String, Vec<String>) {
        let mut src = self.decls.clone();
        let mut expect = Vec::new();
        let chunks: Vec<&[(String, Vec<String>)]> = self.steps.chunks(4).collect();
        for (k, ch) in chunks.iter().enumerate() {
            src.push_str(&format!("\npart{} :: fn do\n", k));
            for (code, e) in ch.iter() {
                for l in code.lines() {
                    src.push_str(&format!("    {}\n", l));
                }
                expect.extend(e.iter().cloned());
            }
            src.push_str("end\n");
        }
        src.push_str("\nstart :: fn do\n");
        for k in 0..chunks.len() {
            src.push_str(&format!("    part{}()\n", k));
        }
        src.push_str("end\n");
        (src, expect)
    }
}

fn show_list(l: &[K]) -> String {
    format!("[{}]", l.iter().map(|k| k.show()).collect::<Vec<_>>().join(", "))
}

fn list_history(rng: &mut Rng, t: KT, nops: usize) -> Prog {
    let mut counter = 0i64;
    let mut model: Vec<K> = (0..rng.below(3)).map(|_| fresh(t, &mut counter)).collect();
    let init = if model.is_empty() { format!("l: [{}] = []\n", ty_name(t)) } else { format!("l: [{}] = [{}]\n", ty_name(t), model.iter().map(|k| k.lit()).collect::<Vec<_>>().join(", ")) };
    let init = format!("{}l2: [{}] = []\n", init, ty_name(t));
    let mut p = Prog { decls: init, steps: Vec::new(), ops: Vec::new(), hazard: None };
    // `l2` holds lists produced by the library (filter / map): they are fresh lists, so later
    // mutations of `l` or `l2` must not show through the other
    let mut model2: Vec<K> = Vec::new();
    for _ in 0..nops {
        match rng.below(24) {
            // library helpers re-entered from inside a callback of another helper call
            19 => {
                let n = model.len();
                let exp = format!("[{}]", vec![n.to_string(); n].join(", "));
                p.step("reentrant:map-in-map", format!("lc{i} :: l\nprint(list.map(lc{i}, pu x -> list.fold(list.map(lc{i}, pu y -> 1 end), 0, pu y, acc -> acc + y end) end))", i = p.steps.len()), vec![exp]);
            }
            20 => {
                let exp = format!("[{}]", model.iter().map(|k| format!("[{}]", k.show())).collect::<Vec<_>>().join(", "));
                p.step("reentrant:filter-in-map", format!("lc{i} :: l\nprint(list.map(lc{i}, pu x -> list.filter(lc{i}, pu y -> y == x end) end))", i = p.steps.len()), vec![exp]);
            }
            21 => {
                p.step("reentrant:map-in-filter", format!("lc{i} :: l\nprint(list.filter(lc{i}, pu x -> list.map(lc{i}, pu y -> y end) == lc{i} end))\nprint(list.len(l))", i = p.steps.len()), vec![show_list(&model), model.len().to_string()]);
            }
            22 => {
                let n = model.len() as i64;
                p.step("reentrant:map-in-fold", format!("lc{i} :: l\nprint(list.fold(lc{i}, 0, pu x, acc -> acc + list.fold(list.map(lc{i}, pu y -> 2 end), 0, pu y, a2 -> a2 + y end) end))", i = p.steps.len()), vec![(2 * n * n).to_string()]);
            }
            23 => {
                let mut exp = Vec::new();
                for i in 0..model.len() {
                    exp.push(format!("[{}]", (0..model.len()).map(|j| (i == j).to_string()).collect::<Vec<_>>().join(", ")));
                }
                p.step("reentrant:map-in-for_each", "list.for_each(l, fn x do\n    print(list.map(l, pu y -> y == x end))\nend)".to_string(), exp);
            }
            14 | 15 => {
                // keep the result of a filter (often one that rejects nothing)
                let (f, kept): (String, Vec<K>) = match (t, rng.below(3)) {
                    (_, 0) => ("pu x -> x == x end".into(), model.clone()),
                    (KT::Int, _) => ("pu x -> x > 2 end".into(), model.iter().filter(|k| matches!(k, K::I(i) if *i > 2)).cloned().collect()),
                    (KT::Str, _) => ("pu x -> x > \"s2\" end".into(), model.iter().filter(|k| matches!(k, K::S(s) if s.as_str() > "s2")).cloned().collect()),
                    (KT::Pair, _) => ("pu x -> x[0] > 2 end".into(), model.iter().filter(|k| matches!(k, K::P(i, _) if *i > 2)).cloned().collect()),
                };
                model2 = kept;
                p.step("keep-filter-result", format!("l2 = list.filter(l, {})\nprint(l2)", f), vec![show_list(&model2)]);
            }
            16 => {
                let f = match t {
                    KT::Int => "pu x -> x end",
                    KT::Str => "pu x -> x end",
                    KT::Pair => "pu x -> x end",
                };
                model2 = model.clone();
                p.step("keep-map-result", format!("l2 = list.map(l, {})\nprint(l2)", f), vec![show_list(&model2)]);
            }
            17 => {
                // mutate the kept list, observe both
                let v = fresh(t, &mut counter);
                model2.push(v.clone());
                p.step("push-kept+observe-both", format!("list.push(l2, {})\nprint(list.len(l2))\nprint(list.len(l))\nprint(l)", v.lit()), vec![model2.len().to_string(), model.len().to_string(), show_list(&model)]);
            }
            18 => {
                // mutate the original, observe the kept list
                let v = fresh(t, &mut counter);
                model.insert(0, v.clone());
                let r = model2.pop();
                p.step("prepend-original+pop-kept", format!("list.prepend(l, {})\nprint(list.pop(l2))\nprint(l2)\nprint(l)", v.lit()), vec![maybe_show(r.as_ref()), show_list(&model2), show_list(&model)]);
            }
            0 | 1 | 2 => {
                let v = fresh(t, &mut counter);
                model.push(v.clone());
                p.step("push", format!("list.push(l, {})\nprint(list.len(l))", v.lit()), vec![model.len().to_string()]);
            }
            3 => {
                let v = fresh(t, &mut counter);
                model.insert(0, v.clone());
                p.step("prepend", format!("list.prepend(l, {})\nprint(l)", v.lit()), vec![show_list(&model)]);
            }
            4 => {
                let r = model.pop();
                p.step("pop", "print(list.pop(l))\nprint(list.len(l))".to_string(), vec![maybe_show(r.as_ref()), model.len().to_string()]);
                if r.is_none() {
                    p.step("pop==None", "print(list.pop(l) == Maybe.None)".to_string(), vec!["true".into()]);
                }
            }
            5 | 6 => {
                let i = rng.below(model.len() + 2);
                let r = model.get(i);
                p.step("get", format!("print(list.get(l, {}))\nprint(list.get(l, {}) == {})", i, i, maybe_lit(r)), vec![maybe_show(r), "true".into()]);
            }
            7 if rng.chance(1, 4) => {
                // `set` at or past the end (the runtime guards with `#l > i`): ignored, the list keeps its length
                let i = model.len() + rng.below(3);
                let v = fresh(t, &mut counter);
                p.step("set-at-or-past-the-end", format!("list.set(l, {}, {})\nprint(list.len(l))\nprint(l)\nprint(list.get(l, {}))", i, v.lit(), i), vec![model.len().to_string(), show_list(&model), "None nil".to_string()]);
            }
            7 => {
                if !model.is_empty() {
                    let i = rng.below(model.len());
                    let v = fresh(t, &mut counter);
                    model[i] = v.clone();
                    p.step("set", format!("list.set(l, {}, {})\nprint(l)", i, v.lit()), vec![show_list(&model)]);
                }
            }
            8 => {
                let (f, mapped): (String, Vec<K>) = match t {
                    KT::Int => ("pu x -> x * 2 + 1 end".into(), model.iter().map(|k| if let K::I(i) = k { K::I(i * 2 + 1) } else { k.clone() }).collect()),
                    KT::Str => ("pu x -> x + \"!\" end".into(), model.iter().map(|k| if let K::S(s) = k { K::S(format!("{}!", s)) } else { k.clone() }).collect()),
                    KT::Pair => ("pu x -> (x[0] + 1, x[1]) end".into(), model.iter().map(|k| if let K::P(i, s) = k { K::P(i + 1, s.clone()) } else { k.clone() }).collect()),
                };
                p.step("map", format!("print(list.map(l, {}))\nprint(list.len(l))", f), vec![show_list(&mapped), model.len().to_string()]);
            }
            9 => {
                let (f, kept): (String, Vec<K>) = match t {
                    KT::Int => ("pu x -> x > 3 end".into(), model.iter().filter(|k| matches!(k, K::I(i) if *i > 3)).cloned().collect()),
                    KT::Str => ("pu x -> x > \"s3\" end".into(), model.iter().filter(|k| matches!(k, K::S(s) if s.as_str() > "s3")).cloned().collect()),
                    KT::Pair => ("pu x -> x[0] > 3 end".into(), model.iter().filter(|k| matches!(k, K::P(i, _) if *i > 3)).cloned().collect()),
                };
                p.step("filter", format!("print(list.filter(l, {}))", f), vec![show_list(&kept)]);
            }
            10 => {
                // non-commutative fold
                match t {
                    KT::Int => {
                        let mut acc: i64 = 1;
                        for k in &model {
                            if let K::I(i) = k {
                                acc = acc.wrapping_mul(3).wrapping_add(*i) % 1_000_003;
                            }
                        }
                        p.step("fold", "print(list.fold(l, 1, pu x, acc -> rem(acc * 3 + x, 1000003) end))".to_string(), vec![acc.to_string()]);
                    }
                    KT::Str => {
                        let mut acc = String::from(">");
                        for k in &model {
                            if let K::S(s) = k {
                                acc = format!("{}{}", acc, s);
                            }
                        }
                        p.step("fold", "print(list.fold(l, \">\", pu x, acc -> acc + x end))".to_string(), vec![acc]);
                    }
                    KT::Pair => {
                        let mut acc: i64 = 0;
                        for k in &model {
                            if let K::P(i, _) = k {
                                acc = acc * 2 + i;
                            }
                        }
                        p.step("fold", "print(list.fold(l, 0, pu x, acc -> acc * 2 + x[0] end))".to_string(), vec![acc.to_string()]);
                    }
                }
            }
            11 if rng.chance(1, 3) => {
                // `find` returns the FIRST element that satisfies a predicate several elements satisfy
                let (f, found): (String, Option<&K>) = match t {
                    KT::Int => ("pu x -> x > 2 end".into(), model.iter().find(|k| matches!(k, K::I(i) if *i > 2))),
                    KT::Str => ("pu x -> x > \"s2\" end".into(), model.iter().find(|k| matches!(k, K::S(s) if s.as_str() > "s2"))),
                    KT::Pair => ("pu x -> x[0] > 2 end".into(), model.iter().find(|k| matches!(k, K::P(i, _) if *i > 2))),
                };
                p.step("find-first-of-several", format!("print(list.find(l, {}))\nprint(list.find(l, {}) == {})", f, f, maybe_lit(found)), vec![maybe_show(found), "true".into()]);
            }
            11 => {
                let target = if !model.is_empty() && rng.chance(2, 3) { model[rng.below(model.len())].clone() } else { fresh(t, &mut counter) };
                let found = model.iter().find(|k| **k == target);
                p.step(
                    "find+contains",
                    format!("print(list.find(l, pu x -> x == {} end))\nprint(list.contains(l, {}))\nprint(list.find(l, pu x -> x == {} end) == {})", target.lit(), target.lit(), target.lit(), maybe_lit(found)),
                    vec![maybe_show(found), found.is_some().to_string(), "true".into()],
                );
            }
            12 => {
                let r = model.last();
                p.step("last", format!("print(list.last(l))\nprint(list.last(l) == {})", maybe_lit(r)), vec![maybe_show(r), "true".into()]);
            }
            _ => {
                p.step("len+print", "print(list.len(l))\nprint(l)".to_string(), vec![model.len().to_string(), show_list(&model)]);
            }
        }
    }
    p
}

fn dict_history(rng: &mut Rng, kt: KT, vt: KT, nops: usize) -> Prog {
    let mut counter = 100i64;
    let mut model: BTreeMap<K, K> = BTreeMap::new();
    let mut touched: BTreeSet<K> = BTreeSet::new();
    let n0 = rng.below(3);
    let mut pairs = Vec::new();
    let mut src_items: Vec<(K, K)> = Vec::new();
    for _ in 0..n0 {
        let k = few_keys(kt, rng);
        let v = fresh(vt, &mut counter);
        model.insert(k.clone(), v.clone());
        touched.insert(k.clone());
        pairs.push(format!("({}, {})", k.lit(), v.lit()));
        src_items.push((k.clone(), v.clone()));
    }
    // the source list stays reachable and a sibling dict is built from the same list value: the three must
    // be independent of each other afterwards (from_list copies, update affects only its own dict)
    let model0 = model.clone();
    let decls = if pairs.is_empty() {
        format!("dsrc: [({}, {})] = []\nd: dict.Dict({}, {}) = dict.new()\nd2: dict.Dict({}, {}) = dict.new()\n", ty_name(kt), ty_name(vt), ty_name(kt), ty_name(vt), ty_name(kt), ty_name(vt))
    } else {
        format!(
            "dsrc: [({}, {})] = [{}]\nd: dict.Dict({}, {}) = dict.from_list(dsrc)\nd2: dict.Dict({}, {}) = dict.from_list(dsrc)\n",
            ty_name(kt),
            ty_name(vt),
            pairs.join(", "),
            ty_name(kt),
            ty_name(vt),
            ty_name(kt),
            ty_name(vt)
        )
    };
    let src_lit_show: String = format!("[{}]", src_items.iter().map(|(k, v)| format!("({}, {})", k.show(), v.show())).collect::<Vec<_>>().join(", "));
    let decls = format!("{}dcount: int = 0\n", decls);
    let mut p = Prog { decls, steps: Vec::new(), ops: Vec::new(), hazard: None };
    for _ in 0..nops {
        let k = few_keys(kt, rng);
        touched.insert(k.clone());
        match rng.below(13) {
            11 => {
                // the source list and the sibling dict built from it are unaffected by what happened to `d`
                let mut code = String::from("print(dsrc)\nprint(dict.len(d2))\n");
                let mut exp = vec![src_lit_show.clone(), model0.len().to_string()];
                for t in touched.iter().take(4) {
                    code.push_str(&format!("print(dict.get(d2, {}))\n", t.lit()));
                    exp.push(maybe_show(model0.get(t)));
                }
                p.step("observe-source-and-sibling", code.trim_end().to_string(), exp);
            }
            12 => {
                // a value obtained before an update does not change with the update
                let old = model.get(&k).cloned();
                let v = fresh(vt, &mut counter);
                model.insert(k.clone(), v.clone());
                let id = p.steps.len();
                p.step(
                    "get-held-across-update",
                    format!("dh{} :: dict.get(d, {})\ndict.update(d, {}, {})\nprint(dh{})\nprint(dict.get(d, {}))", id, k.lit(), k.lit(), v.lit(), id, k.lit()),
                    vec![maybe_show(old.as_ref()), maybe_show(Some(&v))],
                );
            }
            8 => {
                // dict.map with the identity / a constant value; observed order-free on the touched keys
                let constant = rng.chance(1, 2);
                let f = if constant { "pu kv -> (kv[0], 7) end" } else { "pu kv -> (kv[0], kv[1]) end" };
                let mut code = format!("dm{} :: dict.map(d, {})\nprint(dict.len(dm{}))\n", p.steps.len(), f, p.steps.len());
                let mut exp = vec![model.len().to_string()];
                for t in touched.iter().take(5) {
                    code.push_str(&format!("print(dict.get(dm{}, {}))\n", p.steps.len(), t.lit()));
                    exp.push(match model.get(t) {
                        Some(v) if !constant => format!("Just {}", v.show()),
                        Some(_) => "Just 7".to_string(),
                        None => "None nil".to_string(),
                    });
                }
                code.push_str("print(dict.len(d))");
                exp.push(model.len().to_string());
                p.step("map", code, exp);
            }
            9 => {
                // dict.for_each: every entry visited exactly once (counted), callback re-enters dict.map
                let n = model.len();
                p.step(
                    "for_each",
                    "dcount = 0\ndict.for_each(d, fn kv do\n    dcount += 1 + dict.len(dict.map(dict.from_list([(1, 2), (3, 4)]), pu q -> q end))\nend)\nprint(dcount)".to_string(),
                    vec![(3 * n).to_string()],
                );
            }
            10 => {
                // dict.map whose callback re-enters dict.map
                let n = model.len();
                p.step(
                    "reentrant:map-in-map",
                    format!("dn{} :: dict.map(d, pu kv -> (kv[0], dict.len(dict.map(dict.from_list([(1, 2), (3, 4)]), pu q -> q end))) end)\nprint(dict.len(dn{}))\nprint(dict.len(d))", p.steps.len(), p.steps.len()),
                    vec![n.to_string(), n.to_string()],
                );
            }
            0 | 1 | 2 => {
                let v = fresh(vt, &mut counter);
                model.insert(k.clone(), v.clone());
                p.step("update", format!("dict.update(d, {}, {})\nprint(dict.len(d))", k.lit(), v.lit()), vec![model.len().to_string()]);
            }
            3 => {
                model.remove(&k);
                if kt != KT::Str {
                    p.hazard = Some("dict_remove_with_non_string_key");
                }
                p.step("remove", format!("dict.remove(d, {})\nprint(dict.len(d))\nprint(dict.get(d, {}))", k.lit(), k.lit()), vec![model.len().to_string(), "None nil".into()]);
            }
            4 | 5 => {
                let r = model.get(&k);
                p.step("get", format!("print(dict.get(d, {}))\nprint(dict.get(d, {}) == {})", k.lit(), k.lit(), maybe_lit(r)), vec![maybe_show(r), "true".into()]);
            }
            6 => {
                p.step("contains_key", format!("print(dict.contains_key(d, {}))", k.lit()), vec![model.contains_key(&k).to_string()]);
            }
            _ => {
                // observe every key touched so far (order-free)
                let mut code = String::new();
                let mut exp = Vec::new();
                for t in touched.iter().take(5) {
                    code.push_str(&format!("print(dict.get(d, {}))\n", t.lit()));
                    exp.push(maybe_show(model.get(t)));
                }
                code.push_str("print(dict.len(d))");
                exp.push(model.len().to_string());
                p.step("observe-all", code, exp);
            }
        }
    }
    p
}

fn set_history(rng: &mut Rng, kt: KT, nops: usize) -> Prog {
    let mut model: BTreeSet<K> = BTreeSet::new();
    let n0 = rng.below(3);
    let mut init = Vec::new();
    for _ in 0..n0 {
        let k = few_keys(kt, rng);
        model.insert(k.clone());
        init.push(k.lit());
    }
    let decls = if init.is_empty() { format!("s: set.Set({}) = set.new()\n", ty_name(kt)) } else { format!("s: set.Set({}) = set.from_list([{}])\n", ty_name(kt), init.join(", ")) };
    let decls = format!("{}scount: int = 0\n", decls);
    let mut p = Prog { decls, steps: Vec::new(), ops: Vec::new(), hazard: None };
    for _ in 0..nops {
        let k = few_keys(kt, rng);
        match rng.below(9) {
            6 => {
                // set.map with the identity: a set with the same members
                let id = p.steps.len();
                p.step(
                    "map",
                    format!("sm{} :: set.map(s, pu v -> v end)\nprint(set.len(sm{}))\nprint(set.contains(sm{}, {}))\nprint(sm{} == s)\nprint(set.len(s))", id, id, id, k.lit(), id),
                    vec![model.len().to_string(), model.contains(&k).to_string(), "true".into(), model.len().to_string()],
                );
            }
            7 => {
                // set.map onto one value collapses to at most one member; the callback re-enters set.map
                let id = p.steps.len();
                p.step(
                    "reentrant:map-in-map",
                    format!("sn{} :: set.map(s, pu v -> set.len(set.map(set.from_list([1, 2, 3]), pu w -> w end)) end)\nprint(set.len(sn{}))\nprint(set.contains(sn{}, 3))", id, id, id),
                    vec![if model.is_empty() { "0".to_string() } else { "1".to_string() }, (!model.is_empty()).to_string()],
                );
            }
            8 => {
                let n = model.len();
                p.step("for_each", "scount = 0\nset.for_each(s, fn v do\n    scount += 1\nend)\nprint(scount)".to_string(), vec![n.to_string()]);
            }
            0 | 1 => {
                model.insert(k.clone());
                p.step("add", format!("set.add(s, {})\nprint(set.len(s))", k.lit()), vec![model.len().to_string()]);
            }
            2 => {
                model.remove(&k);
                p.step("remove", format!("set.remove(s, {})\nprint(set.len(s))\nprint(set.contains(s, {}))", k.lit(), k.lit()), vec![model.len().to_string(), "false".into()]);
            }
            3 | 4 => {
                p.step("contains", format!("print(set.contains(s, {}))", k.lit()), vec![model.contains(&k).to_string()]);
            }
            _ => {
                p.step("len", "print(set.len(s))".to_string(), vec![model.len().to_string()]);
            }
        }
    }
    p
}

fn helpers_history(rng: &mut Rng, nops: usize) -> Prog {
    let mut p = Prog { decls: String::new(), steps: Vec::new(), ops: Vec::new(), hazard: None };
    let ints = [-7i64, -1, 0, 1, 2, 3, 10, 255, 4294967296];
    let floats = [-2.5f64, -0.5, 0.0, 0.5, 1.0, 1.5, 2.25, 100.5];
    let fl = |f: f64| if f < 0.0 { format!("(-{:?})", -f) } else { format!("{:?}", f) };
    let il = |i: i64| if i < 0 { format!("(-{})", -i) } else { i.to_string() };
    for _ in 0..nops {
        match rng.below(12) {
            0 => {
                let (a, b) = (*rng.pick(&ints), *rng.pick(&ints));
                p.step("min/max int", format!("print(min({}, {}) == {})\nprint(max({}, {}) == {})", il(a), il(b), il(a.min(b)), il(a), il(b), il(a.max(b))), vec!["true".into(), "true".into()]);
            }
            1 => {
                let (a, b) = (*rng.pick(&floats), *rng.pick(&floats));
                p.step("min/max float", format!("print(min({}, {}) == {})\nprint(max({}, {}) == {})", fl(a), fl(b), fl(a.min(b)), fl(a), fl(b), fl(a.max(b))), vec!["true".into(), "true".into()]);
            }
            2 => {
                let a = *rng.pick(&ints);
                p.step("abs int", format!("print(abs({}) == {})", il(a), il(a.abs())), vec!["true".into()]);
            }
            3 => {
                let a = *rng.pick(&floats);
                p.step("abs float", format!("print(abs({}) == {})", fl(a), fl(a.abs())), vec!["true".into()]);
            }
            4 => {
                let mut v = [*rng.pick(&ints), *rng.pick(&ints), *rng.pick(&ints)];
                let x = v[0];
                v[1..].sort();
                let (lo, hi) = (v[1], v[2]);
                p.step("clamp", format!("print(clamp({}, {}, {}) == {})", il(x), il(lo), il(hi), il(x.max(lo).min(hi))), vec!["true".into()]);
            }
            5 => {
                let a = *rng.pick(&ints);
                p.step("sign int", format!("print(sign({}) == {})", il(a), il(a.signum())), vec!["true".into()]);
            }
            6 => {
                // div: floor division (the quotient rounded towards minus infinity, as the helper's use of `floor`
                // says), for every sign combination; a zero divisor is unspecified and not generated
                let a = *rng.pick(&[0i64, 1, 2, 7, 10, 255, 4294967296, -1, -2, -7, -9, -10, -255]);
                let b = *rng.pick(&[1i64, 2, 3, 7, 10, -1, -2, -3, -7, -10]);
                let q = a / b;
                let fl = if a % b != 0 && ((a < 0) != (b < 0)) { q - 1 } else { q };
                p.step("div", format!("print(div({}, {}) == {})", il(a), il(b), il(fl)), vec!["true".into()]);
            }
            7 => {
                let a = *rng.pick(&floats);
                p.step("floor", format!("print(floor({}) == {})", fl(a), il(a.floor() as i64)), vec!["true".into()]);
            }
            8 => {
                let v = *rng.pick(&ints);
                let d = *rng.pick(&ints);
                let just = rng.chance(1, 2);
                let m = if just { format!("(Maybe.Just {})", il(v)) } else { "Maybe.None".to_string() };
                p.step("orDefault", format!("print(maybe.orDefault({}, {}) == {})", m, il(d), il(if just { v } else { d })), vec!["true".into()]);
            }
            9 => {
                let v = *rng.pick(&ints);
                let just = rng.chance(1, 2);
                let m = if just { format!("(Maybe.Just {})", il(v)) } else { "Maybe.None".to_string() };
                p.step("isJust/isNone", format!("print(maybe.isJust({}))\nprint(maybe.isNone({}))", m, m), vec![just.to_string(), (!just).to_string()]);
            }
            10 => {
                let v = *rng.pick(&[-7i64, 0, 1, 2, 10]);
                let just = rng.chance(1, 2);
                let m = if just { format!("(Maybe.Just {})", il(v)) } else { "Maybe.None".to_string() };
                let e = if just { format!("Just {}", v * 2 + 1) } else { "None nil".to_string() };
                let elit = if just { format!("(Maybe.Just {})", il(v * 2 + 1)) } else { "Maybe.None".to_string() };
                p.step("maybe.map", format!("print(maybe.map({}, pu x -> x * 2 + 1 end))\nprint(maybe.map({}, pu x -> x * 2 + 1 end) == {})", m, m, elit), vec![e, "true".into()]);
            }
            _ => {
                let v = *rng.pick(&[-7i64, 0, 1, 2, 10]);
                let just = rng.chance(1, 2);
                let m = if just { format!("(Maybe.Just {})", il(v)) } else { "Maybe.None".to_string() };
                // andThen with a function that keeps positives
                let e = if just && v > 0 { format!("Just {}", v) } else { "None nil".to_string() };
                p.step(
                    "andThen",
                    format!("print(maybe.andThen({}, pu x: int -> Maybe(int)\n    if x > 0 do\n        Maybe.Just x\n    else do\n        Maybe.None\n    end\nend))", m),
                    vec![e],
                );
            }
        }
    }
    p
}

impl Check for C18 {
    fn id(&self) -> &'static str {
        "C18"
    }
    fn plan(&self, ctx: &Ctx) -> u64 {
        scaled(ctx, 3_000, 80_000)
    }
    fn run_case(&self, ctx: &Ctx, index: u64, st: &mut Stats) {
        let mut rng = Rng::for_case(ctx.seed, "C18", index);
        let kts = [KT::Int, KT::Str, KT::Pair];
        let nops = if ctx.tier == Tier::Quick { 24 } else { 40 };
        let (kind, prog) = match index % 4 {
            0 => ("list", list_history(&mut rng, kts[((index / 4) % 3) as usize], nops)),
            1 => ("dict", dict_history(&mut rng, kts[((index / 4) % 3) as usize], kts[((index / 12) % 2) as usize], nops)),
            2 => ("set", set_history(&mut rng, kts[((index / 4) % 3) as usize], nops)),
            _ => ("maybe+math", helpers_history(&mut rng, nops)),
        };
        let (src, expect) = prog.source();
        st.count(&format!("histories:{}", kind));
        let hazard = prog.hazard.map(|s| s.to_string());
        let viol = |sig: String, extra: J| Violation { signature: sig, hazard: hazard.clone(), case: index, detail: J::obj().with("container", J::s(kind)).with("source", J::s(src.clone())).with("observed", extra) };
        let lua_text = match compile_budgeted(&src) {
            Compiled::Ok(b) => String::from_utf8_lossy(&b).to_string(),
            Compiled::Fuel => {
                st.count("discarded_compile_budget");
                return;
            }
            Compiled::Err { errors, .. } => {
                st.count(&format!("rejected_by_compiler:{}", kind));
                st.sample(|| J::obj().with("REJECTED", J::s(errors.first().map(|e| e.display.clone()).unwrap_or_default())).with("source", J::s(src.clone())));
                return;
            }
            Compiled::Panic { location, .. } => {
                st.violation(viol(format!("compile:panic@{}", location), J::Null));
                return;
            }
        };
        let chunk = match lua::load(&lua_text) {
            Loaded::Ok(c) => c,
            Loaded::GreyZone(_) => {
                st.count("no_verdict_grey_zone");
                return;
            }
            Loaded::Error { class, .. } if class.starts_with("limit") => {
                // the workload itself exceeds a Lua limit (C06's open finding KF-C06-lua-limits): nothing to judge here
                st.count("no_verdict_lua_limit_exceeded");
                return;
            }
            Loaded::Error { class, msg, .. } => {
                st.violation(viol(format!("load:{}", class), J::s(msg)));
                return;
            }
        };
        let rr = lua::run(&chunk, false);
        if let lua::Outcome::Budget(_) = rr.outcome {
            st.count("no_verdict_run_budget");
            return;
        }
        let n = expect.len().min(rr.prints.len());
        for i in 0..n {
            if expect[i] != rr.prints[i] {
                // which step?
                let mut acc = 0;
                let mut which = String::new();
                for (k, (code, e)) in prog.steps.iter().enumerate() {
                    if i < acc + e.len() {
                        which = format!("step {} [{}]: {}", k, prog.ops[k], code.replace('\n', " ; "));
                        break;
                    }
                    acc += e.len();
                }
                let op = which.split('[').nth(1).and_then(|s| s.split(']').next()).unwrap_or("?").to_string();
                st.violation(viol(format!("contract:{}:{}", kind, op), J::obj().with("observation", J::Int(i as i64)).with("expected", J::s(expect[i].clone())).with("printed", J::s(rr.prints[i].clone())).with("at", J::s(which))));
                return;
            }
        }
        if let lua::Outcome::Error(e) = &rr.outcome {
            st.violation(viol(format!("lua-error:{}", lua::class_name(&e.class)), J::s(e.msg.clone())));
            return;
        }
        if expect.len() != rr.prints.len() {
            st.violation(viol("contract:print-count".into(), J::Int(rr.prints.len() as i64)));
            return;
        }
        st.count("histories_as_modelled");
        st.add("observations_compared", expect.len() as u64);
        for op in &prog.ops {
            st.count(&format!("op:{}:{}", kind, op));
        }
        st.nontrivial(hash64(src.as_bytes()));
        if index < 4 {
            st.sample(|| J::obj().with("container", J::s(kind)).with("program", J::s(src.clone())).with("observations", J::Arr(expect.iter().take(12).map(|s| J::s(s.clone())).collect())));
        }
    }
    fn replay_witness(&self, _ctx: &Ctx, f: &Finding) -> Option<String> {
        let text = f.raw.get("witness_text").and_then(|x| x.as_str())?;
        let expect: Vec<String> = f.raw.get("witness_expected_prints")?.as_arr()?.iter().filter_map(|x| x.as_str().map(|s| s.to_string())).collect();
        match compile_budgeted(text) {
            Compiled::Ok(b) => match lua::run_simple(&String::from_utf8_lossy(&b)) {
                lua::Simple::Prints(p) if p != expect => Some(f.signature.clone()),
                lua::Simple::Failed(w) => Some(format!("lua-error:{}", w)),
                _ => None,
            },
            _ => None,
        }
    }
    fn finish(&self, _ctx: &Ctx, st: &Stats) -> Finish {
        let mut inconclusive = Vec::new();
        let ok = st.get("histories_as_modelled");
        if ok * 10 < st.evaluations * 7 {
            let rej: u64 = st.counters.iter().filter(|(k, _)| k.starts_with("rejected_by_compiler")).map(|(_, v)| *v).sum();
            inconclusive.push(format!("only {} of {} histories were judged ({} rejected by the compiler)", ok, st.evaluations, rej));
        }
        for k in ["histories:list", "histories:dict", "histories:set", "histories:maybe+math"] {
            if st.get(k) == 0 {
                inconclusive.push(format!("never run: {}", k));
            }
        }
        Finish {
            level: "exploration",
            rule: "operation histories (24/40 steps) over a global list (push prepend pop get set len map filter fold find contains last), dict (from_list/new update get remove len contains_key) or set (from_list/new add remove contains len) with element/key types rotating over int, str and (int, str), and Maybe/math helper calls (orDefault isJust isNone map andThen; min max abs clamp sign div floor). Every inserted value is unique (counter), keys come from a 5-element pool, observations are order-free (len, get/contains of touched keys, comparison with source-written Maybe.Just/None, non-commutative fold over lists only). Each printed observation is compared with a Vec / BTreeMap / BTreeSet / arithmetic model. `set` at or past the end is ignored (the runtime's explicit bounds check). Unspecified calls (negative indices, div by <= 0 or of negatives) are not generated. Non-trivial: judged histories; distinct by source hash.".into(),
            extra: J::obj(),
            assumptions: vec!["luamon models Lua 5.3 tables (array part in index order for sequences); math helper results are observed through == so that int/float formatting does not matter".into()],
            exhaustive: false,
            inconclusive,
        }
    }
}
