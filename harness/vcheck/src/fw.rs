//! Check framework: case sharding over worker processes, stats merging,
//! known-findings handling, evidence and replay files, three-valued verdicts.
use crate::json::{self, J};
use std::collections::{BTreeMap, BTreeSet};
use std::io::Write;
use std::path::PathBuf;
use std::time::Instant;

#[derive(Clone, Copy, Debug, PartialEq)]
pub enum Tier {
    Quick,
    Thorough,
}
impl Tier {
    pub fn name(self) -> &'static str {
        match self {
            Tier::Quick => "quick",
            Tier::Thorough => "thorough",
        }
    }
}

#[derive(Clone, Debug)]
pub struct Ctx {
    pub tier: Tier,
    pub seed: u64,
    pub scale: f64,
}

#[derive(Clone, Debug)]
pub struct Violation {
    /// monitor-side class of the failure (stable, used to match known findings)
    pub signature: String,
    /// quarantined generator feature used by the case (None = clean case)
    pub hazard: Option<String>,
    pub case: u64,
    /// concrete inputs and what was observed
    pub detail: J,
}

#[derive(Default, Debug)]
pub struct Stats {
    pub evaluations: u64,
    pub counters: BTreeMap<String, u64>,
    pub samples: Vec<J>,
    pub violations: Vec<Violation>,
    pub violations_total: u64,
    pub hashes: Vec<u64>,
    pub notes: BTreeSet<String>,
    pub max: BTreeMap<String, u64>,
    /// known-finding observations in hazard cases: finding feature -> count
    pub known_hits: BTreeMap<String, u64>,
    /// cases that are distinct by construction (exhaustive enumerations) and non-trivial
    pub distinct_by_construction: u64,
    pub viol_keys: BTreeMap<String, u32>,
}

pub const MAX_SAMPLES: usize = 6;
pub const MAX_VIOLATIONS: usize = 40;

impl Stats {
    pub fn count(&mut self, k: &str) {
        *self.counters.entry(k.to_string()).or_insert(0) += 1;
    }
    pub fn add(&mut self, k: &str, n: u64) {
        *self.counters.entry(k.to_string()).or_insert(0) += n;
    }
    pub fn maxi(&mut self, k: &str, n: u64) {
        let e = self.max.entry(k.to_string()).or_insert(0);
        if n > *e {
            *e = n;
        }
    }
    pub fn get(&self, k: &str) -> u64 {
        self.counters.get(k).copied().unwrap_or(0)
    }
    pub fn sample(&mut self, j: impl FnOnce() -> J) {
        if self.samples.len() < MAX_SAMPLES {
            self.samples.push(j());
        }
    }
    pub fn nontrivial(&mut self, h: u64) {
        self.hashes.push(h);
    }
    pub fn violation(&mut self, v: Violation) {
        self.violations_total += 1;
        // a case the oracle judged (here: as violating) is a non-trivial evaluation too
        self.hashes.push(crate::rng::hash64(format!("violating-case:{}:{}", v.case, v.signature).as_bytes()));
        // keep at most 3 per (signature, hazard) so that frequent known findings cannot crowd out new ones
        let key = format!("{}|{:?}", v.signature, v.hazard);
        let c = self.viol_keys.entry(key).or_insert(0);
        *c += 1;
        if *c <= 3 && self.violations.len() < MAX_VIOLATIONS {
            self.violations.push(v);
        }
    }
    pub fn note(&mut self, s: impl Into<String>) {
        self.notes.insert(s.into());
    }

    fn to_json(&self) -> J {
        let mut o = J::obj();
        o.set("evaluations", J::Int(self.evaluations as i64));
        o.set(
            "counters",
            J::Obj(self.counters.iter().map(|(k, v)| (k.clone(), J::Int(*v as i64))).collect()),
        );
        o.set("max", J::Obj(self.max.iter().map(|(k, v)| (k.clone(), J::Int(*v as i64))).collect()));
        o.set(
            "known_hits",
            J::Obj(self.known_hits.iter().map(|(k, v)| (k.clone(), J::Int(*v as i64))).collect()),
        );
        o.set("distinct_by_construction", J::Int(self.distinct_by_construction as i64));
        o.set("samples", J::Arr(self.samples.clone()));
        o.set("notes", J::Arr(self.notes.iter().map(|s| J::s(s.clone())).collect()));
        o.set("violations_total", J::Int(self.violations_total as i64));
        o.set(
            "violations",
            J::Arr(
                self.violations
                    .iter()
                    .map(|v| {
                        J::obj()
                            .with("signature", J::s(v.signature.clone()))
                            .with("hazard", v.hazard.clone().map(J::Str).unwrap_or(J::Null))
                            .with("case", J::Int(v.case as i64))
                            .with("detail", v.detail.clone())
                    })
                    .collect(),
            ),
        );
        o
    }

    fn merge_json(&mut self, j: &J) {
        self.evaluations += j.get("evaluations").and_then(|x| x.as_i64()).unwrap_or(0) as u64;
        self.distinct_by_construction += j.get("distinct_by_construction").and_then(|x| x.as_i64()).unwrap_or(0) as u64;
        if let Some(m) = j.get("counters").and_then(|x| x.as_obj()) {
            for (k, v) in m {
                *self.counters.entry(k.clone()).or_insert(0) += v.as_i64().unwrap_or(0) as u64;
            }
        }
        if let Some(m) = j.get("max").and_then(|x| x.as_obj()) {
            for (k, v) in m {
                self.maxi(k, v.as_i64().unwrap_or(0) as u64);
            }
        }
        if let Some(m) = j.get("known_hits").and_then(|x| x.as_obj()) {
            for (k, v) in m {
                *self.known_hits.entry(k.clone()).or_insert(0) += v.as_i64().unwrap_or(0) as u64;
            }
        }
        if let Some(a) = j.get("samples").and_then(|x| x.as_arr()) {
            for s in a {
                if self.samples.len() < MAX_SAMPLES {
                    self.samples.push(s.clone());
                }
            }
        }
        if let Some(a) = j.get("notes").and_then(|x| x.as_arr()) {
            for s in a {
                if let Some(s) = s.as_str() {
                    self.notes.insert(s.to_string());
                }
            }
        }
        self.violations_total += j.get("violations_total").and_then(|x| x.as_i64()).unwrap_or(0) as u64;
        if let Some(a) = j.get("violations").and_then(|x| x.as_arr()) {
            for v in a {
                if self.violations.len() < MAX_VIOLATIONS * 4 {
                    self.violations.push(Violation {
                        signature: v.get("signature").and_then(|x| x.as_str()).unwrap_or("?").to_string(),
                        hazard: v.get("hazard").and_then(|x| x.as_str()).map(|s| s.to_string()),
                        case: v.get("case").and_then(|x| x.as_i64()).unwrap_or(0) as u64,
                        detail: v.get("detail").cloned().unwrap_or(J::Null),
                    });
                }
            }
        }
    }
}

pub struct Finish {
    pub level: &'static str,
    pub rule: String,
    pub extra: J,
    pub assumptions: Vec<String>,
    pub exhaustive: bool,
    /// reasons that make the run inconclusive (monitors saw too little etc.)
    pub inconclusive: Vec<String>,
}

pub trait Check: Sync {
    fn id(&self) -> &'static str;
    /// number of cases for this tier (index space 0..n)
    fn plan(&self, ctx: &Ctx) -> u64;
    /// run one case; must be deterministic in (ctx.seed, index)
    fn run_case(&self, ctx: &Ctx, index: u64, st: &mut Stats);
    /// re-run a committed witness of a known finding; returns the observed signature if it still fails
    fn replay_witness(&self, _ctx: &Ctx, _finding: &Finding) -> Option<String> {
        None
    }
    /// extra single-process work done by the master before sharding (e.g. subprocess matrices)
    fn master_pre(&self, _ctx: &Ctx, _st: &mut Stats) {}
    fn finish(&self, ctx: &Ctx, st: &Stats) -> Finish;
}

#[derive(Clone, Debug)]
pub struct Finding {
    pub id: String,
    pub property: String,
    pub status: String,
    pub feature: String,
    pub signature: String,
    pub witness: String,
    pub what: String,
    pub raw: J,
}

pub fn verif_root() -> PathBuf {
    if let Ok(r) = std::env::var("VERIF_ROOT") {
        return PathBuf::from(r);
    }
    PathBuf::from("/verif")
}

pub fn load_findings() -> Vec<Finding> {
    let p = verif_root().join("known_findings.json");
    let Ok(text) = std::fs::read_to_string(&p) else { return Vec::new() };
    let Ok(j) = json::parse(&text) else {
        eprintln!("warning: known_findings.json does not parse");
        return Vec::new();
    };
    let mut out = Vec::new();
    if let Some(a) = j.get("findings").and_then(|x| x.as_arr()) {
        for f in a {
            let g = |k: &str| f.get(k).and_then(|x| x.as_str()).unwrap_or("").to_string();
            out.push(Finding {
                id: g("id"),
                property: g("property"),
                status: g("status"),
                feature: g("feature"),
                signature: g("signature"),
                witness: g("witness"),
                what: g("what"),
                raw: f.clone(),
            });
        }
    }
    out
}

/// Is hazard feature `feature` quarantined for property `prop` (an open finding lists it)?
pub fn open_features(prop: &str) -> BTreeSet<String> {
    load_findings()
        .into_iter()
        .filter(|f| f.property == prop && f.status == "open")
        .map(|f| f.feature)
        .collect()
}

fn sig_matches(listed: &str, observed: &str) -> bool {
    // listed signature may end in '*' for a prefix match
    if let Some(p) = listed.strip_suffix('*') {
        observed.starts_with(p)
    } else {
        listed == observed
    }
}

fn nshards() -> u64 {
    if let Ok(s) = std::env::var("VERIF_JOBS") {
        if let Ok(n) = s.parse::<u64>() {
            return n.max(1);
        }
    }
    std::thread::available_parallelism().map(|n| n.get() as u64).unwrap_or(8).min(16)
}

pub fn ctx_from_env(tier: Tier) -> Ctx {
    let seed = std::env::var("VERIF_SEED").ok().and_then(|s| s.parse::<u64>().ok()).unwrap_or(1);
    let scale = std::env::var("VERIF_SCALE").ok().and_then(|s| s.parse::<f64>().ok()).unwrap_or(1.0);
    Ctx { tier, seed, scale }
}

const BIG_STACK: usize = 512 << 20;

pub fn on_big_stack<T: Send + 'static>(f: impl FnOnce() -> T + Send + 'static) -> T {
    std::thread::Builder::new()
        .stack_size(BIG_STACK)
        .spawn(f)
        .expect("spawn")
        .join()
        .expect("worker thread panicked")
}

/// Worker entry: runs the shard and writes stats to `out`.
pub fn worker_main(check: &'static dyn Check, ctx: Ctx, shard: u64, shards: u64, out: String) -> i32 {
    crate::sy::install_panic_hook();
    let journal = format!("{}.journal", out);
    let r = on_big_stack(move || {
        let mut st = Stats::default();
        let n = check.plan(&ctx);
        let mut jf = std::fs::OpenOptions::new().create(true).write(true).truncate(true).open(&journal).ok();
        let mut i = shard;
        while i < n {
            if let Some(f) = jf.as_mut() {
                use std::io::{Seek, SeekFrom};
                let _ = f.seek(SeekFrom::Start(0));
                let _ = f.write_all(format!("{:020}", i).as_bytes());
            }
            st.evaluations += 1;
            let r = crate::sy::quiet_catch(|| check.run_case(&ctx, i, &mut st));
            if let Err((msg, loc)) = r {
                st.note(format!("harness panic in case {}: {} @ {}", i, msg, loc));
                st.count("harness_panics");
            }
            i += shards;
        }
        st
    });
    let mut j = r.to_json();
    // hashes go to a side file (binary) to keep the JSON small
    let mut hb = Vec::with_capacity(r.hashes.len() * 8);
    for h in &r.hashes {
        hb.extend_from_slice(&h.to_le_bytes());
    }
    let _ = std::fs::write(format!("{}.hashes", out), hb);
    j.set("done", J::Bool(true));
    match std::fs::write(&out, j.to_string()) {
        Ok(_) => 0,
        Err(e) => {
            eprintln!("worker: cannot write {}: {}", out, e);
            3
        }
    }
}

pub fn replay_case(check: &'static dyn Check, ctx: Ctx, index: u64) -> i32 {
    let st = on_big_stack(move || {
        let mut st = Stats::default();
        check.run_case(&ctx, index, &mut st);
        st
    });
    println!("{}", st.to_json().pretty());
    if st.violations_total > 0 {
        1
    } else {
        0
    }
}

/// Master entry. Returns the process exit code.
pub fn master_main(check: &'static dyn Check, ctx: Ctx) -> i32 {
    let t0 = Instant::now();
    let id = check.id();
    let root = verif_root();
    let scratch = root.join(".target").join("runs").join(format!("{}-{}-{}", id, ctx.tier.name(), std::process::id()));
    let _ = std::fs::create_dir_all(&scratch);
    let shards = nshards();
    let exe = std::env::current_exe().expect("current_exe");

    let mut merged = Stats::default();
    check.master_pre(&ctx, &mut merged);

    let n = check.plan(&ctx);
    let mut children = Vec::new();
    if n > 0 {
        for s in 0..shards.min(n) {
            let out = scratch.join(format!("w{}.json", s));
            let child = std::process::Command::new(&exe)
                .arg("worker")
                .arg(id)
                .arg(ctx.tier.name())
                .arg(ctx.seed.to_string())
                .arg(s.to_string())
                .arg(shards.min(n).to_string())
                .arg(out.display().to_string())
                .env("VERIF_SCALE", ctx.scale.to_string())
                .spawn();
            match child {
                Ok(c) => children.push((s, out, c)),
                Err(e) => {
                    merged.note(format!("cannot spawn worker {}: {}", s, e));
                }
            }
        }
    }
    let mut worker_deaths: Vec<(u64, String, String)> = Vec::new();
    let mut all_hashes: Vec<u64> = std::mem::take(&mut merged.hashes);
    for (s, out, mut c) in children {
        let status = c.wait();
        let ok = matches!(&status, Ok(st) if st.success());
        let text = std::fs::read_to_string(&out).unwrap_or_default();
        let parsed = json::parse(&text).ok();
        if ok && parsed.is_some() {
            merged.merge_json(parsed.as_ref().unwrap());
            if let Ok(b) = std::fs::read(format!("{}.hashes", out.display())) {
                for ch in b.chunks_exact(8) {
                    all_hashes.push(u64::from_le_bytes(ch.try_into().unwrap()));
                }
            }
        } else {
            let case = std::fs::read_to_string(format!("{}.journal", out.display())).unwrap_or_default();
            worker_deaths.push((s, format!("{:?}", status), case.trim_start_matches('0').to_string()));
        }
    }
    all_hashes.sort_unstable();
    all_hashes.dedup();
    let distinct = all_hashes.len() as u64 + merged.distinct_by_construction;

    // Worker deaths: a dead worker means the case it journaled killed the process.
    for (s, status, case) in &worker_deaths {
        let case_n: u64 = case.parse().unwrap_or(0);
        if id == "C07" {
            merged.violation(Violation {
                signature: "worker-death".into(),
                hazard: None,
                case: case_n,
                detail: J::obj().with("status", J::s(status.clone())).with("shard", J::Int(*s as i64)),
            });
        } else {
            merged.note(format!("worker {} died ({}) in case {}", s, status, case));
        }
    }

    // Known findings.
    let findings: Vec<Finding> = load_findings().into_iter().filter(|f| f.property == id).collect();
    let open: Vec<&Finding> = findings.iter().filter(|f| f.status == "open").collect();
    let mut known_lines = Vec::new();
    let mut witness_results = Vec::new();
    // a finding quarantines hazard cases only while its committed witness still fails: a witness that has stopped
    // failing means the entry is stale (repaired, or moved), and what it used to cover is reported again
    let mut active: std::collections::BTreeSet<String> = std::collections::BTreeSet::new();
    for f in &open {
        let has_witness = !f.witness.is_empty() || f.raw.get("witness_text").is_some() || f.raw.get("witness_variants").is_some();
        let observed = if has_witness { check.replay_witness(&ctx, f) } else { None };
        let still = match &observed {
            Some(sig) => sig_matches(&f.signature, sig),
            None => false,
        };
        witness_results.push(
            J::obj()
                .with("id", J::s(f.id.clone()))
                .with("observed", observed.clone().map(J::Str).unwrap_or(J::Null))
                .with("still_fails", J::Bool(still)),
        );
        if still || !has_witness {
            active.insert(f.id.clone());
        }
        if still {
            known_lines.push(format!("KNOWN-FINDING: property={} {} [{}]", id, f.what, f.id));
        } else if let Some(sig) = observed {
            // witness fails differently: that is a new violation
            merged.violation(Violation {
                signature: format!("witness-changed:{}", sig),
                hazard: None,
                case: 0,
                detail: J::obj().with("finding", J::s(f.id.clone())).with("expected", J::s(f.signature.clone())),
            });
        }
    }

    // Partition violations into known / new.
    let mut new_violations = Vec::new();
    let mut known_counts: BTreeMap<String, u64> = BTreeMap::new();
    for v in &merged.violations {
        let mut is_known = false;
        if let Some(h) = &v.hazard {
            for f in &open {
                if &f.feature == h && sig_matches(&f.signature, &v.signature) && active.contains(&f.id) {
                    is_known = true;
                    *known_counts.entry(f.id.clone()).or_insert(0) += 1;
                    break;
                }
            }
        }
        if !is_known {
            new_violations.push(v.clone());
        }
    }

    let fin = check.finish(&ctx, &merged);
    let mut inconclusive: Vec<String> = fin.inconclusive.clone();
    for nte in &merged.notes {
        if nte.starts_with("harness panic") || nte.starts_with("worker") || nte.starts_with("cannot spawn") || nte.starts_with("inconclusive:") {
            inconclusive.push(nte.clone());
        }
    }

    // Evidence.
    let wall = t0.elapsed().as_secs_f64();
    let mut cov = J::obj();
    cov.set("evaluations", J::Int(merged.evaluations.max(1) as i64));
    cov.set("distinct_nontrivial", J::Int(distinct as i64));
    cov.set("rule", J::s(fin.rule.clone()));
    cov.set("samples", J::Arr(if merged.samples.is_empty() { vec![J::s("(no sample recorded)")] } else { merged.samples.clone() }));
    cov.set("exhaustive", J::Bool(fin.exhaustive));
    cov.set(
        "counters",
        J::Obj(merged.counters.iter().map(|(k, v)| (k.clone(), J::Int(*v as i64))).collect()),
    );
    cov.set("maxima", J::Obj(merged.max.iter().map(|(k, v)| (k.clone(), J::Int(*v as i64))).collect()));
    cov.set("known_findings_observed", J::Obj(known_counts.iter().map(|(k, v)| (k.clone(), J::Int(*v as i64))).collect()));
    cov.set("known_finding_witnesses", J::Arr(witness_results));
    cov.set("inconclusive_reasons", J::Arr(inconclusive.iter().map(|s| J::s(s.clone())).collect()));
    cov.set("notes", J::Arr(merged.notes.iter().map(|s| J::s(s.clone())).collect()));
    cov.set("workers", J::Int(shards as i64));
    if let J::Obj(m) = &fin.extra {
        for (k, v) in m {
            cov.set(k, v.clone());
        }
    }
    let ev = J::obj()
        .with("property_id", J::s(id))
        .with("tier", J::s(ctx.tier.name()))
        .with("seed", J::Int(ctx.seed as i64))
        .with("level", J::s(fin.level))
        .with("coverage", cov)
        .with("assumptions", J::Arr(fin.assumptions.iter().map(|s| J::s(s.clone())).collect()))
        .with("wall_s", J::Num((wall * 100.0).round() / 100.0))
        .with("violations", J::Int(new_violations.len() as i64));
    let evdir = root.join("evidence");
    let _ = std::fs::create_dir_all(&evdir);
    let evpath = evdir.join(format!("{}.json", id));
    if let Err(e) = std::fs::write(&evpath, ev.pretty()) {
        eprintln!("cannot write evidence {}: {}", evpath.display(), e);
    }

    // Output.
    println!(
        "{} {} seed={} evaluations={} distinct_nontrivial={} wall={:.1}s",
        id,
        ctx.tier.name(),
        ctx.seed,
        merged.evaluations,
        distinct,
        wall
    );
    for (k, v) in &merged.counters {
        println!("  {:<48} {}", k, v);
    }
    for (k, v) in &merged.max {
        println!("  max {:<44} {}", k, v);
    }
    for l in &known_lines {
        println!("{}", l);
    }
    for (k, v) in &known_counts {
        println!("  known finding {} observed in {} hazard case(s)", k, v);
    }
    let _ = std::fs::remove_dir_all(&scratch);
    if !new_violations.is_empty() {
        let rdir = root.join("replays").join(id);
        let _ = std::fs::create_dir_all(&rdir);
        let mut seen_sig = BTreeSet::new();
        for v in &new_violations {
            let first = seen_sig.insert(v.signature.clone());
            let path = rdir.join(format!("{}-seed{}-case{}.json", ctx.tier.name(), ctx.seed, v.case));
            let rj = J::obj()
                .with("property", J::s(id))
                .with("tier", J::s(ctx.tier.name()))
                .with("seed", J::Int(ctx.seed as i64))
                .with("case", J::Int(v.case as i64))
                .with("signature", J::s(v.signature.clone()))
                .with("hazard", v.hazard.clone().map(J::Str).unwrap_or(J::Null))
                .with("detail", v.detail.clone());
            let _ = std::fs::write(&path, rj.pretty());
            if first || seen_sig.len() <= 10 {
                println!("VIOLATION property={} replay={}", id, path.display());
                println!("  signature: {}", v.signature);
            }
        }
        println!("  ({} violating case(s) in total)", merged.violations_total);
        return 1;
    }
    if !inconclusive.is_empty() {
        for r in &inconclusive {
            println!("INCONCLUSIVE property={} reason={}", id, r);
        }
        return 2;
    }
    println!("HELD property={} on everything explored", id);
    0
}

/// Helper for scaling case counts.
pub fn scaled(ctx: &Ctx, quick: u64, thorough: u64) -> u64 {
    let base = match ctx.tier {
        Tier::Quick => quick,
        Tier::Thorough => thorough,
    };
    ((base as f64) * ctx.scale).max(1.0) as u64
}
