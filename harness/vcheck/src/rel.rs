//! Relational (metamorphic) oracles shared by C08, C09, C14 (and others):
//! several surface renderings of ONE abstract program must be accepted alike and
//! compile to the same Lua bytes.
use crate::ast::*;
use crate::fw::*;
use crate::json::J;
use crate::print::*;
use crate::rng::hash64;
use crate::sy::{self, Compiled};

pub struct Variant {
    pub label: String,
    pub text: String,
}

/// Mask what the property allows to differ: the line number in `<!>` messages.
pub fn mask_unreachable_line(lua: &[u8]) -> Vec<u8> {
    let s = String::from_utf8_lossy(lua);
    let mut out = String::with_capacity(s.len());
    let pat = "Reached unreachable code on line ";
    let mut rest: &str = &s;
    while let Some(i) = rest.find(pat) {
        out.push_str(&rest[..i + pat.len()]);
        rest = &rest[i + pat.len()..];
        let digits = rest.chars().take_while(|c| c.is_ascii_digit()).count();
        out.push('N');
        rest = &rest[digits..];
    }
    out.push_str(rest);
    out.into_bytes()
}

pub const CAMPAIGN_FUEL: u64 = 2_000_000;

pub fn compile_budgeted(text: &str) -> Compiled {
    sy::compile_files(&sy::one_file(text), "main.sy", &sy::CompileOpts { fuel: Some(CAMPAIGN_FUEL), ..Default::default() })
}

fn slug(s: &str) -> String {
    let t: String = s
        .lines()
        .skip(1)
        .take(2)
        .collect::<Vec<_>>()
        .join("|")
        .chars()
        .filter(|c| !c.is_ascii_digit())
        .map(|c| if c.is_ascii_alphanumeric() || c == '|' { c.to_ascii_lowercase() } else { '-' })
        .collect();
    let mut out = String::new();
    for c in t.chars() {
        if c == '-' && out.ends_with('-') {
            continue;
        }
        out.push(c);
    }
    out.chars().take(70).collect()
}

pub enum RelOutcome {
    /// some variant exhausted the compile budget: the case is not judged
    Budget,
    AllAcceptedEqual,
    AllRejected,
    Violation { signature: String, detail: J },
}

pub fn compare_variants(vs: &[Variant], mask_lines: bool) -> RelOutcome {
    let results: Vec<Compiled> = vs.iter().map(|v| compile_budgeted(&v.text)).collect();
    if results.iter().any(|r| matches!(r, Compiled::Fuel)) {
        return RelOutcome::Budget;
    }
    let key = |c: &Compiled| -> String {
        match c {
            Compiled::Ok(b) => {
                let b = if mask_lines { mask_unreachable_line(b) } else { b.clone() };
                format!("ok:{:016x}", hash64(&b))
            }
            Compiled::Err { .. } => "rejected".to_string(),
            Compiled::Panic { location, .. } => format!("panic@{}", location),
            Compiled::Fuel => "fuel".to_string(),
        }
    };
    let keys: Vec<String> = results.iter().map(key).collect();
    if keys.iter().all(|k| k == &keys[0]) {
        return if keys[0].starts_with("ok:") {
            RelOutcome::AllAcceptedEqual
        } else {
            RelOutcome::AllRejected
        };
    }
    // find the first pair that differs
    let j = keys.iter().position(|k| k != &keys[0]).unwrap();
    let acceptance = keys[0].starts_with("ok:") != keys[j].starts_with("ok:");
    let mut signature = if acceptance { "rel:acceptance-differs".to_string() } else { "rel:lua-differs".to_string() };
    if acceptance {
        let e = results[0].first_error().or(results[j].first_error());
        if let Some(e) = e {
            signature = format!("{}:{}", signature, slug(&e.display));
        }
    }
    let mut d = J::obj()
        .with("variant_a", J::s(vs[0].label.clone()))
        .with("variant_b", J::s(vs[j].label.clone()))
        .with("result_a", J::s(keys[0].clone()))
        .with("result_b", J::s(keys[j].clone()))
        .with("text_a", J::s(vs[0].text.clone()))
        .with("text_b", J::s(vs[j].text.clone()));
    for (k, r) in [(0usize, &results[0]), (j, &results[j])] {
        if let Some(e) = r.first_error() {
            d.set(if k == 0 { "error_a" } else { "error_b" }, J::s(e.display.clone()));
        }
    }
    if let (Some(a), Some(b)) = (results[0].lua(), results[j].lua()) {
        // first differing line of the user part
        let (ua, ub) = (sy::user_part(a), sy::user_part(b));
        for (n, (la, lb)) in ua.lines().zip(ub.lines()).enumerate() {
            if la != lb {
                d.set("first_differing_lua_line", J::obj().with("n", J::Int(n as i64)).with("a", J::s(la)).with("b", J::s(lb)));
                break;
            }
        }
    }
    RelOutcome::Violation { signature, detail: d }
}

pub fn print_with<'a>(
    p: &'a Program,
    name: &'a dyn Fn(BId) -> String,
    annot: &'a dyn Fn(AnnotSite) -> bool,
    sugar: Option<u64>,
    layout: Option<u64>,
    order: Option<&[usize]>,
) -> String {
    let bref = |b: usize| p.blobs[b].name.clone();
    let eref = |e: usize| p.enums[e].name.clone();
    let o = PrintOpts { name, global_ref: name, blob_ref: &bref, enum_ref: &eref, annot, sugar, layout };
    Printer::new(p, &o).program(order)
}

pub fn record(st: &mut Stats, out: RelOutcome, case: u64, hazard: Option<String>, what: &str) -> bool {
    match out {
        RelOutcome::AllAcceptedEqual => {
            st.count(&format!("{}:all_variants_accepted_and_equal", what));
            true
        }
        RelOutcome::Budget => {
            st.count(&format!("{}:discarded_compile_budget_exhausted", what));
            false
        }
        RelOutcome::AllRejected => {
            st.count(&format!("{}:discarded_all_variants_rejected", what));
            false
        }
        RelOutcome::Violation { signature, detail } => {
            st.violation(Violation { signature, hazard, case, detail });
            false
        }
    }
}

/// Re-run the committed witness of a relational finding: `witness_variants` = [text_a, text_b].
pub fn replay_variants(f: &Finding, mask: bool) -> Option<String> {
    let vs: Vec<Variant> = f
        .raw
        .get("witness_variants")?
        .as_arr()?
        .iter()
        .enumerate()
        .filter_map(|(i, t)| t.as_str().map(|t| Variant { label: format!("witness#{}", i), text: t.to_string() }))
        .collect();
    if vs.len() < 2 {
        return None;
    }
    match compare_variants(&vs, mask) {
        RelOutcome::Violation { signature, .. } => Some(signature),
        _ => None,
    }
}
