//! C03 / C04 / C05 — "must be rejected" properties share one planting engine:
//! an accepted, generated base program gets exactly one definite violation of
//! one kind at one site; the variant must be rejected with >= 1 error and no Lua.
use crate::ast::*;
use crate::fw::*;
use crate::gen::{self, Cfg};
use crate::json::J;
use crate::print::*;
use crate::rel::{compile_budgeted, print_with};
use crate::rng::{hash64, Rng};
use crate::sy::{self, Compiled};
use crate::visit::{self, BlockCtx};

#[derive(Clone, Copy)]
pub enum Body {
    /// an ill-typed expression; embedded in several statement forms
    Expr(&'static str),
    /// statement lines (self-contained)
    Stmts(&'static [&'static str]),
    /// violation lines that only make sense inside a `pu` function; wrapped by the engine
    InPure { prelude: &'static [&'static str], params: &'static str, viol: &'static [&'static str] },
    /// `break`/`continue`-like statements that must be planted where no loop of the same function encloses the site
    OutsideLoop(&'static [&'static str]),
}

#[derive(Clone, Copy)]
pub struct Kind {
    pub name: &'static str,
    pub body: Body,
    /// (form, hazard feature): this kind in this form is a quarantined hazard feature; form "*" = any
    pub hazard: Option<(&'static str, &'static str)>,
}

const fn k(name: &'static str, body: Body) -> Kind {
    Kind { name, body, hazard: None }
}

/// Helper declarations appended to every base program (also to the unplanted base, so their validity is confirmed).
pub const HELPERS: &str = r#"
zh1 :: fn a: int -> int do
    a
end

zh_void :: fn do
end

Zb1 :: blob {
    q: int,
}

Zg :: blob(*T) {
    g: *T,
}

Zb2 :: blob {
    a: int,
    b: str,
}

Ze2 :: enum
    A int,
    B,
    C,
end

Zx :: externblob {
    a: int,
}

Zbf :: blob {
    f: fn -> int,
}

Zbp :: blob {
    f: pu int -> int,
}

Zbs :: blob {
    n: int,
    g: pu -> int,
}

hzc :: 1

hzm := 1

hzf :: fn -> int do
    1
end

hzi :: fn x: int -> int do
    x
end

hzp :: pu x: int -> int do
    x
end

hmk :: fn -> Zb2 do
    Zb2 { a: 1, b: "s" }
end

zinf_add :: fn a ->
    a + 1
end

zinf_cmp :: fn a, b ->
    a < b
end

zinf_neg :: fn a ->
    -a
end

zinf_mul :: fn a, b ->
    a * b
end

zgen_add :: fn a: *A, b: *A -> *A do
    a + b
end

zinf_fld :: fn p ->
    p.nope
end

zinf_call :: fn f, x ->
    x
end

zlen :: fn l: [*A] -> int do
    0
end

zid :: fn a: *A -> *A do
    a
end

Zbq :: blob {
    f: fn int -> int,
}

Zbm :: blob {
    n: int,
    f: fn -> int,
}

Zn :: blob {
    a: int,
}

Zw :: blob {
    a: int,
    b: int,
}

Zfr :: blob {
    name: str,
    origin: fn int -> Zlate1,
}

Zlate1 :: blob {
    x: int,
}

Zfe :: enum
    Now int,
    Later fn -> Zlate2,
end

Zlate2 :: blob {
    value: int,
}

Zfp :: blob {
    sink: fn Zlate3 -> int,
}

Zlate3 :: blob {
    x: int,
}

Zfl :: blob {
    items: [Zlate4],
}

Zlate4 :: blob {
    x: int,
}

Zft :: blob {
    pair: (int, Zlate5),
}

Zlate5 :: blob {
    x: int,
}

Zfm :: blob {
    opt: Maybe(Zlate6),
}

Zlate6 :: blob {
    x: int,
}

hzmp := pu x: int -> int do
    x
end

Zshop :: blob {
    name: str,
    cheapest: fn -> Zitem,
    pick: fn -> Zkind,
    at: fn -> (int, int),
}

Zitem :: blob {
    label: str,
    price: int,
}

Zkind :: enum
    Num int,
    Txt str,
end

zinf_case :: fn s -> int do
    case s do
        A zx -> 0 end
        B -> 1 end
        B -> 2 end
    end
end

zinf_tdivn :: fn p do
    zq :: (p, 1.0) / 2.0
end

zinf_quot :: fn p ->
    (p / 2) > "s"
end

zinf_quotv :: fn p, c ->
    (p / 2) > (if c do
        0.0
    end)
end

zinf_quotd :: fn p, q ->
    (p / q) + 1
end

zinf_tcmp :: fn p ->
    (p, 1) < (6, 1)
end

zinf_tadd :: fn p ->
    (p, 1) + (2, 3)
end

zinf_tsub :: fn p, q ->
    (1.5, p) - (q, 2)
end

zlk_apply :: fn f: fn *A -> *B, x: *A -> *B do
    ret f(x)
end

zlk_apply2 :: fn f: fn *A, *A -> *A, x: *A -> *A do
    ret f(x, x)
end

zlk_each :: fn fs: [fn *A -> *B], x: *A -> [*B] do
    ret []
end

zlk_pair :: fn p: (fn *A -> *B, *A) -> *B do
    ret p[0](p[1])
end

zlk_pu :: pu f: pu *A -> *B, x: *A -> *B do
    ret f(x)
end

zlk_late :: fn x: *A, f: fn *A -> *B -> *B do
    ret f(x)
end

zlk_deep :: fn f: fn (fn *A -> int) -> int, x: *A -> int do
    ret f(fn y: *A -> int do 0 end)
end

zinf_if :: fn c ->
    if c do
        1
    else do
        2
    end
end

zinf_elif :: fn c ->
    if false do
        1
    elif c do
        2
    else do
        3
    end
end

zinf_loop :: fn c do
    loop c do
        break
    end
end

zinf_not :: fn c ->
    not c
end

zinf_and :: fn c, d ->
    c and d
end

zlast3 :: fn t: (*A, *B, *A) -> *A do
    t[2]
end

zsame3 :: fn l: [(*A, *B, *A)] -> int do
    0
end

Zpair3 :: blob(*A, *B) {
    a: *A,
    b: *B,
    c: *A,
}

Z3 :: blob {
    a: int,
    b: int,
    c: int,
}

Zsk :: blob {
    sink: fn Zb2 -> int,
    pick: fn (int, int) -> int,
    tag: fn Ze2 -> int,
}
"#;

// ---------------------------------------------------------------- C03 kinds

pub const C03_KINDS: &[Kind] = &[
    k("int + str", Body::Expr("1 + \"s\"")),
    k("str - str", Body::Expr("\"a\" - \"b\"")),
    k("int * str", Body::Expr("2 * \"s\"")),
    k("float + int", Body::Expr("1.5 + 1")),
    k("int / str", Body::Expr("4 / \"s\"")),
    k("int == float", Body::Expr("1 == 1.5")),
    k("int != str", Body::Expr("1 != \"s\"")),
    k("int < str", Body::Expr("1 < \"a\"")),
    k("bool <= bool", Body::Expr("true <= false")),
    k("not int", Body::Expr("not 1")),
    k("int and bool", Body::Expr("1 and true")),
    k("bool or str", Body::Expr("true or \"s\"")),
    Kind { name: "neg str", body: Body::Expr("-\"s\""), hazard: Some(("unused-expression", "neg_on_non_number_as_unused_statement")) },
    k("neg bool", Body::Expr("-true")),
    k("call: one argument too many", Body::Expr("zh1(1, 2)")),
    k("call: one argument too few", Body::Expr("zh1()")),
    k("call: argument of another type", Body::Expr("zh1(\"s\")")),
    k("call: float for int parameter", Body::Expr("zh1(1.5)")),
    k("heterogeneous list", Body::Expr("[1, \"a\"]")),
    k("heterogeneous list (nested)", Body::Expr("[[1], [\"a\"]]")),
    k("call of an int", Body::Expr("3()")),
    k("call of a str", Body::Expr("\"f\"(1)")),
    k("blob field of another type", Body::Expr("Zb1 { q: \"s\" }")),
    k("tuple + tuple with mismatching element", Body::Expr("(1, 2) + (1, \"a\")")),
    k("declared int, value str", Body::Stmts(&["zq: int = \"s\""])),
    k("declared str constant, value int", Body::Stmts(&["zq: str : 1"])),
    k("declared list of int, value list of str", Body::Stmts(&["zq: [int] = [\"a\"]"])),
    k("declared tuple, wrong element", Body::Stmts(&["zq: (int, str) = (1, 2)"])),
    k("return value contradicts declared return type (ret)", Body::Stmts(&["zf :: fn -> int do", "    ret \"s\"", "end"])),
    k("return value contradicts declared return type (implicit)", Body::Stmts(&["zf :: fn -> int do", "    \"s\"", "end"])),
    k("parameter used against its declared type", Body::Stmts(&["zf :: fn a: int -> str do", "    ret a", "end"])),
    k("two returns of different types", Body::Stmts(&["zf :: fn c: bool ->", "    if c do", "        ret 1", "    end", "    ret \"s\"", "end"])),
    // a condition / boolean operand whose type is unknown where it is written becomes a requirement on whatever
    // it is unified with later (call argument, later use, element type)
    k("un-annotated if condition called with an int", Body::Stmts(&["zq :: zinf_if(0)"])),
    k("un-annotated if condition called with a str variable", Body::Stmts(&["zs :: \"yes\"", "zq :: zinf_if(zs)"])),
    k("un-annotated elif condition called with an int", Body::Stmts(&["zq :: zinf_elif(1)"])),
    k("un-annotated loop condition called with a str", Body::Stmts(&["zinf_loop(\"yes\")"])),
    k("un-annotated operand of not called with an int", Body::Stmts(&["zq :: zinf_not(1)"])),
    k("un-annotated operand of and called with an int", Body::Stmts(&["zq :: zinf_and(true, 1)"])),
    k("lambda parameter used as a condition over a list of int", Body::Stmts(&["for_each([1, 2], fn ze do", "    if ze do", "    end", "end)"])),
    k("lambda parameter used as a loop condition over a list of str", Body::Stmts(&["for_each([\"a\"], fn ze do", "    loop ze do", "        break", "    end", "end)"])),
    k("local function parameter used as a condition and then added", Body::Stmts(&["zf :: fn zc ->", "    if zc do", "    end", "    zc + zc", "end"])),
    k("local function parameter used as a condition and then compared with an int", Body::Stmts(&["zf :: fn zc ->", "    if zc do", "    end", "    zc < 3", "end"])),
    k("if condition int", Body::Stmts(&["if 1 do", "end"])),
    k("loop condition str", Body::Stmts(&["loop \"s\" do", "    break", "end"])),
    k("elif condition int", Body::Stmts(&["if true do", "elif 0 do", "end"])),
    k("void stored by :=", Body::Stmts(&["zq := print(1)"])),
    k("void stored in constant", Body::Stmts(&["zq :: zh_void()"])),
    k("void passed as argument", Body::Stmts(&["print(zh_void())"])),
    k("assignment of another type", Body::Stmts(&["zm := 1", "zm = \"s\""])),
    k("compound assignment of another type", Body::Stmts(&["zm := 1", "zm += \"s\""])),
    k("if-expression arms of different types", Body::Stmts(&["zq := if true do 1 else do \"s\" end"])),
    // the same mismatches with variables as operands (larger inference classes than literals)
    k("int + str through variables", Body::Stmts(&["zi :: 1", "zs :: \"s\"", "zq := zi + zs"])),
    k("str - int through variables", Body::Stmts(&["zi :: 1", "zs :: \"s\"", "zq := zs - zi"])),
    k("bool < bool through variables", Body::Stmts(&["zt :: true", "zf :: false", "zq := zt < zf"])),
    k("neg of bool variable", Body::Stmts(&["zt :: true", "zq := -zt"])),
    k("int == str through variables", Body::Stmts(&["zi :: 1", "zs :: \"s\"", "zq := zi == zs"])),
    // ... and deferred through un-annotated functions
    k("un-annotated `a + 1` called with str variable", Body::Stmts(&["zs :: \"x\"", "zinf_add(zs)"])),
    k("un-annotated `a + 1` called with str literal", Body::Stmts(&["zinf_add(\"x\")"])),
    k("un-annotated `a + 1` used at int, then at str variable", Body::Stmts(&["zinf_add(1)", "zs :: \"x\"", "zinf_add(zs)"])),
    k("un-annotated `a < b` called with bool variables", Body::Stmts(&["zt :: true", "zf :: false", "zinf_cmp(zt, zf)"])),
    k("un-annotated `-a` called with bool variable", Body::Stmts(&["zt :: true", "zinf_neg(zt)"])),
    k("un-annotated `a * b` called with int and str variables", Body::Stmts(&["zi :: 2", "zs :: \"x\"", "zinf_mul(zi, zs)"])),
    k("generic `a + b` called with bool variables", Body::Stmts(&["zt :: true", "zgen_add(zt, zt)"])),
    k("generic `a + b` called with int and str variables", Body::Stmts(&["zi :: 2", "zs :: \"x\"", "zgen_add(zi, zs)"])),
    k("Num-constrained abs called with str variable", Body::Stmts(&["zs :: \"x\"", "zq := abs(zs)"])),
    k("mutable variable of one type passed where another is needed", Body::Stmts(&["zm := \"x\"", "zm = zm + \"y\"", "zh1(zm)"])),
    // a wrongly typed `ret` in every control-flow position of the function body (trailing and not)
    k("ret of another type in trailing if (else yields the value)", Body::Stmts(&["zf :: fn zx: int -> int do", "    if zx < 0 do", "        ret \"s\"", "    else do", "        1", "    end", "end"])),
    k("ret of a value in trailing if of a void function", Body::Stmts(&["zf :: fn zx: int do", "    if zx > 1 do", "        ret \"big\"", "    end", "end"])),
    k("ret of another type in trailing case arm", Body::Stmts(&["zf :: fn zx: int -> int do", "    case Ze2.B do", "        A zy ->", "            ret \"s\"", "        end", "        else", "            1", "        end", "    end", "end"])),
    k("ret of another type in trailing block", Body::Stmts(&["zf :: fn -> int do", "    do", "        ret \"s\"", "    end", "end"])),
    k("two rets of different types in the arms of a trailing if", Body::Stmts(&["zf :: fn zc: bool ->", "    if zc do", "        ret 1", "    else do", "        ret \"s\"", "    end", "end"])),
    k("ret of another type in an if that ends an inner if", Body::Stmts(&["zf :: fn zc: bool -> int do", "    if zc do", "        if zc do", "            ret \"s\"", "        end", "    end", "    1", "end"])),
    k("ret of another type in a non-trailing if of a trailing else arm", Body::Stmts(&["zf :: fn zc: bool -> int do", "    if zc do", "        2", "    else do", "        if zc do", "            ret \"s\"", "        end", "        1", "    end", "end"])),
    k("ret of another type in an if-expression bound to a constant", Body::Stmts(&["zf :: fn zc: bool -> int do", "    zq :: if zc do", "        ret \"s\"", "    else do", "        1", "    end", "    zq", "end"])),
    k("ret of another type in a loop body", Body::Stmts(&["zf :: fn zc: bool -> int do", "    loop zc do", "        ret \"s\"", "    end", "    1", "end"])),
    k("ret of another type in an if-expression operand of the trailing expression", Body::Stmts(&["zf :: fn zc: bool -> int do", "    1 + if zc do", "        ret \"s\"", "    else do", "        1", "    end", "end"])),
    k("ret of another type in an if-expression that is a list element", Body::Stmts(&["zf :: fn zc: bool -> int do", "    zq :: [2, if zc do", "        ret \"s\"", "    else do", "        1", "    end]", "    1", "end"])),
    k("ret of another type in an if-expression that is the only list element", Body::Stmts(&["zf :: fn zc: bool -> int do", "    zq :: [if zc do", "        ret \"s\"", "    else do", "        1", "    end]", "    1", "end"])),
    k("ret of another type in an if-expression that is a tuple element", Body::Stmts(&["zf :: fn zc: bool -> int do", "    zq :: (2, if zc do", "        ret \"s\"", "    else do", "        1", "    end)", "    1", "end"])),
    k("ret of another type in an if-expression that is a blob field", Body::Stmts(&["zf :: fn zc: bool -> int do", "    zq :: Z3 { a: 1, b: 2, c: if zc do", "        ret \"s\"", "    else do", "        1", "    end }", "    1", "end"])),
    k("ret of another type in an if-expression that is a call argument", Body::Stmts(&["zf :: fn zc: bool -> int do", "    zq :: zh1(if zc do", "        ret \"s\"", "    else do", "        1", "    end)", "    1", "end"])),
    k("ret of another type in an if-expression that is a nested list element", Body::Stmts(&["zf :: fn zc: bool -> int do", "    zq :: [[2], [if zc do", "        ret \"s\"", "    else do", "        1", "    end]]", "    1", "end"])),
    k("ret of another type in an if-expression that is a list element passed to a call", Body::Stmts(&["zf :: fn zc: bool -> int do", "    zq :: zlen([2, if zc do", "        ret \"s\"", "    else do", "        1", "    end])", "    1", "end"])),
    k("ret of another type in an if-expression that is an index", Body::Stmts(&["zf :: fn zc: bool -> int do", "    zq :: [1, 2][if zc do", "        ret \"s\"", "    else do", "        1", "    end]", "    1", "end"])),
    k("ret of another type in an if-expression that is a variant payload", Body::Stmts(&["zf :: fn zc: bool -> int do", "    zq :: Ze2.A if zc do", "        ret \"s\"", "    else do", "        1", "    end", "    1", "end"])),
    k("ret of another type in an if-expression that is a comparison operand", Body::Stmts(&["zf :: fn zc: bool -> int do", "    zq :: 2 < if zc do", "        ret \"s\"", "    else do", "        1", "    end", "    1", "end"])),
    k("ret of another type in a case-expression that is a list element", Body::Stmts(&["zf :: fn zc: bool -> int do", "    zq :: [2, case Ze2.B do", "        A zy ->", "            ret \"s\"", "        end", "        else", "            1", "        end", "    end]", "    1", "end"])),
    k("ret of a value in an if-expression list element of a void function", Body::Stmts(&["zf :: fn zc: bool do", "    zq :: [2, if zc do", "        ret \"s\"", "    else do", "        1", "    end]", "end"])),
    k("two rets of different types, the second in a list element", Body::Stmts(&["zf :: fn zc: bool ->", "    if zc do", "        ret 1", "    end", "    zq :: [2, if zc do", "        ret \"s\"", "    else do", "        1", "    end]", "    1", "end"])),
    // `self` inside a method is the blob being built: its fields have their declared types
    k("self field used at another type in a method", Body::Stmts(&["zo :: Zbm { n: 1, f: fn -> int do", "    zq :: self.n + \"s\"", "    1", "end }"])),
    k("self field assigned a value of another type in a method", Body::Stmts(&["zo :: Zbm { n: 1, f: fn -> int do", "    self.n = \"s\"", "    1", "end }"])),
    k("self field of function type called with a wrong argument", Body::Stmts(&["zo :: Zbm { n: 1, f: fn -> int do", "    self.f(1)", "end }"])),
    // element-wise tuple operators whose element types are only known at the call
    k("un-annotated `(p, 1) < (6, 1)` called with a str", Body::Stmts(&["zs :: \"x\"", "zinf_tcmp(zs)"])),
    k("un-annotated `(p, 1) + (2, 3)` called with a str", Body::Stmts(&["zinf_tadd(\"x\")"])),
    k("un-annotated `(1.5, p) - (q, 2)` called with a str and an int", Body::Stmts(&["zs :: \"x\"", "zinf_tsub(zs, 1.5)"])),
    k("un-annotated `(1.5, p) - (q, 2)` called with an int for the float", Body::Stmts(&["zinf_tsub(1, 2)"])),
    // blobs are structural: a blob with fewer fields is not a blob with more fields, in either direction
    k("narrow blob assigned to a wide blob variable", Body::Stmts(&["zv := Zw { a: 1, b: 2 }", "zv = Zn { a: 1 }"])),
    k("wide blob assigned to a narrow blob variable", Body::Stmts(&["zv := Zn { a: 1 }", "zv = Zw { a: 1, b: 2 }"])),
    k("if-expression: wide arm then narrow arm", Body::Stmts(&["zq := if true do", "    Zw { a: 1, b: 2 }", "else do", "    Zn { a: 1 }", "end"])),
    k("if-expression: narrow arm then wide arm", Body::Stmts(&["zq := if true do", "    Zn { a: 1 }", "else do", "    Zw { a: 1, b: 2 }", "end"])),
    k("narrow blob passed for a wide blob parameter", Body::Stmts(&["zh :: fn p: Zw do", "end", "zh(Zn { a: 1 })"])),
    k("list of a wide and a narrow blob", Body::Stmts(&["zl := [Zw { a: 1, b: 2 }, Zn { a: 1 }]"])),
    k("list of a narrow and a wide blob", Body::Stmts(&["zl := [Zn { a: 1 }, Zw { a: 1, b: 2 }]"])),
    k("narrow blob for a declared wide blob", Body::Stmts(&["zv: Zw = Zn { a: 1 }"])),
    // a declared field / payload type that mentions a type declared further down, in every type position
    k("fn field returning a later-declared type given a fn returning str", Body::Stmts(&["zo := Zfr { name: \"c\", origin: fn s: int -> str do", "    ret \"nowhere\"", "end }"])),
    k("variant payload fn returning a later-declared type given a fn returning bool", Body::Stmts(&["zq := Zfe.Later fn -> bool do", "    ret true", "end"])),
    k("fn field taking a later-declared type given a fn taking str", Body::Stmts(&["zo := Zfp { sink: fn s: str -> int do", "    1", "end }"])),
    k("list field of a later-declared type given a list of str", Body::Stmts(&["zo := Zfl { items: [\"s\"] }"])),
    k("tuple field with a later-declared type given a str", Body::Stmts(&["zo := Zft { pair: (1, \"s\") }"])),
    k("Maybe field of a later-declared type given a Maybe of str", Body::Stmts(&["zo := Zfm { opt: Maybe.Just \"s\" }"])),
    // a recursive function without annotations is one function, not a generic one, inside its own body
    k("un-annotated recursive function: result used as int, definition returns str", Body::Stmts(&["zrf :: fn zn ->", "    if zn <= 0 do", "        ret \"s\"", "    end", "    zq :: 1 + zrf(zn - 1)", "    \"t\"", "end", "zrf(2)"])),
    k("un-annotated recursive function: result compared with a float, definition returns str", Body::Stmts(&["zrf :: fn zn ->", "    if zn <= 0 do", "        ret \"s\"", "    end", "    if 1.5 <= zrf(zn - 1) do", "    end", "    \"t\"", "end", "zrf(2)"])),
    k("un-annotated recursive function: argument of another type in the recursive call", Body::Stmts(&["zrf :: fn zn, zv ->", "    if zn <= 0 do", "        ret zv + 1", "    end", "    zrf(zn - 1, \"s\")", "end", "zrf(2, 1)"])),
    // the quotient of a division is a value of its own: what is required of it must survive until the call
    k("un-annotated `(p / 2) > \"s\"` called with a float", Body::Stmts(&["zinf_quot(1.0)"])),
    k("un-annotated `(p / 2) > (else-less if)` called with a float", Body::Stmts(&["zinf_quotv(1.0, false)"])),
    k("un-annotated `(p / q) + 1` called with ints (the quotient is a float)", Body::Stmts(&["zinf_quotd(4, 2)"])),
    // the recursive call comes from a closure nested in the function's own body
    k("un-annotated recursive function: a nested closure passes another type", Body::Stmts(&["zrf :: fn zx, zn do", "    if zn > 0 do", "        zag :: fn do", "            zrf(\"oops\", zn - 1)", "        end", "        zag()", "    end", "    zy :: zx + 1", "end", "zrf(1, 1)"])),
    k("un-annotated recursive function: a lambda argument passes another type", Body::Stmts(&["zrf :: fn zx, zn do", "    if zn > 0 do", "        list.for_each([1], fn ze do", "            zrf(\"oops\", zn - 1)", "        end)", "    end", "    zy :: zx + 1", "end", "zrf(1, 1)"])),
    // every element-wise tuple operator, with an element type the operator is not defined for
    k("tuple - tuple with str elements (variables)", Body::Stmts(&["za := (\"ab\", 3)", "zb := (\"b\", 1)", "zq := za - zb"])),
    k("tuple * tuple with str elements (variables)", Body::Stmts(&["za := (\"ab\", 3)", "zb := (\"b\", 1)", "zq := za * zb"])),
    k("tuple / tuple with str elements (variables)", Body::Stmts(&["za := (\"ab\", 3.0)", "zb := (\"b\", 1.0)", "zq := za / zb"])),
    k("tuple < tuple with bool elements (variables)", Body::Stmts(&["za := (true, 3)", "zb := (false, 1)", "zq := za < zb"])),
    k("nested tuple - nested tuple with str elements", Body::Stmts(&["za := (1, (\"ab\", 3))", "zb := (2, (\"b\", 1))", "zq := za - zb"])),
    k("tuple - tuple with str elements (literals)", Body::Expr("(\"ab\", 3) - (\"b\", 1)")),
    k("tuple / number with a str element", Body::Stmts(&["za := (\"ab\", 3.0)", "zq := za / 2.0"])),
    k("un-annotated `(p, 1.0) / 2.0` called with a str", Body::Stmts(&["zinf_tdivn(\"abc\")"])),
    // a nested lambda returning a parameter of the enclosing lambda keeps that parameter's type
    k("nested fold whose inner callback returns the outer callback's list parameter as a str accumulator", Body::Stmts(&["zq :: fold([[\"l\"]], \"0\", pu zx, zacc -> fold([9], zacc, pu zy, za2 -> zx end) end)", "zr :: zq + \"-\""])),
    // compound assignment where target and value have the SAME type, but the operator is not defined for it
    // (the target is not used afterwards: nothing else would re-check the operator)
    k("bool *= itself", Body::Stmts(&["zb := true", "zb *= zb"])),
    k("str -= itself", Body::Stmts(&["zs := \"a\"", "zs -= zs"])),
    k("str field /= itself", Body::Stmts(&["zo := Zb2 { a: 1, b: \"s\" }", "zo.b /= zo.b"])),
    k("str -= str", Body::Stmts(&["zs := \"a\"", "zs -= \"b\""])),
    k("str *= str", Body::Stmts(&["zs := \"a\"", "zs *= \"b\""])),
    k("str /= str", Body::Stmts(&["zs := \"a\"", "zs /= \"b\""])),
    k("bool += bool", Body::Stmts(&["zb := true", "zb += false"])),
    k("tuple of str -= tuple of str", Body::Stmts(&["zt := (\"x\", \"y\")", "zt -= (\"a\", \"b\")"])),
    k("str field -= str", Body::Stmts(&["zo := Zb2 { a: 1, b: \"s\" }", "zo.b -= \"x\""])),
    k("str field *= str", Body::Stmts(&["zo := Zb2 { a: 1, b: \"s\" }", "zo.b *= \"!\""])),
    k("bool += bool inside a loop", Body::Stmts(&["zn := 0", "loop zn < 2 do", "    zn += 1", "    zf := true", "    zf += false", "end"])),
    // a mismatch in a LATE component of a composite whose two sides repeat their variables: every component pair
    // is compared, also when both of its members already took part in an earlier pair
    k("late component: list of 3-tuples of variables, third pair mismatching", Body::Stmts(&["zx := 1", "zy := \"s\"", "zp := 2", "zq := \"t\"", "zl := [(zx, zy, zy), (zp, zq, zp)]"])),
    k("late component: equality of 3-tuples of variables, third pair mismatching", Body::Stmts(&["zx := 1", "zy := \"s\"", "zp := 2", "zq := \"t\"", "zsame := (zx, zy, zy) == (zp, zq, zp)"])),
    k("late component: 4-tuples of variables, fourth pair mismatching", Body::Stmts(&["zx := 1", "zy := \"s\"", "zp := 2", "zq := \"t\"", "zl := [(zx, zy, zx, zy), (zp, zq, zp, zp)]"])),
    k("late component: nested tuples of variables", Body::Stmts(&["zx := 1", "zy := \"s\"", "zp := 2", "zq := \"t\"", "zl := [((zx, zy), zy), ((zp, zq), zp)]"])),
    k("late component: tuple variable assigned another 3-tuple", Body::Stmts(&["zx := 1", "zy := \"s\"", "zp := 2", "zq := \"t\"", "zt := (zx, zy, zy)", "zt = (zp, zq, zp)"])),
    k("late component: tuple + tuple of variables", Body::Stmts(&["zx := 1", "zy := \"s\"", "zp := 2", "zq := \"t\"", "zt := (zx, zy, zy) + (zp, zq, zp)"])),
    k("late component: arms of an if-expression", Body::Stmts(&["zx := 1", "zy := \"s\"", "zp := 2", "zq := \"t\"", "zt := if zx > 0 do", "    (zx, zy, zy)", "else do", "    (zp, zq, zp)", "end"])),
    k("late component: argument against a signature repeating a type variable", Body::Stmts(&["zx := 1", "zy := \"s\"", "zp := 2", "zq := \"t\"", "zn: int = zlast3((zx, zy, zy))"])),
    k("late component: list elements against a signature repeating a type variable", Body::Stmts(&["zx := 1", "zy := \"s\"", "zp := 2", "zq := \"t\"", "zn := zsame3([(zx, zy, zy)])"])),
    k("late component: blob with two fields of one type variable", Body::Stmts(&["zx := 1", "zy := \"s\"", "zp := 2", "zq := \"t\"", "zo := [Zpair3 { a: zx, b: zy, c: zy }, Zpair3 { a: zp, b: zq, c: zp }]"])),
    // stacks of unary operators: every layer must be checked, an even number of them is no identity
    k("neg neg str", Body::Expr("-(-\"s\")")),
    k("neg neg str (no parentheses)", Body::Expr("--\"s\"")),
    k("neg neg neg str", Body::Expr("-(-(-\"s\"))")),
    k("neg neg neg neg str", Body::Expr("-(-(-(-\"s\")))")),
    k("neg neg bool", Body::Expr("-(-true)")),
    k("not not int", Body::Expr("not not 1")),
    k("not not int (parentheses)", Body::Expr("not (not 1)")),
    k("not not not int", Body::Expr("not not not 1")),
    k("not not not not str", Body::Expr("not not not not \"s\"")),
    k("not not str variable", Body::Stmts(&["zs :: \"s\"", "zq :: not not zs"])),
    k("neg neg str variable", Body::Stmts(&["zs :: \"s\"", "zq :: -(-zs)"])),
    k("neg not int", Body::Expr("-(not 1)")),
    k("not neg bool", Body::Expr("not (-true)")),
    k("neg neg of a list", Body::Expr("-(-[1])")),
    // a type variable of a declared signature is ONE variable wherever it is mentioned: first inside a function-typed
    // parameter and later outside it, in a list or tuple of functions, two levels deep, in std signatures
    k("signature link: callback parameter vs later argument", Body::Stmts(&["zq := zlk_apply(hzi, \"one\")"])),
    k("signature link: callback result vs declared result", Body::Stmts(&["zq: str = zlk_apply(hzi, 1)"])),
    k("signature link: two callback parameters vs later argument", Body::Stmts(&["zq := zlk_apply2(fn a: int, b: int -> int do a + b end, \"s\")"])),
    k("signature link: callback result vs declared result (two parameters)", Body::Stmts(&["zq: str = zlk_apply2(fn a: int, b: int -> int do a + b end, 1)"])),
    k("signature link: list of callbacks vs later argument", Body::Stmts(&["zq := zlk_each([hzi], \"s\")"])),
    k("signature link: list of callbacks vs declared result", Body::Stmts(&["zq: [str] = zlk_each([hzi], 1)"])),
    k("signature link: callback and argument in one tuple", Body::Stmts(&["zq := zlk_pair((hzi, \"s\"))"])),
    k("signature link: callback in a tuple vs declared result", Body::Stmts(&["zq: str = zlk_pair((hzi, 1))"])),
    k("signature link: pure callback parameter vs later argument", Body::Stmts(&["zq := zlk_pu(hzp, \"one\")"])),
    k("signature link: pure callback result vs declared result", Body::Stmts(&["zq: str = zlk_pu(hzp, 1)"])),
    k("signature link: earlier argument vs callback parameter", Body::Stmts(&["zq := zlk_late(\"one\", hzi)"])),
    k("signature link: earlier argument, callback result vs declared result", Body::Stmts(&["zq: str = zlk_late(1, hzi)"])),
    k("signature link: two levels deep vs later argument", Body::Stmts(&["zq := zlk_deep(fn g: fn int -> int -> int do g(1) end, \"s\")"])),
    k("signature link: result used by an operator", Body::Stmts(&["zq := zlk_apply(hzi, 1) + \"!\""])),
    k("std map: annotated callback result vs declared list", Body::Stmts(&["zq: [str] = map([1, 2, 3], pu zx: int -> int do zx * 2 end)"])),
    k("std map: result elements used as str", Body::Stmts(&["zq :: map([1, 2, 3], pu zx: int -> int do zx * 2 end)", "for_each(zq, fn zs: str do print(zs + \"!\") end)"])),
    k("std map: callback parameter vs list elements", Body::Stmts(&["zq :: map([\"a\"], pu zx: int -> int do zx * 2 end)"])),
    k("std fold: callback accumulator vs initial value", Body::Stmts(&["zq :: fold([1], \"0\", pu zx: int, za: int -> int do za + zx end)"])),
    k("std fold: callback result vs declared result", Body::Stmts(&["zq: str = fold([1], 0, pu zx: int, za: int -> int do za + zx end)"])),
    k("std filter: callback parameter vs list elements", Body::Stmts(&["zq :: filter([\"a\"], pu zx: int -> bool do zx > 0 end)"])),
    k("std for_each: callback parameter vs list elements", Body::Stmts(&["for_each([\"a\"], fn zx: int do print(zx) end)"])),
    k("std maybe.map: callback result vs declared payload", Body::Stmts(&["zq: Maybe(str) = maybe.map(Maybe.Just(1), pu zx: int -> int do zx + 1 end)"])),
];

// ---------------------------------------------------------------- C04 kinds

pub const C04_KINDS: &[Kind] = &[
    k("assign to :: local", Body::Stmts(&["zc :: 1", "zc = 2"])),
    k("+= on :: local", Body::Stmts(&["zc :: 1", "zc += 1"])),
    k("-= on :: local", Body::Stmts(&["zc :: 1", "zc -= 1"])),
    k("*= on :: local", Body::Stmts(&["zc :: 2", "zc *= 2"])),
    k("/= on :: local", Body::Stmts(&["zc :: 2.0", "zc /= 2.0"])),
    k("assign to typed constant local", Body::Stmts(&["zc: int : 1", "zc = 2"])),
    k("assign to :: global", Body::Stmts(&["hzc = 2"])),
    k("+= on :: global", Body::Stmts(&["hzc += 1"])),
    k("assign to global function", Body::Stmts(&["hzf = fn -> int do 2 end"])),
    k("assign to parameter", Body::Stmts(&["zf :: fn zp: int do", "    zp = 2", "end"])),
    k("+= on parameter", Body::Stmts(&["zf :: fn zp: int do", "    zp += 2", "end"])),
    k("assign to parameter from nested closure", Body::Stmts(&["zf :: fn zp: int do", "    zg :: fn do", "        zp = 3", "    end", "end"])),
    k("assign to case binding", Body::Stmts(&["case Maybe.Just 1 do", "    Just zb ->", "        zb = 2", "    end", "    None ->", "    end", "end"])),
    k("+= on case binding", Body::Stmts(&["case Ze2.A 1 do", "    A zb ->", "        zb += 2", "    end", "    else", "    end", "end"])),
    // a constant stays a constant after an inner scope declared a MUTABLE variable of the same name: the inner
    // name ends with its scope (if / else / elif arm, loop body, block, case arm, case else, closure body)
    k("assign to :: local after a same-named mutable in an inner if arm", Body::Stmts(&["zc :: 1", "if true do", "    zc := 5", "    zc = 6", "end", "zc = 2"])),
    k("assign to :: local after a same-named mutable in an inner else arm", Body::Stmts(&["zc :: 1", "if false do", "else do", "    zc := 5", "    zc = 6", "end", "zc = 2"])),
    k("assign to :: local after a same-named mutable in an inner elif arm", Body::Stmts(&["zc :: 1", "if false do", "elif true do", "    zc := 5", "    zc = 6", "end", "zc = 2"])),
    k("assign to :: local after a same-named mutable in an inner loop body", Body::Stmts(&["zc :: 1", "loop do", "    zc := 5", "    zc = 6", "    break", "end", "zc = 2"])),
    k("assign to :: local after a same-named mutable in an inner block", Body::Stmts(&["zc :: 1", "do", "    zc := 5", "    zc = 6", "end", "zc = 2"])),
    k("assign to :: local after a same-named mutable in an inner case arm", Body::Stmts(&["zc :: 1", "case Ze2.B do", "    B ->", "        zc := 5", "        zc = 6", "    end", "    else", "    end", "end", "zc = 2"])),
    k("assign to :: local after a same-named mutable in an inner case else", Body::Stmts(&["zc :: 1", "case Ze2.B do", "    A zx ->", "    end", "    else", "        zc := 5", "        zc = 6", "    end", "end", "zc = 2"])),
    k("assign to :: local after a same-named mutable in an inner closure body", Body::Stmts(&["zc :: 1", "zg :: fn do", "    zc := 5", "    zc = 6", "end", "zc = 2"])),
    k("assign to parameter after a same-named mutable in an inner case else", Body::Stmts(&["zf :: fn zc: int do", "    case Ze2.B do", "        A zx ->", "        end", "        else", "            zc := 5", "            zc = 6", "        end", "    end", "    zc = 2", "end"])),
    k("assign to case binding after a same-named mutable in an inner case else", Body::Stmts(&["case Maybe.Just 1 do", "    Just zc ->", "        case Ze2.B do", "            A zx ->", "            end", "            else", "                zc := 5", "                zc = 6", "            end", "        end", "        zc = 2", "    end", "    None ->", "    end", "end"])),
    k("assign to parameter after a same-named mutable in an inner if arm", Body::Stmts(&["zf :: fn zc: int do", "    if true do", "        zc := 5", "        zc = 6", "    end", "    zc = 2", "end"])),
    k("assign to case binding after a same-named mutable in an inner if arm", Body::Stmts(&["case Maybe.Just 1 do", "    Just zc ->", "        if true do", "            zc := 5", "            zc = 6", "        end", "        zc = 2", "    end", "    None ->", "    end", "end"])),
    k("assign to parameter after a same-named mutable in an inner loop body", Body::Stmts(&["zf :: fn zc: int do", "    loop do", "        zc := 5", "        zc = 6", "        break", "    end", "    zc = 2", "end"])),
    k("assign to case binding after a same-named mutable in an inner loop body", Body::Stmts(&["case Maybe.Just 1 do", "    Just zc ->", "        loop do", "            zc := 5", "            zc = 6", "            break", "        end", "        zc = 2", "    end", "    None ->", "    end", "end"])),
    k("+= on :: local after a same-named mutable in an inner case else", Body::Stmts(&["zc :: 1", "case Ze2.B do", "    A zx ->", "    end", "    else", "        zc := 5", "        zc = 6", "    end", "end", "zc += 2"])),
    k("assign to constant aliasing a constant", Body::Stmts(&["za :: 1", "zb :: za", "zb = 3"])),
    k("assign to local function constant", Body::Stmts(&["zf :: fn do", "end", "zf = fn do", "end"])),
    k("pure: assignment to outer mutable", Body::InPure { prelude: &["zm := 1"], params: "", viol: &["zm = 2"] }),
    k("pure: compound assignment to outer mutable", Body::InPure { prelude: &["zm := 1"], params: "", viol: &["zm += 2"] }),
    k("pure: field assignment", Body::InPure { prelude: &["zbl :: Zb1 { q: 1 }"], params: "", viol: &["zbl.q = 2"] }),
    k("pure: := declaration", Body::InPure { prelude: &[], params: "", viol: &["zl := 1"] }),
    k("pure: typed mutable declaration", Body::InPure { prelude: &[], params: "", viol: &["zl: int = 1"] }),
    // a `pu` function bound to a MUTABLE variable that mentions that variable (itself) is reading a mutable variable
    k("pure: recursive call through the mutable local that holds the function", Body::Stmts(&["zdepth := pu zn: int -> int do", "    if zn <= 0 do", "        ret 0", "    end", "    zdepth(zn - 1) + 1", "end"])),
    k("pure: recursive call through the typed mutable local that holds the function", Body::Stmts(&["zdepth: pu int -> int = pu zn: int -> int do", "    if zn <= 0 do", "        ret 0", "    end", "    zdepth(zn - 1) + 1", "end"])),
    k("pure: the mutable local that holds the function read as a value inside it", Body::Stmts(&["zself := pu zn: int -> int do", "    zh :: zself", "    zn", "end"])),
    k("pure: pu closure inside a mutable-bound fn mentions the enclosing function", Body::Stmts(&["ztable := fn zn: int -> int do", "    zcur :: pu -> int do", "        zg :: ztable", "        1", "    end", "    zcur()", "end"])),
    k("pure: pu method reads a field of self", Body::Stmts(&["zo :: Zbs { n: 1, g: pu -> int do", "    self.n", "end }"])),
    k("pure: pu method reads self as a value", Body::Stmts(&["zo :: Zbs { n: 1, g: pu -> int do", "    zs :: self", "    1", "end }"])),
    k("pure: pu method reads a field of self in a nested pu closure", Body::Stmts(&["zo :: Zbs { n: 1, g: pu -> int do", "    zg :: pu -> int do", "        self.n", "    end", "    zg()", "end }"])),
    k("pure: pu method reads a field of self in an if arm", Body::Stmts(&["zo :: Zbs { n: 1, g: pu -> int do", "    if true do", "        ret self.n", "    end", "    0", "end }"])),
    k("pure: pu closure inside an fn method reads a field of self", Body::Stmts(&["zo :: Zbm { n: 1, f: fn -> int do", "    zg :: pu -> int do", "        self.n", "    end", "    zg()", "end }"])),
    k("pure: pu method of a mutable-bound blob reads a field of self", Body::Stmts(&["zo := Zbs { n: 1, g: pu -> int do", "    self.n + 1", "end }"])),
    k("pure: read of mutable local", Body::InPure { prelude: &["zm := 1"], params: "", viol: &["zr :: zm"] }),
    k("pure: read of mutable global", Body::InPure { prelude: &[], params: "", viol: &["zr :: hzm"] }),
    k("pure: call of fn function", Body::InPure { prelude: &[], params: "", viol: &["zr :: hzf()"] }),
    k("pure: call of fn function as statement", Body::InPure { prelude: &[], params: "", viol: &["zh_void()"] }),
    k("pure: call of print", Body::InPure { prelude: &[], params: "", viol: &["print(1)"] }),
    k("pure: call of parameter of unknown purity", Body::InPure { prelude: &[], params: "zfp: fn -> int", viol: &["zr :: zfp()"] }),
    k("pure: call of function read from blob field", Body::InPure { prelude: &["zo :: Zbf { f: fn -> int do 1 end }"], params: "", viol: &["zr :: zo.f()"] }),
    k("pure: call of local fn closure", Body::InPure { prelude: &["zlf :: fn -> int do 1 end"], params: "", viol: &["zr :: zlf()"] }),
    k("fn literal where pu variable type declared", Body::Stmts(&["zp: pu int -> int : fn x: int -> int do x end"])),
    k("named fn function where pu variable type declared", Body::Stmts(&["zp: pu int -> int : hzi"])),
    k("fn literal where pu parameter declared", Body::Stmts(&["zh :: fn f: pu int -> int do", "end", "zh(fn x: int -> int do x end)"])),
    k("named fn function where pu parameter declared", Body::Stmts(&["zh :: fn f: pu int -> int do", "end", "zh(hzi)"])),
    k("fn literal where pu return type declared", Body::Stmts(&["zmk :: fn -> (pu int -> int) do", "    fn x: int -> int do x end", "end"])),
    k("fn literal in pu blob field", Body::Stmts(&["zo :: Zbp { f: fn x: int -> int do x end }"])),
    k("named fn function in pu blob field", Body::Stmts(&["zo :: Zbp { f: hzi }"])),
    Kind {
        name: "impure function reaches pu slot through fn-annotated variable",
        body: Body::Stmts(&["za: fn int -> int : hzi", "zp: pu int -> int : za"]),
        hazard: Some(("*", "impure_through_fn_annotated_intermediate")),
    },
    // impure functions reaching a `pu` slot through containers whose inference class was grown by generic uses first
    k("impure function in list (used generically before) passed as list of pu", Body::Stmts(&["zl: [fn int -> int] = []", "zk :: zlen(zl)", "zl = [hzi]", "zh :: fn fs: [pu int -> int] do", "end", "zh(zl)"])),
    k("impure function in list passed as list of pu", Body::Stmts(&["zl: [fn int -> int] = []", "zl = [hzi]", "zh :: fn fs: [pu int -> int] do", "end", "zh(zl)"])),
    k("list of impure functions (used generically twice) bound to list of pu", Body::Stmts(&["zl: [fn int -> int] = [hzi]", "zk :: zlen(zl)", "zk2 :: zlen(zl)", "zp: [pu int -> int] : zl"])),
    k("impure function variable (used generically before) bound to pu", Body::Stmts(&["za: fn int -> int = hzi", "zb :: zid(za)", "zp: pu int -> int : za"])),
    k("tuple with impure function (used generically before) bound to tuple with pu", Body::Stmts(&["zt: (fn int -> int, int) = (hzi, 1)", "zk :: zid(zt)", "zp: (pu int -> int, int) : zt"])),
    k("impure function from fn blob field (used generically before) bound to pu", Body::Stmts(&["zo := Zbq { f: hzi }", "zk :: zid(zo.f)", "zp: pu int -> int : zo.f"])),
    k("fn literal stored late into generically used list, bound to list of pu", Body::Stmts(&["zl: [fn int -> int] = []", "zk :: zlen(zl)", "zk3 :: zid(zl)", "zl = [fn x: int -> int do x end]", "zp: [pu int -> int] : zl"])),
    // calling a MUTABLE variable that holds a pure function is still a read of a mutable variable
    k("pure: call of a mutable local holding a pu function", Body::Stmts(&["zmp := pu x: int -> int do", "    x", "end", "zp :: pu -> int do", "    zmp(1)", "end"])),
    k("pure: call of a mutable global holding a pu function", Body::Stmts(&["zp :: pu -> int do", "    hzmp(1)", "end"])),
    k("pure: prime call of a mutable local holding a pu function", Body::Stmts(&["zmp := pu x: int -> int do", "    x", "end", "zp :: pu -> int do", "    zmp' 1", "end"])),
    k("pure: arrow call of a mutable local holding a pu function", Body::Stmts(&["zmp := pu x: int -> int do", "    x", "end", "zp :: pu -> int do", "    1 -> zmp'", "end"])),
    // a mutable declaration is forbidden in a pure function whatever its value is - also a function literal
    k("pure: := declaration of an fn literal", Body::InPure { prelude: &[], params: "", viol: &["zl := fn do", "end"] }),
    k("pure: := declaration of a pu literal", Body::InPure { prelude: &[], params: "", viol: &["zl := pu x: int -> int do", "    x", "end"] }),
    k("pure: typed mutable declaration of an fn literal", Body::InPure { prelude: &[], params: "", viol: &["zl: fn -> void = fn do", "end"] }),
    k("pure: := declaration of an fn literal inside a closure inside the pure function", Body::InPure { prelude: &[], params: "", viol: &["zg :: fn m: int -> int do", "    zh := fn do", "    end", "    m", "end"] }),
];

// ---------------------------------------------------------------- C05 kinds

pub const C05_KINDS: &[Kind] = &[
    k("blob instantiation: missing field", Body::Expr("Zb2 { a: 1 }")),
    k("blob instantiation: no fields", Body::Expr("Zb2 {}")),
    k("blob instantiation: unknown field", Body::Expr("Zb2 { a: 1, b: \"s\", c: 2 }")),
    k("blob instantiation: misspelt field", Body::Expr("Zb2 { a: 1, bb: \"s\" }")),
    // a field given several times does not stand for the fields that are left out
    k("blob instantiation: one field twice, the other missing", Body::Expr("Zb2 { a: 1, a: 2 }")),
    k("blob instantiation: second field twice, the first missing", Body::Expr("Zb2 { b: \"s\", b: \"t\" }")),
    k("blob instantiation: one of three fields three times", Body::Expr("Z3 { a: 1, a: 2, a: 3 }")),
    k("blob instantiation: one field twice, one once, one missing", Body::Expr("Z3 { a: 1, a: 2, b: 3 }")),
    k("blob instantiation: last field twice, first missing", Body::Expr("Z3 { b: 1, c: 2, c: 3 }")),
    k("blob instantiation: more initialisers than fields, one missing", Body::Expr("Z3 { a: 1, a: 2, b: 3, b: 4 }")),
    k("generic blob instantiation: a field twice, another missing (variable)", Body::Stmts(&["zo :: Zw { a: 1, a: 2 }", "zq :: zo.b"])),
    k("blob field of blob type: inner instantiation repeats a field and misses one", Body::Stmts(&["zo :: Zfl { items: [Zlate4 { x: 1 }] }", "zp :: Zft { pair: (1, Zlate5 { x: 1 }) }", "zq :: [Zb2 { a: 1, a: 2 }]"])),
    k("generic blob instantiation: unknown field", Body::Expr("Zg { g: 1, h: 2 }")),
    k("field access: blob lacks field (annotated variable)", Body::Stmts(&["zv: Zb2 = Zb2 { a: 1, b: \"s\" }", "zw :: zv.nope"])),
    k("field access: blob lacks field (inferred variable)", Body::Stmts(&["zv := Zb2 { a: 1, b: \"s\" }", "zw :: zv.nope"])),
    k("field access: blob lacks field (through call)", Body::Stmts(&["zw :: hmk().nope"])),
    k("field assignment: blob lacks field", Body::Stmts(&["zv := Zb2 { a: 1, b: \"s\" }", "zv.nope = 1"])),
    k("field access on int", Body::Stmts(&["zi :: 1", "zw :: zi.a"])),
    k("field access through un-annotated function: blob variable lacks field", Body::Stmts(&["zo :: Zb2 { a: 1, b: \"s\" }", "zinf_fld(zo)"])),
    k("field access through un-annotated function: blob literal lacks field", Body::Stmts(&["zinf_fld(Zb2 { a: 1, b: \"s\" })"])),
    k("variant construction: enum lacks variant (payload)", Body::Expr("Ze2.D 1")),
    k("variant construction: enum lacks variant", Body::Stmts(&["zq :: Ze2.D"])),
    k("variant construction: Maybe lacks variant", Body::Stmts(&["zq :: Maybe.Some 1"])),
    k("variant construction: payload of another type", Body::Expr("Ze2.A \"s\"")),
    k("case: matches variant the enum lacks (with else)", Body::Stmts(&["case Ze2.B do", "    D ->", "    end", "    else", "    end", "end"])),
    k("case without else: missing variant", Body::Stmts(&["case Ze2.B do", "    A zx ->", "    end", "    B ->", "    end", "end"])),
    k("case without else: only one variant", Body::Stmts(&["case Ze2.B do", "    C ->", "    end", "end"])),
    k("case without else: extra variant", Body::Stmts(&["case Ze2.B do", "    A zx ->", "    end", "    B ->", "    end", "    C ->", "    end", "    D ->", "    end", "end"])),
    k("case without else on Maybe: missing None", Body::Stmts(&["case Maybe.Just 1 do", "    Just zx ->", "    end", "end"])),
    k("case on a non-enum", Body::Stmts(&["case 1 do", "    A ->", "    end", "    else", "    end", "end"])),
    k("tuple index == length", Body::Stmts(&["zt :: (1, 2)", "zu :: zt[2]"])),
    k("tuple index far outside", Body::Stmts(&["zt :: (1, 2, 3)", "zu :: zt[7]"])),
    k("index into empty tuple", Body::Stmts(&["zt :: ()", "zu :: zt[0]"])),
    k("tuple == of different lengths", Body::Expr("(1, 2) == (1, 2, 3)")),
    k("tuple + of different lengths", Body::Expr("(1, 2) + (1, 2, 3)")),
    k("tuple < of different lengths", Body::Expr("(1, 2) < (1,)")),
    k("tuple assigned a different length", Body::Stmts(&["zt := (1, 2)", "zt = (1, 2, 3)"])),
    k("externblob instantiation", Body::Expr("Zx { a: 1 }")),
    k("externblob instantiation (definition)", Body::Stmts(&["zq :: Zx { a: 1 }"])),
    k("field access on self: blob lacks field", Body::Stmts(&["zo :: Zbf { f: fn -> int do", "    self.nope", "end }"])),
    k("field assignment on self: blob lacks field", Body::Stmts(&["zo :: Zbm { n: 1, f: fn -> int do", "    self.nope = 2", "    1", "end }"])),
    k("field access on self in a nested closure: blob lacks field", Body::Stmts(&["zo :: Zbm { n: 1, f: fn -> int do", "    zg :: fn -> int do", "        self.m", "    end", "    zg()", "end }"])),
    k("case without else: a variant listed twice, another one missing", Body::Stmts(&["case Ze2.B do", "    A zx ->", "    end", "    B ->", "    end", "    B ->", "    end", "end"])),
    k("case without else: one variant listed three times", Body::Stmts(&["case Ze2.B do", "    C ->", "    end", "    C ->", "    end", "    C ->", "    end", "end"])),
    k("case without else through un-annotated function: duplicate branch hides a missing variant", Body::Stmts(&["zinf_case(Ze2.C)"])),
    // shape checks on the RESULT of a function-typed field whose return type is declared further down
    k("field access on the result of a fn field: blob lacks field", Body::Stmts(&["zh :: fn s: Zshop -> str do", "    zi :: s.cheapest()", "    zi.nope", "end"])),
    k("case on the result of a fn field: enum lacks variant", Body::Stmts(&["zh :: fn s: Zshop -> int do", "    case s.pick() do", "        Numbr q -> q end", "        else 0 end", "    end", "end"])),
    k("tuple index on the result of a fn field: out of range", Body::Stmts(&["zh :: fn s: Zshop -> int do", "    s.at()[2]", "end"])),
    k("case without else on the result of a fn field: missing variant", Body::Stmts(&["zh :: fn s: Zshop -> int do", "    case s.pick() do", "        Num q -> q end", "    end", "end"])),
    // a shape requirement written on an UN-ANNOTATED lambda parameter, whose type only becomes known when the lambda's
    // function type meets a declared one (callback of a higher-order function, declared variable / field / element / result);
    // a further statement follows, so nothing re-checks the lambda afterwards
    k("lambda parameter via for_each: blob lacks field", Body::Stmts(&["for_each([Zb2 { a: 1, b: \"s\" }], fn ze do", "    zw :: ze.nope", "end)", "zdone :: 1"])),
    k("lambda parameter via user higher-order function: blob lacks field", Body::Stmts(&["zlk_late(Zb2 { a: 1, b: \"s\" }, fn ze -> int do", "    zw :: ze.nope", "    0", "end)", "zdone :: 1"])),
    k("lambda parameter via declared variable type: blob lacks field", Body::Stmts(&["zf: fn Zb2 -> int = fn ze -> int do", "    zw :: ze.nope", "    0", "end", "zdone :: 1"])),
    k("lambda parameter via declared list element type: blob lacks field", Body::Stmts(&["zf: [fn Zb2 -> int] = [fn ze -> int do", "    zw :: ze.nope", "    0", "end]", "zdone :: 1"])),
    k("lambda parameter via declared tuple element type: blob lacks field", Body::Stmts(&["zf: (int, fn Zb2 -> int) = (1, fn ze -> int do", "    zw :: ze.nope", "    0", "end)", "zdone :: 1"])),
    k("lambda parameter via declared blob field type: blob lacks field", Body::Stmts(&["zo :: Zsk {", "    sink: fn ze -> int do", "        zw :: ze.nope", "        0", "    end,", "    pick: fn zz -> int do", "        0", "    end,", "    tag: fn zz -> int do", "        0", "    end,", "}", "zdone :: 1"])),
    k("lambda parameter via declared return type: blob lacks field", Body::Stmts(&["zmk :: fn -> fn Zb2 -> int do", "    ret fn ze -> int do", "        zw :: ze.nope", "        0", "    end", "end", "zdone :: 1"])),
    k("lambda parameter via map: blob lacks field", Body::Stmts(&["zq :: map([Zb2 { a: 1, b: \"s\" }], pu ze -> ze.nope end)", "zdone :: 1"])),
    k("lambda parameter via filter: blob lacks field", Body::Stmts(&["zq :: filter([Zb2 { a: 1, b: \"s\" }], pu ze -> bool do", "    zw :: ze.nope", "    true", "end)", "zdone :: 1"])),
    k("lambda parameter via fold: blob lacks field", Body::Stmts(&["zq :: fold([Zb2 { a: 1, b: \"s\" }], 0, pu ze, za -> int do", "    zw :: ze.nope", "    za", "end)", "zdone :: 1"])),
    k("lambda parameter via for_each: tuple index out of range", Body::Stmts(&["for_each([(1, 2)], fn ze do", "    zw :: ze[2]", "end)", "zdone :: 1"])),
    k("lambda parameter via user higher-order function: tuple index out of range", Body::Stmts(&["zlk_late((1, 2), fn ze -> int do", "    zw :: ze[2]", "    0", "end)", "zdone :: 1"])),
    k("lambda parameter via declared variable type: tuple index out of range", Body::Stmts(&["zf: fn (int, int) -> int = fn ze -> int do", "    zw :: ze[2]", "    0", "end", "zdone :: 1"])),
    k("lambda parameter via declared list element type: tuple index out of range", Body::Stmts(&["zf: [fn (int, int) -> int] = [fn ze -> int do", "    zw :: ze[2]", "    0", "end]", "zdone :: 1"])),
    k("lambda parameter via declared tuple element type: tuple index out of range", Body::Stmts(&["zf: (int, fn (int, int) -> int) = (1, fn ze -> int do", "    zw :: ze[2]", "    0", "end)", "zdone :: 1"])),
    k("lambda parameter via declared blob field type: tuple index out of range", Body::Stmts(&["zo :: Zsk {", "    sink: fn zz -> int do", "        0", "    end,", "    pick: fn ze -> int do", "        zw :: ze[2]", "        0", "    end,", "    tag: fn zz -> int do", "        0", "    end,", "}", "zdone :: 1"])),
    k("lambda parameter via declared return type: tuple index out of range", Body::Stmts(&["zmk :: fn -> fn (int, int) -> int do", "    ret fn ze -> int do", "        zw :: ze[2]", "        0", "    end", "end", "zdone :: 1"])),
    k("lambda parameter via map: tuple index out of range", Body::Stmts(&["zq :: map([(1, 2)], pu ze -> ze[2] end)", "zdone :: 1"])),
    k("lambda parameter via filter: tuple index out of range", Body::Stmts(&["zq :: filter([(1, 2)], pu ze -> bool do", "    zw :: ze[2]", "    true", "end)", "zdone :: 1"])),
    k("lambda parameter via fold: tuple index out of range", Body::Stmts(&["zq :: fold([(1, 2)], 0, pu ze, za -> int do", "    zw :: ze[2]", "    za", "end)", "zdone :: 1"])),
    k("lambda parameter via for_each: enum lacks variant", Body::Stmts(&["for_each([Ze2.B], fn ze do", "    case ze do", "        D ->", "        end", "        else", "        end", "    end", "end)", "zdone :: 1"])),
    k("lambda parameter via user higher-order function: enum lacks variant", Body::Stmts(&["zlk_late(Ze2.B, fn ze -> int do", "    case ze do", "        D ->", "        end", "        else", "        end", "    end", "    0", "end)", "zdone :: 1"])),
    k("lambda parameter via declared variable type: enum lacks variant", Body::Stmts(&["zf: fn Ze2 -> int = fn ze -> int do", "    case ze do", "        D ->", "        end", "        else", "        end", "    end", "    0", "end", "zdone :: 1"])),
    k("lambda parameter via declared list element type: enum lacks variant", Body::Stmts(&["zf: [fn Ze2 -> int] = [fn ze -> int do", "    case ze do", "        D ->", "        end", "        else", "        end", "    end", "    0", "end]", "zdone :: 1"])),
    k("lambda parameter via declared tuple element type: enum lacks variant", Body::Stmts(&["zf: (int, fn Ze2 -> int) = (1, fn ze -> int do", "    case ze do", "        D ->", "        end", "        else", "        end", "    end", "    0", "end)", "zdone :: 1"])),
    k("lambda parameter via declared blob field type: enum lacks variant", Body::Stmts(&["zo :: Zsk {", "    sink: fn zz -> int do", "        0", "    end,", "    pick: fn zz -> int do", "        0", "    end,", "    tag: fn ze -> int do", "        case ze do", "            D ->", "            end", "            else", "            end", "        end", "        0", "    end,", "}", "zdone :: 1"])),
    k("lambda parameter via declared return type: enum lacks variant", Body::Stmts(&["zmk :: fn -> fn Ze2 -> int do", "    ret fn ze -> int do", "        case ze do", "            D ->", "            end", "            else", "            end", "        end", "        0", "    end", "end", "zdone :: 1"])),
    k("lambda parameter via for_each: case without else misses variants", Body::Stmts(&["for_each([Ze2.B], fn ze do", "    case ze do", "        B ->", "        end", "    end", "end)", "zdone :: 1"])),
    k("lambda parameter via user higher-order function: case without else misses variants", Body::Stmts(&["zlk_late(Ze2.B, fn ze -> int do", "    case ze do", "        B ->", "        end", "    end", "    0", "end)", "zdone :: 1"])),
    k("lambda parameter via declared variable type: case without else misses variants", Body::Stmts(&["zf: fn Ze2 -> int = fn ze -> int do", "    case ze do", "        B ->", "        end", "    end", "    0", "end", "zdone :: 1"])),
    k("lambda parameter via declared list element type: case without else misses variants", Body::Stmts(&["zf: [fn Ze2 -> int] = [fn ze -> int do", "    case ze do", "        B ->", "        end", "    end", "    0", "end]", "zdone :: 1"])),
    k("lambda parameter via declared tuple element type: case without else misses variants", Body::Stmts(&["zf: (int, fn Ze2 -> int) = (1, fn ze -> int do", "    case ze do", "        B ->", "        end", "    end", "    0", "end)", "zdone :: 1"])),
    k("lambda parameter via declared blob field type: case without else misses variants", Body::Stmts(&["zo :: Zsk {", "    sink: fn zz -> int do", "        0", "    end,", "    pick: fn zz -> int do", "        0", "    end,", "    tag: fn ze -> int do", "        case ze do", "            B ->", "            end", "        end", "        0", "    end,", "}", "zdone :: 1"])),
    k("lambda parameter via declared return type: case without else misses variants", Body::Stmts(&["zmk :: fn -> fn Ze2 -> int do", "    ret fn ze -> int do", "        case ze do", "            B ->", "            end", "        end", "        0", "    end", "end", "zdone :: 1"])),
    // the CONDITION of a loop is not inside that loop
    k("break in the condition of a loop", Body::OutsideLoop(&["zi := 0", "loop if zi > 3 do break else true end do", "    zi += 1", "end"])),
    k("continue in the condition of a loop", Body::OutsideLoop(&["zi := 0", "loop if zi > 3 do continue else true end do", "    zi += 1", "end"])),
    k("break in a case in the condition of a loop", Body::OutsideLoop(&["zi := 0", "loop (case Ze2.B do", "    B -> break end", "    else true end", "end) do", "    zi += 1", "end"])),
    k("break in the condition of a loop whose body also breaks", Body::OutsideLoop(&["loop (if false do", "    break", "else do", "    true", "end) do", "    break", "end"])),
    k("break outside a loop", Body::OutsideLoop(&["break"])),
    k("continue outside a loop", Body::OutsideLoop(&["continue"])),
    k("break in an if outside a loop", Body::OutsideLoop(&["if true do", "    break", "end"])),
    k("continue in a block outside a loop", Body::OutsideLoop(&["do", "    continue", "end"])),
    Kind {
        name: "break in a closure defined inside a loop",
        body: Body::Stmts(&["loop do", "    zcl :: fn do", "        break", "    end", "    break", "end"]),
        hazard: Some(("*", "break_or_continue_in_closure_inside_loop")),
    },
    Kind {
        name: "break in a pu closure defined inside a loop",
        body: Body::Stmts(&["loop do", "    zcl :: pu -> int do", "        break", "        1", "    end", "    break", "end"]),
        hazard: None,
    },
    Kind {
        name: "continue in a pu closure defined inside a loop",
        body: Body::Stmts(&["zn := 0", "loop zn < 2 do", "    zn += 1", "    zcl :: pu zq: int -> int do", "        if zq > 0 do", "            continue", "        end", "        zq", "    end", "end"]),
        hazard: None,
    },
    Kind {
        name: "break in a closure two levels below a loop",
        body: Body::Stmts(&["loop do", "    zo :: fn do", "        zi :: fn do", "            break", "        end", "    end", "    break", "end"]),
        hazard: None,
    },
    Kind {
        name: "break in a blob method defined inside a loop",
        body: Body::Stmts(&["loop do", "    zo :: Zbf { f: fn -> int do", "        break", "        1", "    end }", "    break", "end"]),
        hazard: None,
    },
    Kind {
        name: "continue in a closure defined inside a loop",
        body: Body::Stmts(&["loop do", "    zcl :: fn do", "        if true do", "            continue", "        end", "    end", "    break", "end"]),
        hazard: Some(("*", "break_or_continue_in_closure_inside_loop")),
    },
];

const EXPR_FORMS: &[&str] = &["unused-expression", "definition", "call-argument", "blob-field-initialiser", "list-element", "return-value-of-closure"];

fn expr_lines(form: &str, e: &str) -> Vec<String> {
    match form {
        "unused-expression" => vec![e.to_string()],
        "definition" => vec![format!("zq9 := {}", e)],
        "call-argument" => vec![format!("zh_any9 :: fn a do"), "end".into(), format!("zh_any9({})", e)],
        "blob-field-initialiser" => vec![format!("zb9 := Zg {{ g: {} }}", e)],
        "list-element" => vec![format!("zl9 := [{}]", e)],
        _ => vec!["zf9 :: fn ->".into(), format!("    {}", e), "end".into()],
    }
}

const NESTS: &[(&str, &[&str], &[&str])] = &[
    ("if", &["if true do"], &["end"]),
    ("loop", &["loop do"], &["    break", "end"]),
    ("block", &["do"], &["end"]),
    ("fn-closure", &["zin :: fn do"], &["end"]),
    ("pu-closure", &["zin2 :: pu do"], &["end"]),
    ("else", &["if false do", "else do"], &["end"]),
    ("case-arm", &["case Maybe.None do", "    None ->"], &["    end", "    else", "    end", "end"]),
];

fn wrap_in_pure(prelude: &[&str], params: &str, viol: &[&str], rng: &mut Rng) -> (Vec<String>, String) {
    let mut lines: Vec<String> = prelude.iter().map(|s| s.to_string()).collect();
    let head = if params.is_empty() { "zpure :: pu -> int do".to_string() } else { format!("zpure :: pu {} -> int do", params) };
    lines.push(head);
    let depth = rng.below(4);
    let mut chosen = Vec::new();
    let mut inner: Vec<String> = viol.iter().map(|s| s.to_string()).collect();
    for _ in 0..depth {
        let (name, open, close) = NESTS[rng.below(NESTS.len())];
        chosen.push(name);
        let mut w: Vec<String> = open.iter().map(|s| s.to_string()).collect();
        let pad = if name == "case-arm" { "        " } else { "    " };
        for l in &inner {
            w.push(format!("{}{}", pad, l));
        }
        for c in close {
            w.push(c.to_string());
        }
        inner = w;
    }
    for l in inner {
        lines.push(format!("    {}", l));
    }
    lines.push("    1".into());
    lines.push("end".into());
    (lines, format!("pure-nesting-depth{}[{}]", depth, chosen.join(">")))
}

struct Site {
    block_no: usize,
    ctx: BlockCtx,
    len: usize,
}

fn sites(p: &Program) -> Vec<Site> {
    let mut p2 = p.clone();
    let mut out = Vec::new();
    let mut n = 0usize;
    visit::blocks_mut(&mut p2, &mut |b: &mut Block, c: &BlockCtx| {
        out.push(Site { block_no: n, ctx: *c, len: b.stmts.len() });
        n += 1;
        false
    });
    out
}

fn insert_at(p: &Program, site: &Site, at: usize, lines: Vec<String>) -> Program {
    let mut p2 = p.clone();
    let neutral = p2.new_binder("u", Ty::Int, false, BKind::Local);
    let mut n = 0usize;
    let target = site.block_no;
    let mut lines = Some(lines);
    visit::blocks_mut(&mut p2, &mut |b: &mut Block, _c: &BlockCtx| {
        if n == target {
            let at = at.min(b.stmts.len());
            let at_end = at == b.stmts.len();
            b.stmts.insert(at, Stmt::Raw(lines.take().unwrap_or_default()));
            if at_end && b.value.is_none() {
                // keep the planted statement from becoming the block's value
                b.stmts.push(Stmt::Def { b: neutral, init: Expr::Int(0) });
            }
            return true;
        }
        n += 1;
        false
    });
    p2
}

fn all_annot(_s: AnnotSite) -> bool {
    true
}

fn render(p: &Program) -> String {
    let name = default_name(p);
    let mut t = print_with(p, &name, &all_annot, None, None, None);
    t.push_str(HELPERS);
    t
}

pub struct Planted {
    pub prop: &'static str,
    pub kinds: &'static [Kind],
}

pub static C03: Planted = Planted { prop: "C03", kinds: C03_KINDS };
pub static C04: Planted = Planted { prop: "C04", kinds: C04_KINDS };
pub static C05: Planted = Planted { prop: "C05", kinds: C05_KINDS };

fn judge(st: &mut Stats, prop: &str, case: u64, kind: &Kind, form: &str, class: &str, text: &str, hazard: Option<String>) {
    let r = compile_budgeted(text);
    let cell = format!("{} | {} | {}", kind.name, form, class);
    st.count("plants_tried");
    st.count(&format!("tried:kind:{}", kind.name));
    st.count(&format!("tried:position:{}", class));
    st.count(&format!("tried:form:{}", form));
    if hazard.is_some() {
        st.count("hazard_plants");
    }
    let viol = |sig: String| Violation {
        signature: sig,
        hazard: hazard.clone(),
        case,
        detail: J::obj().with("kind", J::s(kind.name)).with("form", J::s(form)).with("position_class", J::s(class)).with("text", J::s(text)),
    };
    match r {
        Compiled::Err { errors, bytes_written } => {
            if errors.is_empty() {
                st.violation(viol(format!("plant:empty-error-list:{}", kind.name)));
            } else if bytes_written > 0 {
                st.violation(viol(format!("plant:lua-written-despite-errors:{}", kind.name)));
            } else {
                st.count("plants_rejected");
                st.count(&format!("rejected:kind:{}", kind.name));
                st.nontrivial(hash64(cell.as_bytes()) ^ hash64(&case.to_le_bytes()));
            }
        }
        Compiled::Ok(_) => st.violation(viol(format!("plant:accepted:{}", kind.name))),
        Compiled::Panic { location, .. } => st.violation(viol(format!("plant:panic@{}", location))),
        Compiled::Fuel => st.count("plants_discarded_compile_budget"),
    }
    let _ = prop;
}

impl Planted {
    fn start_variants(&self, p: &Program, st: &mut Stats, case: u64, rng: &mut Rng) {
        // whole-program kinds of C05: the entry point
        let name = |b: BId| if b == p.start { "zstart_renamed".to_string() } else { default_name(p)(b) };
        let mut base = print_with(p, &name, &all_annot, None, None, None);
        base.push_str(HELPERS);
        let variants: &[(&str, &str)] = &[
            ("no start at all", ""),
            ("start is an int constant", "start :: 1\n"),
            ("start takes a parameter", "start :: fn x: int do\nend\n"),
            ("start returns an int", "start :: fn -> int do\n    1\nend\n"),
            ("start is a mutable int", "start := 1\n"),
        ];
        let (vn, extra) = variants[rng.below(variants.len())];
        let text = format!("{}\n{}", base, extra);
        let kind = Kind { name: Box::leak(format!("entry point: {}", vn).into_boxed_str()), body: Body::Stmts(&[]), hazard: None };
        judge(st, self.prop, case, &kind, "whole-program", "top-level", &text, None);
        // start only in an imported file
        if rng.chance(1, 3) {
            let mut files = sy::Files::new();
            let name2 = default_name(p);
            let mut other = print_with(p, &name2, &all_annot, None, None, None);
            other.push_str(HELPERS);
            files.insert("other.sy".into(), other);
            files.insert("main.sy".into(), "use other\n\nzk :: 1\n".into());
            let r = sy::compile_files(&files, "main.sy", &sy::CompileOpts { fuel: Some(crate::rel::CAMPAIGN_FUEL), ..Default::default() });
            st.count("plants_tried");
            st.count("tried:kind:entry point: start only in an imported file");
            match r {
                Compiled::Err { errors, bytes_written } if !errors.is_empty() && bytes_written == 0 => {
                    st.count("plants_rejected");
                    st.count("rejected:kind:entry point: start only in an imported file");
                }
                Compiled::Fuel => st.count("plants_discarded_compile_budget"),
                other => st.violation(Violation {
                    signature: format!("plant:{}:entry point: start only in an imported file", if other.is_ok() { "accepted" } else { "other" }),
                    hazard: None,
                    case,
                    detail: J::obj().with("files", J::Obj(files.iter().map(|(k, v)| (k.clone(), J::s(v.clone()))).collect())).with("result", J::s(other.brief())),
                }),
            }
        }
    }
}

impl Check for Planted {
    fn id(&self) -> &'static str {
        self.prop
    }
    fn plan(&self, ctx: &Ctx) -> u64 {
        scaled(ctx, 3_000, 80_000)
    }
    fn run_case(&self, ctx: &Ctx, index: u64, st: &mut Stats) {
        let mut rng = Rng::for_case(ctx.seed, self.prop, index);
        let mut cfg = Cfg::general(2);
        cfg.start_stmts = 6;
        let p = gen::generate(&mut rng, cfg);
        let base = render(&p);
        match compile_budgeted(&base) {
            Compiled::Ok(_) => st.count("bases_accepted"),
            Compiled::Fuel => {
                st.count("bases_discarded_compile_budget");
                return;
            }
            _ => {
                st.count("bases_rejected(discarded)");
                return;
            }
        }
        let ss = sites(&p);
        if ss.is_empty() {
            return;
        }
        let per_base = if ctx.tier == Tier::Quick { 10 } else { 14 };
        let mut sampled = false;
        for j in 0..per_base {
            // kinds are cycled so that every kind gets an equal share; sites and forms are random
            let kind = &self.kinds[((index * per_base as u64 + j as u64) % self.kinds.len() as u64) as usize];
            let site = &ss[rng.below(ss.len())];
            let class = site.ctx.class();
            let at = rng.below(site.len + 1);
            let (lines, form, class) = match kind.body {
                Body::Expr(e) => {
                    let form = EXPR_FORMS[rng.below(EXPR_FORMS.len())];
                    if rng.chance(1, 10) {
                        // global initialiser placement
                        let text = format!("{}\ngzq9 :: {}\n", base, e);
                        let hz = kind.hazard.filter(|(f, _)| *f == "*" || *f == "global-initialiser").map(|(_, h)| h.to_string());
                        judge(st, self.prop, index, kind, "global-initialiser", "top-level", &text, hz);
                        continue;
                    }
                    (expr_lines(form, e), form.to_string(), class)
                }
                Body::Stmts(ls) => (ls.iter().map(|s| s.to_string()).collect(), "statements".to_string(), class),
                Body::InPure { prelude, params, viol } => {
                    let (lines, nest) = wrap_in_pure(prelude, params, viol, &mut rng);
                    (lines, nest, class)
                }
                Body::OutsideLoop(ls) => {
                    // needs a site that is not inside a loop of the same function
                    let cands: Vec<&Site> = ss.iter().filter(|s| !s.ctx.in_loop).collect();
                    if cands.is_empty() {
                        continue;
                    }
                    let s2 = cands[rng.below(cands.len())];
                    let at2 = rng.below(s2.len + 1);
                    let cls = s2.ctx.class();
                    let hz = if s2.ctx.in_outer_loop { Some("break_or_continue_in_closure_inside_loop".to_string()) } else { None };
                    let form = if s2.ctx.in_outer_loop { "statements(closure-lexically-inside-a-loop)" } else { "statements" };
                    let p2 = insert_at(&p, s2, at2, ls.iter().map(|s| s.to_string()).collect());
                    let text = render(&p2);
                    judge(st, self.prop, index, kind, form, &cls, &text, hz);
                    continue;
                }
            };
            let hz = kind.hazard.filter(|(f, _)| *f == "*" || *f == form).map(|(_, h)| h.to_string());
            let p2 = insert_at(&p, site, at, lines);
            let text = render(&p2);
            if !sampled && index < 3 {
                sampled = true;
                let t = text.clone();
                let kn = kind.name;
                st.sample(|| J::obj().with("kind", J::s(kn)).with("planted_program", J::s(t)));
            }
            judge(st, self.prop, index, kind, &form, &class, &text, hz);
        }
        if self.prop == "C05" && index % 4 == 0 {
            self.start_variants(&p, st, index, &mut rng);
        }
    }
    fn replay_witness(&self, _ctx: &Ctx, f: &Finding) -> Option<String> {
        let text = f.raw.get("witness_text").and_then(|x| x.as_str())?;
        match sy::compile_str(text) {
            Compiled::Ok(_) => Some(f.signature.clone()),
            _ => None,
        }
    }
    fn finish(&self, _ctx: &Ctx, st: &Stats) -> Finish {
        let mut inconclusive = Vec::new();
        for kd in self.kinds {
            if st.get(&format!("tried:kind:{}", kd.name)) == 0 {
                inconclusive.push(format!("kind never planted: {}", kd.name));
            }
        }
        for cls in ["function-body", "if-arm", "case-arm", "loop-body", "block", "closure-body-depth2", "if-arm-in-closure"] {
            if st.get(&format!("tried:position:{}", cls)) == 0 {
                inconclusive.push(format!("position class never used: {}", cls));
            }
        }
        let acc = st.get("bases_accepted");
        if acc * 10 < st.evaluations * 8 {
            inconclusive.push(format!("only {} of {} base programs accepted", acc, st.evaluations));
        }
        Finish {
            level: "exploration",
            rule: format!(
                "an accepted generated base program (+ fixed helper declarations) gets exactly one planted violation: {} kinds taken from the property's enumeration (literal operands) x random site (position classes: function body, closure body depth 2-3, if/case arm, loop body, block, the same inside closures, top-level initialiser) x embedding form (unused expression, definition, call argument, blob field initialiser, list element, closure return value; pure-function kinds at nesting depth 0-3 through if/else/loop/block/case-arm/fn/pu closures). Oracle: compile returns Err with >= 1 error and 0 bytes of Lua. Non-trivial & distinct: (kind, form, position class, base program) tuples.",
                self.kinds.len()
            ),
            extra: J::obj(),
            assumptions: vec!["the unplanted base (with helpers) is confirmed accepted first, so any rejection is caused by the plant; a plant inserted at the end of a block is followed by a neutral definition so that it does not become the block's value".into()],
            exhaustive: false,
            inconclusive,
        }
    }
}
