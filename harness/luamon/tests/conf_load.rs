//! Conformance: load-time rules (syntax, return-not-last, break, goto, limits, grey zones) and census.
mod common;
use common::{big_stack, check_one, class_name, run_cases};
use luamon::*;

const LOAD: &[(&str, &str)] = &[
    ("x = ", "L:Syntax|unexpected symbol near '<eof>'"),
    ("print(\"abc", "L:Syntax|unfinished string"),
    ("print(\"abc\ndef\")", "L:Syntax|unfinished string"),
    ("print(\"a\\qb\")", "L:Syntax|invalid escape sequence near '\"a\\q'"),
    ("x = = 1", "L:Syntax|unexpected symbol near '='"),
    ("local 1 = 2", "L:Syntax|<name> expected near '1'"),
    ("if x then", "L:Syntax|'end' expected near '<eof>'"),
    ("if x then\n\nprint(1)", "L:Syntax|'end' expected (to close 'if' at line 1) near '<eof>'"),
    ("for i = 1 do end", "L:Syntax|',' expected near 'do'"),
    ("for i do end", "L:Syntax|'=' or 'in' expected"),
    ("x = 1 +", "L:Syntax|unexpected symbol near '<eof>'"),
    ("f(", "L:Syntax"),
    ("a.b:c = 1", "L:Syntax|function arguments expected near '='"),
    ("print('x' 'y')", "L:Syntax|')' expected near ''y''"),
    ("x = }", "L:Syntax|unexpected symbol near '}'"),
    ("1 = x", "L:Syntax|unexpected symbol near '1'"),
    ("x = 3x", "L:Syntax|malformed number near '3x'"),
    ("x = 0x", "L:Syntax|malformed number near '0x'"),
    ("x = 1..2", "L:Syntax|malformed number near '1..2'"),
    ("x = '\\300'", "L:Syntax|decimal escape too large"),
    ("x = '\\xZZ'", "L:Syntax|hexadecimal digit expected"),
    ("x = '\\u{110000000}'", "L:Syntax|UTF-8 value too large"),
    ("x = '\\u123'", "L:Syntax|missing '{'"),
    ("--[[ unfinished", "L:Syntax|unfinished long comment"),
    ("x = [[abc", "L:Syntax|unfinished long string"),
    ("x = [=abc", "L:Syntax|invalid long string delimiter"),
    ("local function", "L:Syntax|<name> expected near '<eof>'"),
    ("f() = 1", "L:Syntax|syntax error near '='"),
    ("(a) = 1", "L:Syntax|syntax error near '='"),
    ("a, f() = 1, 2", "L:Syntax|syntax error near '='"),
    ("a.b", "L:Syntax|syntax error near '<eof>'"),
    ("x = 1 y = 2 z", "L:Syntax"),
    ("function f() return ... end", "L:Syntax|cannot use '...' outside a vararg function"),
    ("local t = {1, 2", "L:Syntax|'}' expected near '<eof>'"),
    ("x = @", "L:Syntax|unexpected symbol near '@'"),
    ("x = 1 end", "L:Syntax|'<eof>' expected near 'end'"),
    ("local x = function() end end", "L:Syntax|'<eof>' expected near 'end'"),
    ("goto = 1", "L:Syntax"),
    ("x = a.1", "L:Syntax"),
    ("x = 'a' .. ", "L:Syntax"),
    ("while true print(1) end", "L:Syntax|'do' expected near 'print'"),
    ("repeat x = 1", "L:Syntax|'until' expected near '<eof>'"),
    ("local a <", "L:Syntax"),
    ("x = ... print(select('#', ...))", "P:0"),
    ("#!/usr/bin/lua\nprint('shebang ok')", "P:shebang ok"),
    // break
    ("break", "L:BreakOutsideLoop|<break> at line 1 not inside a loop"),
    ("while true do local f = function() break end end", "L:BreakOutsideLoop"),
    ("for i = 1, 2 do end break", "L:BreakOutsideLoop"),
    ("if true then break end", "L:BreakOutsideLoop"),
    ("local f = function() for i = 1, 2 do if i then break end end end print(f())", "P:"),
    ("repeat if true then do break end end until false print('out')", "P:out"),
    // return must be last
    ("return 1 print(2)", "L:ReturnNotLast"),
    ("return 1; print(2)", "L:ReturnNotLast"),
    ("function f() return 1 x = 2 end", "L:ReturnNotLast|'end' expected near 'x'"),
    ("if x then return 1 local y end", "L:ReturnNotLast"),
    ("do return end print(1)", "P:"),
    ("if true then return else return end", "P:"),
    ("local function f() return 1; end print(f())", "P:1"),
    ("while false do return end return;", "P:"),
    ("return return", "L:Syntax"),
    // goto
    ("goto nowhere", "L:Goto|no visible label 'nowhere' for <goto> at line 1"),
    ("do ::l:: end goto l", "L:Goto|no visible label 'l'"),
    ("goto f local x ::f:: print(x)", "L:Goto|<goto f> at line 1 jumps into the scope of local 'x'"),
    ("do goto f local x ::f:: end print('ok')", "P:ok"),
    ("do goto f local x ::f:: ; ::g:: ;; end print('ok2')", "P:ok2"),
    ("::a:: ::a::", "L:Goto|label 'a' already defined on line 1"),
    ("::a:: do ::a:: end print('nested ok')", "P:nested ok"),
    ("function f() goto out end ::out::", "L:Goto|no visible label 'out'"),
    ("repeat goto cont local z ::cont:: until z", "L:Goto|jumps into the scope of local 'z'"),
    ("local n = 0 while n < 3 do n = n + 1 goto continue local x = 1 ::continue:: end print(n)", "P:3"),
    ("do goto l1 ::l1:: ::l2:: end goto l3 ::l3:: ;;; print('fine')", "P:fine"),
    ("if true then goto done end print('skipped') ::done:: print('end')", "P:end"),
    ("goto l local a ::l:: ::m:: local b", "L:Goto|jumps into the scope of local 'a'"),
    ("do local a goto l local b ::l:: a = 1 end", "L:Goto|jumps into the scope of local 'b'"),
    ("local function f() for i = 1, 3 do for j = 1, 3 do if j == 2 then goto out end end end ::out:: return 'out' end print(f())", "P:out"),
];

#[test]
fn load_cases() {
    run_cases(LOAD);
}

fn class_of(src: &str) -> String {
    match load(src) {
        Ok(_) => "Ok".to_string(),
        Err(e) => class_name(&e.class),
    }
}

#[test]
fn limits() {
    big_stack(|| {
        let locals = |n: usize| {
            let mut s = String::new();
            for i in 0..n {
                s.push_str(&format!("local v{} = {}\n", i, i));
            }
            s
        };
        assert_eq!(class_of(&locals(100)), "Ok");
        assert_eq!(class_of(&locals(189)), "Ok");
        assert_eq!(class_of(&locals(190)), "GreyZone:locals");
        assert_eq!(class_of(&locals(200)), "GreyZone:locals");
        assert_eq!(class_of(&locals(201)), "GreyZone:locals");
        assert_eq!(class_of(&locals(210)), "GreyZone:locals");
        assert_eq!(class_of(&locals(211)), "Limit:locals");
        assert_eq!(class_of(&locals(250)), "Limit:locals");
        match load(&locals(250)) {
            Err(LoadError { class: LoadClass::Limit { what: "locals", count }, .. }) => assert_eq!(count, 211),
            other => panic!("{:?}", other.map(|_| ())),
        }
        // locals in separate functions / blocks do not add up
        let mut s = String::new();
        for f in 0..3 {
            s.push_str(&format!("local function f{}()\n{}end\n", f, locals(150)));
        }
        assert_eq!(class_of(&s), "Ok");
        let s = format!("do\n{}end\ndo\n{}end\n", locals(150), locals(150));
        assert_eq!(class_of(&s), "Ok");
        // a for loop takes 3 hidden locals + its variable
        let s = format!("{}for i = 1, 2 do end", locals(186));
        assert_eq!(class_of(&s), "GreyZone:locals");
        let s = format!("{}for i = 1, 2 do end", locals(185));
        assert_eq!(class_of(&s), "Ok");
        // nesting: parentheses
        let parens = |n: usize| format!("x = {}1{}", "(".repeat(n), ")".repeat(n));
        assert_eq!(class_of(&parens(150)), "Ok");
        assert_eq!(class_of(&parens(190)), "GreyZone:levels");
        assert_eq!(class_of(&parens(300)), "Limit:levels");
        assert_eq!(class_of(&parens(100000)), "Limit:levels");
        // nesting: blocks
        let blocks = |n: usize| format!("{}x = 1 {}", "do ".repeat(n), "end ".repeat(n));
        assert_eq!(class_of(&blocks(150)), "Ok");
        assert_eq!(class_of(&blocks(300)), "Limit:levels");
        let ifs = |n: usize| format!("{}x = 1 {}", "if a then ".repeat(n), "end ".repeat(n));
        assert_eq!(class_of(&ifs(100)), "Ok");
        assert_eq!(class_of(&ifs(250)), "Limit:levels");
        // right-assoc chains nest, left-assoc chains do not
        let concat = |n: usize| format!("x = {}'z'", "'a' .. ".repeat(n));
        assert_eq!(class_of(&concat(100)), "Ok");
        assert_eq!(class_of(&concat(300)), "Limit:levels");
        let plus = |n: usize| format!("x = {}1", "1 + ".repeat(n));
        assert_eq!(class_of(&plus(1000)), "Ok");
        let unary = |n: usize| format!("x = {}1", "- ".repeat(n));
        assert_eq!(class_of(&unary(100)), "Ok");
        assert_eq!(class_of(&unary(300)), "Limit:levels");
        let tables = |n: usize| format!("x = {}{}", "{".repeat(n), "}".repeat(n));
        assert_eq!(class_of(&tables(100)), "Ok");
        assert_eq!(class_of(&tables(300)), "Limit:levels");
        let funcs = |n: usize| format!("x = {}{}", "function() return ".repeat(n), " end".repeat(n));
        assert_eq!(class_of(&funcs(50)), "Ok");
        assert_eq!(class_of(&funcs(250)), "Limit:levels");
        // registers: a call with many arguments
        let call = |n: usize| format!("f({})", vec!["g()"; n].join(", "));
        assert_eq!(class_of(&call(100)), "Ok");
        assert_eq!(class_of(&call(245)), "GreyZone:registers");
        assert_eq!(class_of(&call(300)), "Limit:registers");
        // locals + call arguments share the register file
        let s = format!("{}f({})", locals(180), vec!["g()"; 100].join(", "));
        assert_eq!(class_of(&s), "Limit:registers");
        // constants as table items are flushed every 50: no register pressure
        let s = format!("x = {{{}}}", vec!["1"; 1000].join(", "));
        assert_eq!(class_of(&s), "Ok");
        // upvalues
        let mut s = locals(150);
        s.push_str("local function a()\n");
        s.push_str(&locals(120).replace("local v", "local w"));
        s.push_str("local function b() return ");
        let mut terms = Vec::new();
        for i in 0..150 {
            terms.push(format!("v{}", i));
        }
        for i in 0..120 {
            terms.push(format!("w{}", i));
        }
        s.push_str(&terms.join(" + "));
        s.push_str(" end end");
        assert_eq!(class_of(&s), "Limit:upvalues");
        // very long left-assoc chain is rejected by luamon's own guard rather than overflowing the stack
        assert_eq!(class_of(&plus(100000)), "Syntax");
    });
}

#[test]
fn census() {
    let src = "x = 1\nlocal function pre() V9 = 1 return V9 end\n-- End Sylt preamble\nrequire \"mod\"\nV1 = 1\nlocal V2 = V1 + V3\nlocal function V4(V5)\n  V6 = V5\n  if V5 then V7 = __INDEX(V5, 1) else V8 = 2 end\n  return V6\nend\nrequire(name)\nnotV = 3\n";
    let c = load(src).expect("load");
    assert_eq!(c.census.marker_line, 3);
    assert_eq!(c.census.free_v_written_at_top, vec!["V1".to_string()]);
    assert_eq!(c.census.free_v_written_in_functions, vec!["V6".to_string(), "V7".to_string(), "V8".to_string()]);
    assert_eq!(c.census.free_v_read, vec!["V1".to_string(), "V3".to_string(), "V6".to_string()]);
    assert_eq!(c.census.require_calls, vec![(4, "mod".to_string()), (12, "?".to_string())]);
    assert_eq!(c.census.functions, 1);
    assert!(c.census.max_locals_in_function >= 2 && c.census.max_locals_in_function < 10);
    assert!(c.census.max_nesting >= 3 && c.census.max_nesting < 20);
    assert!(c.census.max_registers >= 3 && c.census.max_registers < 20);
    // no marker: whole chunk is the emitted region
    let c2 = load("V1 = 1 print(V1, V2)").expect("load");
    assert_eq!(c2.census.marker_line, 0);
    assert_eq!(c2.census.free_v_read, vec!["V1".to_string(), "V2".to_string()]);
    // load errors carry the line
    let e = load("x = 1\ny = = 2").unwrap_err();
    assert_eq!(e.line, 2);
    assert_eq!(e.class, LoadClass::Syntax);
    let e = load("x = 1\n\nbreak").unwrap_err();
    assert_eq!((e.line, e.class), (3, LoadClass::BreakOutsideLoop));
    // chunk is reusable
    let c3 = load("n = (n or 0) + 1 print(n)").expect("load");
    for _ in 0..3 {
        let r = run(&c3, &Options::default());
        assert_eq!(r.prints, vec!["1".to_string()]);
        assert_eq!(r.outcome, Outcome::Ok);
    }
    assert!(check_one("print(1)", "P:1", &Options::default()).is_ok());
}
