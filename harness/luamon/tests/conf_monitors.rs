//! Monitors, counters, outcome classification, budgets, require, C-level limits.
mod common;
use common::big_stack;
use luamon::*;

fn go(src: &str, opts: &Options) -> RunResult {
    let c = load(src).unwrap_or_else(|e| panic!("load failed: {:?}", e));
    run(&c, opts)
}
fn mon() -> Options {
    Options { monitor_v: true, ..Default::default() }
}
fn uninit(r: &RunResult) -> Vec<(u32, String, &'static str)> {
    r.events.iter().filter_map(|e| if let Event::UninitRead { line, name, kind } = e { Some((*line, name.clone(), *kind)) } else { None }).collect()
}

#[test]
fn uninit_reads() {
    let r = go("x = 0\n-- End Sylt preamble\nlocal V1 = nil\nprint(V1)\nV1 = 5\nprint(V1)\n", &mon());
    assert_eq!(r.outcome, Outcome::Ok);
    assert_eq!(uninit(&r), vec![(4, "V1".to_string(), "local-defined-nil")]);
    assert_eq!(r.counters.uninit_reads, 1);
    assert!(r.counters.v_reads_checked >= 2);
    // negatives
    assert!(uninit(&go("local V1 = nil V1 = 3 print(V1)", &mon())).is_empty());
    assert!(uninit(&go("local x = nil print(x)", &mon())).is_empty());
    assert!(uninit(&go("local V1 print(V1)", &mon())).is_empty());
    assert!(uninit(&go("local V1, V2 = nil print(V1)", &mon())).is_empty());
    assert!(uninit(&go("local V1 = (nil) print(V1)", &mon())).is_empty());
    assert!(uninit(&go("local V1 = nil print(V1)", &Options::default())).is_empty());
    assert!(uninit(&go("local V1 = nil print(V1)\n-- End Sylt preamble\n", &mon())).is_empty());
    // through closures: flag lives on the shared cell
    let r = go("local V1 = nil\nlocal function V2() return V1 end\nV2()", &mon());
    assert_eq!(uninit(&r), vec![(2, "V1".to_string(), "local-defined-nil")]);
    let r = go("local V1 = nil\nlocal function V2() V1 = 1 end\nV2()\nprint(V1)", &mon());
    assert!(uninit(&r).is_empty());
    // re-declaration in a loop resets the flag each iteration
    let r = go("for i = 1, 2 do\nlocal V1 = nil\nif i == 2 then print(V1) end\nV1 = i\nend", &mon());
    assert_eq!(uninit(&r).len(), 1);
    // globals
    let r = go("print(V7)", &mon());
    assert_eq!(uninit(&r), vec![(1, "V7".to_string(), "global-never-assigned")]);
    assert!(uninit(&go("V7 = nil print(V7)", &mon())).is_empty());
    assert!(uninit(&go("V7 = 1 print(V7)", &mon())).is_empty());
    assert!(uninit(&go("print(Vx, V, V1a, v1)", &mon())).is_empty());
}

#[test]
fn interference() {
    let src = "local function V1(V2)\n  V3 = V2\n  if V2 > 0 then\n    local V4 = V1(V2 - 1)\n  end\n  return V3\nend\nprint(V1(2))\n";
    let r = go(src, &mon());
    assert_eq!(r.prints, vec!["0".to_string()]);
    let ev: Vec<_> = r.events.iter().filter_map(|e| if let Event::Interference { line, name, writer_activation, reader_activation, origin } = e { Some((*line, name.clone(), *writer_activation, *reader_activation, *origin)) } else { None }).collect();
    assert_eq!(ev, vec![(6, "V3".to_string(), 4, 3, "plain"), (6, "V3".to_string(), 4, 2, "plain")]);
    assert_eq!(r.counters.interference, 2);
    assert_eq!(r.counters.free_v_writes, 3);
    assert_eq!(r.counters.free_v_reads, 3);
    // no recursion: no interference
    let r = go("local function V1(V2) V3 = V2 return V3 end print(V1(1), V1(2))", &mon());
    assert_eq!(r.counters.interference, 0);
    // overwritten with a raw-equal value: no event
    let r = go("local function V1(V2)\n V3 = 7\n if V2 > 0 then local V4 = V1(V2 - 1) end\n return V3\nend\nprint(V1(2))", &mon());
    assert_eq!(r.counters.interference, 0);
    // origins
    let r = go("function __INDEX(o, i) return o[i] end\n-- End Sylt preamble\nlocal function V1(V2)\n  V5 = __INDEX(V2, 1)\n  if #V2 > 1 then local V6 = V1({V2[2]}) end\n  return V5\nend\nprint(V1({1, 2}))", &mon());
    assert!(r.events.iter().any(|e| matches!(e, Event::Interference { origin: "index-temp", name, .. } if name == "V5")), "{:?}", r.events);
    let r = go("local function V1(V2)\n  if true then V5 = V2 end\n  if V2 > 0 then local V6 = V1(V2 - 1) end\n  return V5\nend\nprint(V1(1))", &mon());
    assert!(r.events.iter().any(|e| matches!(e, Event::Interference { origin: "arm-assign", .. })), "{:?}", r.events);
    // creator chain: a closure reads what its creating activation wrote, after another activation overwrote it
    let src = "local function V1()\n  V2 = 10\n  return function() return V2 end\nend\nlocal V3 = V1()\nlocal function V4() V2 = 20 end\nV4()\nprint(V3())";
    let r = go(src, &mon());
    assert_eq!(r.prints, vec!["20".to_string()]);
    assert_eq!(r.counters.interference, 1, "{:?}", r.events);
    assert!(r.counters.closures_called_after_creator_returned >= 1);
    // monitors off: nothing recorded
    let r = go("local function V1(V2)\n V3 = V2\n if V2 > 0 then local V4 = V1(V2 - 1) end\n return V3\nend\nprint(V1(2))", &Options::default());
    assert!(r.events.is_empty());
    assert_eq!(r.counters.interference, 0);
}

#[test]
fn live_across_and_closures() {
    let r = go("local function V9() return 1 end\nlocal V1 = 1\nlocal V2 = V9()\nprint(V1)", &mon());
    assert!(r.counters.live_across_call_reads >= 1);
    let r = go("local V1 = 1\nprint(V1)", &mon());
    assert_eq!(r.counters.live_across_call_reads, 0);
    let r = go("local function mk() return function() return 1 end end local g = mk() g()", &mon());
    assert_eq!(r.counters.closures_created, 2);
    assert_eq!(r.counters.closures_called_after_creator_returned, 1);
    let r = go("local function f() return 1 end f() f()", &mon());
    assert_eq!(r.counters.closures_called_after_creator_returned, 0);
    assert!(r.counters.calls >= 2);
    assert_eq!(r.counters.max_depth, 2);
    let r = go("local a = 1 + 2 local b = a < 3 local t = {} t.x = a local c = t.x", &Options::default());
    assert!(r.counters.arith_ops >= 1 && r.counters.compares >= 1 && r.counters.index_ops >= 2 && r.counters.field_reads >= 1);
    assert!(r.steps >= 5);
}

#[test]
fn missing_field_and_coercion() {
    let pre = "__BLOB_META = { _type = \"blob\" }\nfunction __BLOB(o) return setmetatable(o, __BLOB_META) end\nlocal p = __BLOB{ a = 1 } local q = p.zzz\n-- End Sylt preamble\n";
    let r = go(&format!("{}local V1 = __BLOB{{ x = 1 }}\nprint(V1.x, V1.y)\nprint(V1[\"w\"])\nlocal t = {{}} print(t.y)\nlocal l = setmetatable({{}}, {{_type = \"list\"}}) print(l.y)", pre), &Options::default());
    let ev: Vec<_> = r.events.iter().filter_map(|e| if let Event::MissingField { line, field } = e { Some((*line, field.clone())) } else { None }).collect();
    assert_eq!(ev, vec![(6, "y".to_string())]);
    assert_eq!(r.counters.missing_fields, 1);
    // coercions
    let strict = Options { strict_arith: true, ..Default::default() };
    let r = go("print('10' + 1, 1 .. '', -'2')", &strict);
    assert_eq!(r.prints, vec!["11\t1\t-2".to_string()]);
    let ev: Vec<_> = r.events.iter().filter_map(|e| if let Event::Coercion { op, from, .. } = e { Some((*op, *from)) } else { None }).collect();
    assert_eq!(ev, vec![("+", "string"), ("..", "number"), ("-", "string")]);
    assert_eq!(r.counters.coercions, 3);
    let r = go("print('10' + 1, 1 + 1, 'a' .. 'b')", &Options::default());
    assert!(r.events.is_empty());
    let r = go("print(1 + 1, 'a' .. 'b', 1.5 * 2)", &strict);
    assert!(r.events.is_empty());
    // events are capped at 1000, counters keep counting
    let r = go("for i = 1, 1500 do local x = '1' + i end", &strict);
    assert_eq!(r.events.len(), 1000);
    assert_eq!(r.counters.coercions, 1500);
}

#[test]
fn require_modules() {
    let mut o = Options::default();
    o.modules = vec![("mod".into(), "shared = (shared or 0) + 1\nreturn {v = 42}".into()), ("nores".into(), "local x = 1".into()), ("bad".into(), "x = = 1".into()), ("uses".into(), "local m = require 'mod' return m.v + 1".into())];
    let r = go("local m = require \"mod\"\nprint(m.v, require('mod') == m, shared, require 'nores', require('uses'))", &o);
    assert_eq!(r.outcome, Outcome::Ok, "{:?}", r);
    assert_eq!(r.prints, vec!["42\ttrue\t1\ttrue\t43".to_string()]);
    let req: Vec<_> = r.events.iter().filter_map(|e| if let Event::Require { line, name, found } = e { Some((*line, name.clone(), *found)) } else { None }).collect();
    assert_eq!(req[0], (1, "mod".to_string(), true));
    assert!(req.len() >= 4);
    let r = go("require 'nomod'", &o);
    match &r.outcome {
        Outcome::Error(e) => assert!(e.msg.starts_with("stdin:1: module 'nomod' not found:"), "{}", e.msg),
        other => panic!("{:?}", other),
    }
    assert!(r.events.iter().any(|e| matches!(e, Event::Require { found: false, .. })));
    let r = go("require 'bad'", &o);
    match &r.outcome {
        Outcome::Error(e) => assert!(e.msg.contains("error loading module 'bad'"), "{}", e.msg),
        other => panic!("{:?}", other),
    }
    let r = go("require 'mod'", &Options::default());
    assert!(matches!(r.outcome, Outcome::Error(_)));
}

fn err_of(src: &str) -> LuaError {
    match go(src, &Options::default()).outcome {
        Outcome::Error(e) => e,
        other => panic!("expected error for {:?}, got {:?}", src, other),
    }
}

#[test]
fn classification() {
    assert_eq!(err_of("assert(1 == 2, \"Assert failed!\")").class, ErrClass::AssertFailed);
    assert_eq!(err_of("assert(1 == 2, \"Assert failed!\")").msg, "Assert failed!");
    assert_eq!(err_of("assert(false, '!!CRASH!!: boom')").class, ErrClass::Crash("boom".into()));
    assert_eq!(err_of("assert(false, 'Tuple/list index out of range \"3\"')").class, ErrClass::PreambleAssert("Tuple/list index out of range \"3\"".into()));
    assert_eq!(err_of("local x = nil + 1").class, ErrClass::Arith("nil".into()));
    assert_eq!(err_of("local x = {} .. 'a'").class, ErrClass::Concat("table".into()));
    assert_eq!(err_of("nofunc()").class, ErrClass::Call("nil".into()));
    assert_eq!(err_of("local x = (5).y").class, ErrClass::Index("number".into()));
    assert_eq!(err_of("local x = 1 < 'a'").class, ErrClass::Compare("number".into(), "string".into()));
    assert_eq!(err_of("local x = {} < {}").class, ErrClass::Compare("table".into(), "table".into()));
    assert_eq!(err_of("local x = 1 // 0").class, ErrClass::DivZero);
    assert_eq!(err_of("local x = 1 % 0").class, ErrClass::DivZero);
    assert_eq!(err_of("error('custom')").class, ErrClass::ErrorCall("custom".into()));
    assert_eq!(err_of("error({})").class, ErrClass::ErrorCall("(error object is a table value)".into()));
    assert!(matches!(err_of("string.rep()").class, ErrClass::Other(_)));
    assert!(matches!(err_of("local t = {} t[nil] = 1").class, ErrClass::Other(_)));
    // classify_error_message agrees with either assert convention
    assert_eq!(classify_error_message("Assert failed!"), ErrClass::AssertFailed);
    assert_eq!(classify_error_message("stdin:12: Assert failed!"), ErrClass::AssertFailed);
    assert_eq!(classify_error_message("stdin:3: !!CRASH!!: x y"), ErrClass::Crash("x y".into()));
    assert_eq!(classify_error_message("stdin:3: attempt to perform arithmetic on a nil value (global 'V5')"), ErrClass::Arith("nil".into()));
    assert_eq!(classify_error_message("stdin:3: attempt to compare two table values"), ErrClass::Compare("table".into(), "table".into()));
    assert_eq!(classify_error_message("stdin:3: attempt to compare number with nil"), ErrClass::Compare("number".into(), "nil".into()));
    assert_eq!(classify_error_message("stdin:1: attempt to perform 'n%%0'"), ErrClass::DivZero);
    assert_eq!(classify_error_message("stdin:1: C stack overflow"), ErrClass::StackOverflow);
    assert!(matches!(classify_error_message("whatever"), ErrClass::Other(_)));
    // optional real-lbaselib behaviour for assert
    let o = Options { assert_adds_position: true, ..Default::default() };
    match go("\nassert(false, 'Assert failed!')", &o).outcome {
        Outcome::Error(e) => {
            assert_eq!(e.msg, "stdin:2: Assert failed!");
            assert_eq!(e.class, ErrClass::AssertFailed);
        }
        other => panic!("{:?}", other),
    }
    // line + traceback
    let e = err_of("local function a()\n  error('x')\nend\nlocal function b()\n  a()\nend\nb()");
    assert_eq!(e.line, 2);
    assert_eq!(e.traceback, vec![2, 5, 7]);
    assert_eq!(e.msg, "stdin:2: x");
    // prints before the error are kept
    let r = go("print('before') error('after')", &Options::default());
    assert_eq!(r.prints, vec!["before".to_string()]);
}

#[test]
fn budgets_and_depth() {
    big_stack(|| {
        assert_eq!(go("while true do end", &Options::default()).outcome, Outcome::Budget("steps"));
        assert_eq!(go("::a:: goto a", &Options::default()).outcome, Outcome::Budget("steps"));
        assert_eq!(go("local function f() return f() + 1 end f()", &Options::default()).outcome, Outcome::Budget("depth"));
        assert_eq!(go("print(pcall(function() while true do end end))", &Options::default()).outcome, Outcome::Budget("steps"));
        let o = Options { capture_print_limit: 5, ..Default::default() };
        let r = go("for i = 1, 100 do print(i) end", &o);
        assert_eq!(r.outcome, Outcome::Budget("prints"));
        assert_eq!(r.prints.len(), 5);
        let o = Options { max_alloc_bytes: 64 << 20, ..Default::default() };
        assert_eq!(go("local s = 'x' while true do s = s .. s end", &o).outcome, Outcome::Budget("memory"));
        let o = Options { max_steps: 100, ..Default::default() };
        let r = go("local n = 0 for i = 1, 1000 do n = n + 1 end", &o);
        assert_eq!(r.outcome, Outcome::Budget("steps"));
        assert!(r.steps >= 100 && r.steps <= 102);
        // deep (non-tail) recursion within the default depth budget works
        let r = go("local function f(n) if n == 0 then return 0 end return 1 + f(n - 1) end print(f(5900))", &Options::default());
        assert_eq!(r.prints, vec!["5900".to_string()]);
        assert_eq!(r.counters.max_depth, 5902);
        let r = go("local function f(n) if n == 0 then return 0 end return 1 + f(n - 1) end print(f(6100))", &Options::default());
        assert_eq!(r.outcome, Outcome::Budget("depth"));
        // C-level nesting (metamethod -> tostring -> metamethod ...) is limited like LUAI_MAXCCALLS
        let chain = |n: u32| format!("local mt = {{}} mt.__tostring = function(t) if t.child then return 'n' .. tostring(t.child) end return 'leaf' end\nlocal root = setmetatable({{}}, mt) local cur = root\nfor i = 1, {} do local c = setmetatable({{}}, mt) cur.child = c cur = c end\nprint(#tostring(root))", n);
        assert_eq!(go(&chain(100), &Options::default()).prints, vec!["104".to_string()]);
        match go(&chain(300), &Options::default()).outcome {
            Outcome::Error(e) => {
                assert_eq!(e.class, ErrClass::StackOverflow);
                assert!(e.msg.contains("C stack overflow"), "{}", e.msg);
            }
            other => panic!("{:?}", other),
        }
        let r = go("local function f(n) local ok, e = pcall(f, n + 1) if not ok and not msg then msg, depth = e, n end end f(1) print(msg, depth)", &Options::default());
        assert_eq!(r.outcome, Outcome::Ok);
        assert!(r.prints[0].contains("stack overflow"), "{:?}", r.prints);
        // the run state is clean after an error inside pcall
        let r = go("for i = 1, 3 do pcall(error, 'x') end local function f() return 1 end print(f())", &Options::default());
        assert_eq!(r.prints, vec!["1".to_string()]);
    });
}
