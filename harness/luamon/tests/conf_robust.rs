//! Robustness: mutated inputs never panic; Chunk is Send + Sync; bin behaves like `lua`.
mod common;
use common::big_stack;
use luamon::*;
use std::io::Write;
use std::process::{Command, Stdio};

fn assert_send_sync<T: Send + Sync>() {}

#[test]
fn chunk_is_send_sync() {
    assert_send_sync::<Chunk>();
    assert_send_sync::<LoadError>();
    assert_send_sync::<Options>();
}

const SEEDS: &[&str] = &[
    "local t = setmetatable({}, {__index = function(t, k) return k end}) print(t.x, #t, t[1] .. 'a')",
    "for i = 1, 10 do if i % 2 == 0 then goto c end print(i) ::c:: end",
    "local function f(...) return select('#', ...), ... end print(f(1, nil, 3)) print(pcall(error, {}))",
    "print(('abc'):gsub('%w', '%0%0'), string.format('%5.2f %d %s %q', 1.5, 3, 'x', 'y'), ('x'):rep(3, ','))",
    "local s = 0 local i = 1 while i < 10 do s = s + i i = i + 1 end repeat s = s - 1 until s < 40 print(s)",
    "local t = {1, 2, 3, x = {y = {z = 1}}} table.insert(t, 4) table.sort(t, function(a, b) return a > b end) print(table.concat(t, ','), t.x.y.z)",
    "print(1 // 0.0, 2^63, math.floor(3.5), tostring(nil) .. 1, 0x10 | 3 ~ 5 & 7 << 2 >> 1)",
    "for k, v in pairs({a = 1, 2, 3}) do print(k, v) end for w in ('a b c'):gmatch('%a') do print(w) end",
];

#[test]
fn mutated_sources_never_panic() {
    big_stack(|| {
        let mut x: u64 = 0x1234_5678_9abc_def1;
        let mut next = move || {
            x ^= x << 13;
            x ^= x >> 7;
            x ^= x << 17;
            x
        };
        let alphabet: &[u8] = b" \n()[]{}=<>~+-*/%^#.,;:'\"\\0123456789abcxyz_ifendolocalfunctionreturngoto::nil";
        let opts = Options { max_steps: 20_000, monitor_v: true, strict_arith: true, ..Default::default() };
        let mut loaded = 0;
        for round in 0..6000 {
            let seed = SEEDS[(next() % SEEDS.len() as u64) as usize];
            let mut b = seed.as_bytes().to_vec();
            let nmut = 1 + next() % 4;
            for _ in 0..nmut {
                let pos = (next() % b.len() as u64) as usize;
                match next() % 4 {
                    0 => b[pos] = alphabet[(next() % alphabet.len() as u64) as usize],
                    1 => {
                        b.remove(pos);
                    }
                    2 => b.insert(pos, alphabet[(next() % alphabet.len() as u64) as usize]),
                    _ => b.truncate(pos.max(1)),
                }
                if b.is_empty() {
                    b.push(b'x');
                }
            }
            let src = String::from_utf8_lossy(&b).to_string();
            match load(&src) {
                Ok(c) => {
                    loaded += 1;
                    let r = run(&c, &opts);
                    if let Outcome::Error(e) = &r.outcome {
                        assert!(!e.msg.contains("luamon internal error"), "round {} src {:?}", round, src);
                    }
                }
                Err(e) => assert!(!e.msg.contains("luamon internal error"), "round {} src {:?}", round, src),
            }
        }
        assert!(loaded > 500, "only {} mutants loaded", loaded);
    });
}

#[test]
fn native_stack_use_is_modest() {
    big_stack(|| {
        // find how much native stack depth 5900 needs by shrinking the guard until it trips
        let c = load("local function f(n) if n == 0 then return 0 end local x = 1 + f(n - 1) return x end print(f(5900))").unwrap();
        let mut need = 0usize;
        for mb in [4usize, 8, 16, 32, 64, 128, 256] {
            let o = Options { max_native_stack_bytes: mb << 20, ..Default::default() };
            if run(&c, &o).outcome == Outcome::Ok {
                need = mb;
                break;
            }
        }
        eprintln!("STACK depth-5900 recursion fits in {} MB of native stack", need);
        assert!(need > 0 && need <= 128);
    });
}

fn run_bin(args: &[&str], stdin: &str, dir: &std::path::Path, envs: &[(&str, &str)]) -> (String, String, i32) {
    let mut cmd = Command::new(env!("CARGO_BIN_EXE_lua"));
    cmd.args(args).current_dir(dir).stdin(Stdio::piped()).stdout(Stdio::piped()).stderr(Stdio::piped());
    for (k, v) in envs {
        cmd.env(k, v);
    }
    let mut child = cmd.spawn().expect("spawn lua");
    child.stdin.take().unwrap().write_all(stdin.as_bytes()).unwrap();
    let out = child.wait_with_output().unwrap();
    (String::from_utf8_lossy(&out.stdout).to_string(), String::from_utf8_lossy(&out.stderr).to_string(), out.status.code().unwrap_or(-1))
}

#[test]
fn bin_lua() {
    let dir = std::env::temp_dir().join(format!("luamon_bin_test_{}", std::process::id()));
    std::fs::create_dir_all(&dir).unwrap();
    let (o, e, c) = run_bin(&[], "print('hi', 1 + 1)\nio.write('x')\n", &dir, &[]);
    assert_eq!((o.as_str(), e.as_str(), c), ("hi\t2\nx\n", "", 0));
    let (o, e, c) = run_bin(&["-"], "print(1)\nerror('boom')\n", &dir, &[]);
    assert_eq!(o, "1\n");
    assert_eq!(e, "lua: stdin:2: boom\nstack traceback:\n\t[C]: in ?\n");
    assert_eq!(c, 1);
    let (_, e, c) = run_bin(&[], "x = = 1\n", &dir, &[]);
    assert_eq!(e, "lua: stdin:1: unexpected symbol near '='\n");
    assert_eq!(c, 1);
    let (_, e, c) = run_bin(&[], "assert(false, 'Assert failed!')\n", &dir, &[]);
    assert!(e.starts_with("lua: Assert failed!\nstack traceback:"), "{}", e);
    assert_eq!(c, 1);
    let (_, e, c) = run_bin(&[], "while true do end\n", &dir, &[]);
    assert_eq!(e, "luamon: budget exceeded (steps)\n");
    assert_eq!(c, 124);
    // modules from ./NAME.lua and the require log
    std::fs::write(dir.join("helper.lua"), "return { v = 7 }\n").unwrap();
    std::fs::write(dir.join("main.lua"), "local h = require 'helper'\nprint(h.v)\n").unwrap();
    let log = dir.join("req.log");
    let (o, e, c) = run_bin(&["main.lua"], "", &dir, &[("LUAMON_REQUIRE_LOG", log.to_str().unwrap())]);
    assert_eq!((o.as_str(), e.as_str(), c), ("7\n", "", 0));
    assert_eq!(std::fs::read_to_string(&log).unwrap(), "require helper line=1 found=true\n");
    let (_, e, c) = run_bin(&[], "require 'missing'\n", &dir, &[("LUAMON_REQUIRE_LOG", log.to_str().unwrap())]);
    assert!(e.starts_with("lua: stdin:1: module 'missing' not found:"), "{}", e);
    assert_eq!(c, 1);
    assert!(std::fs::read_to_string(&log).unwrap().ends_with("require missing line=1 found=false\n"));
    let _ = std::fs::remove_dir_all(&dir);
}

#[test]
fn extreme_arguments_do_not_break() {
    big_stack(|| {
        let progs = [
            "local mx, mn = math.maxinteger, math.mininteger print(('abc'):sub(mn, mx), ('abc'):sub(mx, mn), ('abc'):byte(mn, mx), ('abc'):sub(-mx))",
            "print(pcall(string.rep, 'x', math.maxinteger)) print(pcall(string.rep, 'x', math.mininteger))",
            "print(pcall(table.concat, {}, '', 1, math.maxinteger)) print(pcall(table.concat, {}, '', math.mininteger, math.maxinteger))",
            "print(pcall(select, math.mininteger, 1)) print(pcall(select, math.maxinteger, 1))",
            "print(pcall(table.insert, {}, math.maxinteger, 1)) print(pcall(table.insert, {}, math.mininteger, 1)) print(pcall(table.remove, {}, math.mininteger))",
            "print(pcall(unpack, {}, math.mininteger, math.maxinteger)) print(pcall(unpack, {}, math.maxinteger - 1, math.maxinteger))",
            "print(pcall(math.random, math.mininteger, math.maxinteger)) print(pcall(math.random, math.maxinteger)) print(math.abs(math.mininteger), math.fmod(math.mininteger, -1))",
            "print(tonumber('99999999999999999999999', 10), tonumber('zzzzzzzzzzzzzzzzzzzz', 36), tonumber('1e99999'), tonumber('0x' .. ('f'):rep(100)), tonumber('0x1p99999'), tonumber('0x1p-99999'))",
            "print(math.mininteger // -1, math.mininteger % -1, math.mininteger * -1, -math.mininteger, math.maxinteger + 1, 1 << 63, 1 << 64, 1 >> math.mininteger, 1 << math.maxinteger)",
            "print(string.format('%99d|%.99f|%-99s|', 1, 0.5, 'x'):len(), pcall(string.format, '%100d', 1))",
            "print(pcall(string.char, -1), pcall(string.char, math.maxinteger), ('x'):find('x', math.mininteger), ('x'):find('x', math.maxinteger))",
            "for i = math.maxinteger - 1, math.maxinteger do if i < 0 then break end end for i = math.mininteger, math.mininteger + 1, -1 do end for i = 1, 0, math.mininteger do end print('loops ok')",
            "local t = {} t[math.maxinteger] = 1 t[math.mininteger] = 2 t[2^63] = 3 t[-2^63] = 4 print(t[math.maxinteger], t[math.mininteger], t[2^63], #t, next(t) ~= nil)",
            "print(math.floor(-2^63), math.ceil(2^63), math.tointeger(-2^63), math.tointeger(2^63), 2^63 // 1, math.ult(math.mininteger, math.maxinteger))",
            "print(('x'):rep(3, ('y'):rep(3)), #('ab'):rep(1000, ','), pcall(string.rep, 'abc', 1 << 40))",
            "print(#tostring(1e308 * 10), #tostring(-(0/0)), string.format('%d', -0.0), string.format('%5.1s|', ''), 7 // -1, -7 // 1, 0 % -5, 0.0 % -5)",
            "local s = ('a'):rep(300) print(pcall(string.find, s, ('a*'):rep(50) .. 'b')) print(pcall(string.match, s, ('(a)'):rep(40)))",
        ];
        let opts = Options { max_steps: 3_000_000, max_alloc_bytes: 64 << 20, ..Default::default() };
        for p in progs {
            let c = load(p).unwrap_or_else(|e| panic!("{} -> {:?}", p, e));
            let r = run(&c, &opts);
            match &r.outcome {
                Outcome::Error(e) => assert!(!e.msg.contains("internal error"), "{}\n{:?}", p, e),
                Outcome::Budget("steps") if p.contains("('a*')") => {}
                Outcome::Budget("memory") if p.contains("string.rep") => {}
                Outcome::Ok => {}
                o => panic!("{} -> {:?}", p, o),
            }
        }
    });
}
