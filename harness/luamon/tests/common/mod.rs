//! Shared helper for the table-driven conformance tests.
//! Expectation syntax:  "P:line1\nline2"  exact print lines (run must end Ok)
//!                      "E:substr"        run ends with an error whose message contains substr
//!                      "E=msg"           run ends with an error whose message equals msg exactly
//!                      "L:Class"         load fails; Class is Syntax | ReturnNotLast | BreakOutsideLoop | Goto | Limit:what | GreyZone:what
//!                      "B:what"          run ends with Budget(what)
#![allow(dead_code)]
use luamon::*;

pub fn big_stack<F: FnOnce() + Send + 'static>(f: F) {
    let h = std::thread::Builder::new().stack_size(512 << 20).spawn(f).expect("spawn");
    if let Err(e) = h.join() {
        std::panic::resume_unwind(e);
    }
}

pub fn class_name(c: &LoadClass) -> String {
    match c {
        LoadClass::Syntax => "Syntax".into(),
        LoadClass::ReturnNotLast => "ReturnNotLast".into(),
        LoadClass::BreakOutsideLoop => "BreakOutsideLoop".into(),
        LoadClass::Goto => "Goto".into(),
        LoadClass::Limit { what, .. } => format!("Limit:{}", what),
        LoadClass::GreyZone { what, .. } => format!("GreyZone:{}", what),
    }
}

pub fn check_one(src: &str, expect: &str, opts: &Options) -> Result<(), String> {
    let (kind, want) = expect.split_at(2);
    let chunk = match load(src) {
        Ok(c) => c,
        Err(e) => {
            if kind == "L:" {
                let got = class_name(&e.class);
                let (wc, wm) = match want.split_once('|') {
                    Some((a, b)) => (a, Some(b)),
                    None => (want, None),
                };
                if got != wc {
                    return Err(format!("load class {} (msg {:?}), wanted {}", got, e.msg, wc));
                }
                if let Some(m) = wm {
                    if !e.msg.contains(m) {
                        return Err(format!("load msg {:?} lacks {:?}", e.msg, m));
                    }
                }
                return Ok(());
            }
            return Err(format!("unexpected load error line {}: {} ({:?})", e.line, e.msg, e.class));
        }
    };
    if kind == "L:" {
        return Err(format!("loaded fine, wanted load error {}", want));
    }
    let r = run(&chunk, opts);
    match (kind, &r.outcome) {
        ("P:", Outcome::Ok) => {
            let got = r.prints.join("\n");
            if got == want {
                Ok(())
            } else {
                Err(format!("prints differ\n   got: {:?}\n  want: {:?}", got, want))
            }
        }
        ("E:", Outcome::Error(e)) => {
            if e.msg.contains(want) {
                Ok(())
            } else {
                Err(format!("error msg {:?} lacks {:?}", e.msg, want))
            }
        }
        ("E=", Outcome::Error(e)) => {
            if e.msg == want {
                Ok(())
            } else {
                Err(format!("error msg {:?} != {:?}", e.msg, want))
            }
        }
        ("B:", Outcome::Budget(w)) if *w == want => Ok(()),
        (_, o) => Err(format!("outcome {:?} (prints {:?}), wanted {}", o, r.prints, expect)),
    }
}

pub fn run_cases(cases: &'static [(&'static str, &'static str)]) {
    big_stack(move || {
        let opts = Options::default();
        let mut fails = Vec::new();
        for (i, (src, expect)) in cases.iter().enumerate() {
            if let Err(m) = check_one(src, expect, &opts) {
                fails.push(format!("case #{} {:?}\n   {}", i, src, m));
            }
        }
        if !fails.is_empty() {
            panic!("{} of {} cases failed:\n{}", fails.len(), cases.len(), fails.join("\n"));
        }
    });
}
