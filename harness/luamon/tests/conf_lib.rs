//! Conformance: table / string / math library functions and Lua patterns.
mod common;
use common::run_cases;

const TABLE: &[(&str, &str)] = &[
    ("local t = {1, 2, 3} table.insert(t, 4) table.insert(t, 1, 0) print(table.concat(t, ','), #t)", "P:0,1,2,3,4\t5"),
    ("local t = {1, 2, 3} table.insert(t, 4, 'x') table.insert(t, 2, 'y') print(table.concat(t, ','))", "P:1,y,2,3,x"),
    ("local t = {1, 2, 3} table.insert(t, 5, 'x')", "E=stdin:1: bad argument #2 to 'insert' (position out of bounds)"),
    ("local t = {1, 2, 3} table.insert(t, 0, 'x')", "E=stdin:1: bad argument #2 to 'insert' (position out of bounds)"),
    ("local t = {} table.insert(t, 1, 2, 3)", "E=stdin:1: wrong number of arguments to 'insert'"),
    ("local t = {} table.insert(t)", "E=stdin:1: wrong number of arguments to 'insert'"),
    ("table.insert(nil, 1)", "E=stdin:1: bad argument #1 to 'insert' (table expected, got nil)"),
    ("local push = table.insert local l = {} push(l, 3, 'v')", "E=stdin:1: bad argument #2 to 'push' (position out of bounds)"),
    ("list_push = table.insert local l = {} list_push(l, 'a') list_push(l, 1, 'b') print(l[1], l[2]) list_push(l, 9, 'c')", "E=stdin:1: bad argument #2 to 'list_push' (position out of bounds)"),
    ("local t = {1, 2, 3} print(table.remove(t), table.remove(t, 1), #t, t[1])", "P:3\t1\t1\t2"),
    ("local t = {} print(table.remove(t), #t, table.remove(t, 0), table.remove({1}, 2))", "P:nil\t0\tnil\tnil"),
    ("local t = {1, 2, 3} table.remove(t, 5)", "E:position out of bounds"),
    ("local t = {1, 2, 3} table.remove(t, -1)", "E:position out of bounds"),
    ("local t = {'a', 'b', 'c', 'd'} table.remove(t, 2) print(table.concat(t), #t) t[#t] = nil print(#t, t[3])", "P:acd\t3\n2\tnil"),
    ("print(table.concat({1, 2, 3}), table.concat({'a', 'b'}, ', '), table.concat({}, 'x') == '', table.concat({1, 2, 3}, '-', 2, 3), table.concat({1.5, 2}, ' '))", "P:123\ta, b\ttrue\t2-3\t1.5 2"),
    ("print(table.concat({1, {}, 3}))", "E=stdin:1: invalid value (at index 2) in table for 'concat'"),
    ("print(table.concat({1, 2}, ',', 1, 3))", "E=stdin:1: invalid value (at index 3) in table for 'concat'"),
    ("local t = {3, 1, 2} table.sort(t) print(table.concat(t, ',')) table.sort(t, function(a, b) return a > b end) print(table.concat(t, ','))", "P:1,2,3\n3,2,1"),
    ("local t = {'pear', 'apple', 'fig'} table.sort(t) print(table.concat(t, ' ')) local u = {5, 2, 8, 1, 9, 3, 7, 4, 6, 0} table.sort(u) print(table.concat(u))", "P:apple fig pear\n0123456789"),
    ("local t = {3, 'a', 1} table.sort(t)", "E:attempt to compare"),
    ("local t = {{k = 2}, {k = 1}, {k = 3}} table.sort(t, function(a, b) return a.k < b.k end) print(t[1].k, t[2].k, t[3].k)", "P:1\t2\t3"),
    ("table.sort({1, 2}, 5)", "E=stdin:1: bad argument #2 to 'sort' (function expected, got number)"),
    ("local t = setmetatable({}, {__newindex = function() error('immutable', 0) end}) table.insert(t, 1)", "E=immutable"),
    ("local t = table.pack() print(t.n, #t) print(table.unpack({1, nil, 3}, 1, 3))", "P:0\t0\n1\tnil\t3"),
    ("print(rawequal('a', 'a'), rawequal({}, {}), rawlen({1, 2}), rawlen('abc'), rawget({5}, 1), rawset({}, 'k', 1).k)", "P:true\tfalse\t2\t3\t5\t1"),
    ("print(rawlen(5))", "E=stdin:1: bad argument #1 to 'rawlen' (table or string expected)"),
];

const STRING: &[(&str, &str)] = &[
    ("local s = 'hello' print(s:sub(2, 3), s:sub(-3), s:sub(2), s:sub(0), s:sub(10) == '', s:sub(2, -2), s:sub(-100, 2), s:sub(3, 2) == '')", "P:el\tllo\tello\thello\ttrue\tell\the\ttrue"),
    ("print(('A'):byte(), ('abc'):byte(1, -1)) print(('abc'):byte(10)) print(string.byte(''))", "P:65\t97\t98\t99\n\n"),
    ("print(string.char(72, 105), string.char() == '', #string.char(0, 255))", "P:Hi\ttrue\t2"),
    ("print(string.char(256))", "E=stdin:1: bad argument #1 to 'char' (value out of range)"),
    ("print(('ab'):rep(3, ','), ('ab'):rep(0) == '', ('ab'):rep(-1) == '', ('x'):rep(1), ('ab'):reverse(), ('MiXed'):lower(), ('MiXed'):upper(), #'a\\0b')", "P:ab,ab,ab\ttrue\ttrue\tx\tba\tmixed\tMIXED\t3"),
    ("print(string.len('abc'), ('x'):len(), #'', string.len(123))", "P:3\t1\t0\t3"),
    ("print(string.len())", "E=stdin:1: bad argument #1 to 'len' (string expected, got no value)"),
    ("print(string.rep('x', 1e10))", "B:memory"),
    ("print(('hello world'):find('wor'), ('hello world'):find('o', 6), ('hello'):find('xyz'), ('hello'):find('l+'))", "P:7\t8\tnil\t3\t4"),
    ("print(('hello'):find('(l)(l)')) print(('a.b'):find('.', 1, true)) print(('hello'):find('.', 1, true))", "P:3\t4\tl\tl\n2\t2\nnil"),
    ("print(('abc'):find('b', -1), ('abc'):find('', 10), ('abc'):find('', 4)) print(('abc'):find('^b'), ('abc'):find('^a')) print(('abc'):find('c$'))", "P:nil\tnil\t4\t3\nnil\t1\t1\n3\t3"),
    ("print(('key=val'):match('(%w+)=(%w+)')) print(('  trim  '):match('^%s*(.-)%s*$') .. '|') print(('abc123'):match('%d+'), ('abc'):match('()b()'))", "P:key\tval\ntrim|\n123\t2\t3"),
    ("print(('hello'):match('.-l'), ('x'):match('y'), ('2024-01-02'):match('(%d+)-(%d+)-(%d+)'))", "P:hel\tnil\t2024\t01\t02"),
    ("print(('[tag]'):match('%[(.-)%]'), ('aaa'):match('a-') == '', ('aaa'):match('a*'), ('abc'):match('[a-b]+'), ('abc'):match('[^a]+'), ('a.b'):match('%.'))", "P:tag\ttrue\taaa\tab\tbc\t."),
    ("print(('foo(bar(baz))x'):match('%b()'), ('THE (quick) fox'):find('%((%a+)%)'))", "P:(bar(baz))\t5\t11\tquick"),
    ("print(('hello world'):match('%f[%w]%w+', 2), ('abab'):match('(ab)%1'), ('x=1'):match('^(%w+)=(%d)$'))", "P:world\tab\tx\t1"),
    ("print(('a1B2'):match('%l%d%u%d'), ('a b'):match('%S+'), (' \\t\\nx'):match('%s+()'), ('0x1F'):match('%x+', 3), ('a,b'):match('%p'), ('ab]'):match('[]]'), ('a-b'):match('[a%-]+'))", "P:a1B2\ta\t4\t1F\t,\t]\ta-"),
    ("print(('abc'):match('%'))", "E:malformed pattern (ends with '%')"),
    ("print(('abc'):match('[a'))", "E:malformed pattern (missing ']')"),
    ("print(('abc'):match('(a'))", "E:unfinished capture"),
    ("print(('abc'):match('a)'))", "E:invalid pattern capture"),
    ("print(('abc'):match('%1'))", "E:invalid capture index %1"),
    ("for w in ('one two  three'):gmatch('%a+') do io.write(w, '.') end print()", "P:one.two.three."),
    ("for k, v in ('a=1, b=2'):gmatch('(%w+)=(%w+)') do io.write(k, v, ';') end print()", "P:a1;b2;"),
    ("local n = 0 for x in ('abc'):gmatch('') do n = n + 1 end print(n)", "P:4"),
    ("local r = {} for x in ('a,b,,c'):gmatch('([^,]*)') do r[#r + 1] = '<' .. x .. '>' end print(table.concat(r))", "P:<a><b><><c>"),
    ("for str in string.gmatch('  ab  cd e ', '([^%s]+)') do io.write('[', str, ']') end print()", "P:[ab][cd][e]"),
    ("for a, b in ('k1=v1;k2=v2'):gmatch('(%w+)=(%w+)') do io.write(a, '->', b, ' ') end print()", "P:k1->v1 k2->v2 "),
    ("print(('hello'):gsub('l', 'L')) print(('hello'):gsub('l', 'L', 1)) print(('abc'):gsub('%w', '%0%0')) print(('hello world'):gsub('(%w+) (%w+)', '%2 %1'))", "P:heLLo\t2\nheLlo\t1\naabbcc\t3\nworld hello\t1"),
    ("print(('abc'):gsub('', '-')) print(('abc'):gsub('b', {b = 'X'})) print(('abc'):gsub('%w', function(c) if c == 'b' then return nil end return c:upper() end))", "P:-a-b-c-\t4\naXc\t1\nAbC\t3"),
    ("print(('abc'):gsub('x*', '-')) print(('aaa'):gsub('^a', 'b')) print(('abc'):gsub('b', 5)) print(('x'):gsub('x', '%1'))", "P:-a-b-c-\t4\nbaa\t1\na5c\t1\nx\t1"),
    ("print(('x'):gsub('x', '%'))", "E:invalid use of '%' in replacement string"),
    ("print(('x'):gsub('x', '%2'))", "E:invalid capture index %2"),
    ("print(string.gsub('abc', 'b', true))", "E=stdin:1: bad argument #3 to 'gsub' (string/function/table expected)"),
    ("print(('abc'):gsub('b', function() return {} end))", "E:invalid replacement value (a table)"),
    ("print(('hello world'):gsub('o', '0', 0), ('a b c'):gsub(' ', '_'), ('%d'):gsub('%%d', 'x'))", "P:hello world\ta_b_c\tx\t1"),
    ("print(('abc'):upper():lower():len(), ('%5.1f'):format(3.14159), ('a'):byte() + 1, ('10') + 1)", "P:3\t  3.1\t98\t11"),
    ("print(#string.format('%s', ('x'):rep(200)), tostring(12):rep(2), (5 .. ''):len())", "P:200\t1212\t1"),
];

const MATH: &[(&str, &str)] = &[
    ("print(math.floor(3.7), math.floor(-3.7), math.ceil(3.2), math.ceil(-3.2), math.floor(5), math.floor(1e100), math.floor(-0.0))", "P:3\t-4\t4\t-3\t5\t1e+100\t0"),
    ("print(math.abs(-3), math.abs(-3.5), math.abs(math.mininteger), math.abs(3))", "P:3\t3.5\t-9223372036854775808\t3"),
    ("print(math.max(1, 2.5), math.max(2, 1), math.min(1, 1.0), math.max(1.0, 1), math.min(3, 2, 1), math.max(-1, -1.5))", "P:2.5\t2\t1\t1.0\t1\t-1"),
    ("print(math.max())", "E=stdin:1: bad argument #1 to 'max' (number expected, got no value)"),
    ("print(math.sqrt(16), math.pow(2, 10), math.fmod(7, 3), math.fmod(-7, 3), math.fmod(7, 3.0), math.fmod(-6, 2))", "P:4.0\t1024.0\t1\t-1\t1.0\t0"),
    ("print(math.fmod(1, 0))", "E=stdin:1: bad argument #2 to 'fmod' (zero)"),
    ("print(math.modf(3.7)) print(math.modf(-3.7)) print(math.modf(5)) print(math.modf(math.huge)) print(math.modf(-0.5))", "P:3.0\t0.7\n-3.0\t-0.7\n5\t0.0\ninf\t0.0\n-0.0\t-0.5"),
    ("print(math.tointeger(3.0), math.tointeger(3.5), math.tointeger('8'), math.tointeger(2^53), math.tointeger({}))", "P:3\tnil\t8\t9007199254740992\tnil"),
    ("print(math.ult(1, -1), math.ult(-1, 1), math.atan2(1, 1) == math.pi / 4, math.atan(1, 1) == math.atan(1), math.atan(0, -1) == math.pi)", "P:true\tfalse\ttrue\ttrue\ttrue"),
    ("print(math.log(8, 2), math.log(100, 10), math.exp(0), math.log(1), math.sin(0), math.cos(0), math.log10(1000), math.ldexp(1, 4))", "P:3.0\t2.0\t1.0\t0.0\t0.0\t1.0\t3.0\t16.0"),
    ("print(math.random(1, 1), math.random(7, 7)) local r = math.random(5) print(r >= 1 and r <= 5, math.type(r)) local f = math.random() print(f >= 0 and f < 1, math.type(f))", "P:1\t7\ntrue\tinteger\ntrue\tfloat"),
    ("print(math.random(0))", "E=stdin:1: bad argument #1 to 'random' (interval is empty)"),
    ("print(math.random(2, 1))", "E=stdin:1: bad argument #2 to 'random' (interval is empty)"),
    ("math.randomseed(42) local a = math.random(100) math.randomseed(42) print(a == math.random(100))", "P:true"),
    ("print(math.maxinteger, math.mininteger, math.maxinteger // 1 | 0 == math.maxinteger, math.huge > math.maxinteger, -math.huge < math.mininteger)", "P:9223372036854775807\t-9223372036854775808\ttrue\ttrue\ttrue"),
    ("print(math.floor(2^62) == 2^62, math.type(math.floor(2^62)), math.type(math.floor(2^63)), math.ceil(-2^63) == math.mininteger)", "P:true\tinteger\tfloat\ttrue"),
    ("print(math.frexp(8), math.deg(math.pi), math.rad(180) == math.pi, math.cosh(0), math.sinh(0), math.tanh(0))", "P:0.5\t180.0\ttrue\t1.0\t0.0\t0.0"),
    ("print(os.time(), os.clock(), _VERSION, type(os.getenv('HOME')))", "P:0\t0.0\tLua 5.3\tnil"),
    ("io.write('a', 1, 2.5, '\\n') io.write('b') print('c') io.write('x\\ny\\n')", "P:a12.5\nbc\nx\ny"),
    ("io.write('no newline')", "P:no newline"),
    ("print(collectgarbage('count') >= 0)", "P:true"),
];

#[test]
fn table_cases() {
    run_cases(TABLE);
}

#[test]
fn string_cases() {
    run_cases(STRING);
}

#[test]
fn math_cases() {
    run_cases(MATH);
}
