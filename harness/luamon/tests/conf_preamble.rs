//! Runs the real Sylt preamble followed by emitted-style code exercising every preamble function;
//! expectations worked out by hand from the Lua 5.3 semantics. Also measures load+run time.
mod common;
use common::big_stack;
use luamon::*;

const PROGRAM: &[(&str, &str)] = &[
    ("local V1 = __LIST{ 1, 2, 3 }\nprint(V1)", "[1, 2, 3]"),
    ("print(__INDEX(V1, 0), __INDEX(V1, 2))", "1\t3"),
    ("__ASSIGN_INDEX(V1, 1, 20)\nprint(V1, #V1)", "[1, 20, 3]\t3"),
    ("local V2 = __TUPLE{ 1, \"a\", 2.5 }\nprint(V2, __INDEX(V2, 1))", "(1, a, 2.5)\ta"),
    ("print(__TUPLE{ 7 })", "(7,)"),
    ("print(__TUPLE{ 1, 2 } + __TUPLE{ 10, 20 })", "(11, 22)"),
    ("print(__TUPLE{ 1, 2 } - __TUPLE{ 10, 20 }, __TUPLE{ 2, 3 } * __TUPLE{ 4, 5 }, -__TUPLE{ 1, -2 })", "(-9, -18)\t(8, 15)\t(-1, 2)"),
    ("print(__TUPLE{ 1, 2 } / __TUPLE{ 2, 4 }, __TUPLE{ 1, 2 } / 2)", "(0.5, 0.5)\t(0.5, 1.0)"),
    ("print(__TUPLE{ 1, 2 } == __TUPLE{ 1, 2 }, __TUPLE{ 1, 2 } == __TUPLE{ 1, 3 }, __TUPLE{ 1, 2 } < __TUPLE{ 1, 3 }, __TUPLE{ 1, 2 } <= __TUPLE{ 1, 2 }, __TUPLE{ 2, 0 } < __TUPLE{ 1, 9 })", "true\tfalse\ttrue\ttrue\tfalse"),
    ("print(__LIST{1,2} == __LIST{1,2}, __LIST{1,2} == __LIST{1,2,3}, __LIST{1,2} < __LIST{2,3}, __LIST{1,2} <= __LIST{1,2})", "true\tfalse\ttrue\ttrue"),
    ("print(__LIST{ __LIST{1}, __TUPLE{2, \"x\"} })", "[[1], (2, x)]"),
    ("local V3 = __BLOB{ x = 1 }\nprint(V3.x, V3, __INDEX(V3, \"x\"))", "1\tblob {.x = 1}\t1"),
    ("V3.x = 5\nprint(V3.x, V3 == __BLOB{ x = 5 }, V3 == __BLOB{ x = 6 }, V3 == __BLOB{ x = 5, y = 1 })", "5\ttrue\tfalse\tfalse"),
    ("local V4 = __VARIANT{ \"Just\", 3 }\nprint(V4, V4 == __VARIANT{ \"Just\", 3 }, V4 == __VARIANT{ \"None\", nil }, __VARIANT{ \"None\", nil })", "Just 3\ttrue\tfalse\tNone nil"),
    ("print(__NIL, __INDEX(nil, 1), __INDEX({a = 1}, \"b\"), __INDEX(setmetatable({}, {_type = \"dict\"}), \"k\"))", "nil\tnil\tnil\tnil"),
    ("print(__ADD(\"a\", \"b\"), __ADD(1, 2), __ADD(1.5, 1), __IDENTITY(4))", "ab\t3\t2.5\t4"),
    ("print(pcall(__INDEX, V1, 5))", "false\tTuple/list index out of range \"5\""),
    ("print(pcall(__ASSIGN_INDEX, V2, 0, 1))", "false\tCannot assign to tuple!"),
    ("print(pcall(__INDEX, V3, \"nope\"))", "false\tAccessing fields \"nope\" - which doesn't exist"),
    ("print(pcall(__ASSIGN_INDEX, V3, \"nope\", 1))", "false\tAccessing fields \"nope\" - which doesn't exist"),
    ("print(pcall(function() V2[10] = 0 end))", "false\tTuples are immutable"),
    ("print(pcall(function() V4[3] = 0 end))", "false\tVariants are immutable"),
    ("__ASSIGN_INDEX(V3, \"x\", 9)\nlocal V13 = {}\n__ASSIGN_INDEX(V13, \"q\", 1)\nprint(V3.x, V13.q, __ASSIGN_INDEX(nil, 1, 1))", "9\t1\tnil"),
    ("print(atan2(1, 0) == math.atan2(0, 1), sin(0), cos(0))", "true\t0.0\t1.0"),
    ("local V5 = varargs(function(a, b) return a + b end)\nprint(V5({3, 4}))", "7"),
    ("local V6 = {}\nlist_for_each(__LIST{1, 2, 3}, function(v) V6[#V6 + 1] = v * 2 end)\nprint(table.concat(V6, \",\"))", "2,4,6"),
    ("print(list_map(__LIST{1, 2, 3}, function(v) return v + 1 end))", "[2, 3, 4]"),
    ("print(list_get(V1, 0), list_get(V1, 7))", "Just 1\tNone nil"),
    ("list_set(V1, 0, 100)\nlist_set(V1, 9, 1)\nprint(V1)", "[100, 20, 3]"),
    ("print(list_fold(__LIST{1, 2, 3}, 10, function(v, a) return a + v end))", "16"),
    ("print(list_filter(__LIST{1, 2, 3, 4}, function(v) return v % 2 == 0 end))", "[2, 4]"),
    ("local V7 = __LIST{}\nlist_push(V7, \"a\")\nlist_push(V7, \"b\")\nlist_prepend(V7, \"z\")\nprint(V7, #V7)", "[z, a, b]\t3"),
    ("print(list_find(V7, function(x) return x == \"a\" end), list_find(V7, function(x) return x == \"q\" end))", "Just a\tNone nil"),
    ("print(xx_len(V7), xx_len({a = 1, b = 2}))", "3\t2"),
    ("print(list_pop(V7), V7)", "Just b\t[z, a]"),
    ("clear(V7)\nprint(V7, #V7)", "[]\t0"),
    ("print(list_random_choice(__LIST{5}))", "Just 5"),
    ("print(as_float(3), as_int(3.7), as_int(-3.7), as_int(5), floor(2.5), floor(-2.5))", "3\t3.0\t-3.0\t5\t2\t-3"),
    ("print(as_char(\"A\"), as_char(\"\"))", "Just 65\tNone nil"),
    ("print(as_chars(\"hi\"))", "[104, 105]"),
    ("print(split(\"  a bc  d \"))", "[a, bc, d]"),
    ("print(sqrt(9), div(7, 2), div(-7, 2), div(1, 0), sign(5), sign(-2.5), sign(0), rem(-7, 3), rem(7, -3), pow(2, 3))", "3.0\t3\t-4\t0\t1\t-1\t0\t2\t2\t8.0"),
    ("print(pcall(reflect))", "false\t!!CRASH!!: reflect is not implemented"),
    ("print(pcall(debug_assertions))\nprint(pcall(thread_sleep, 1))", "false\t!!CRASH!!: debug_assertions is not implemented\nfalse\t!!CRASH!!: thread_sleep is not implemented"),
    ("print(as_str(12), as_str(__LIST{1}), dbg(\"d\"))", "d\n12\t[1]\td"),
    ("print(unsafe_force(3), random(1, 1), randint(2, 2))", "3\t1\t2"),
    ("local V8 = dict_new()\ndict_update(V8, \"k\", 1)\ndict_update(V8, 2, \"two\")\nprint(V8)", "dict {k: 1, 2: two}"),
    ("print(dict_get(V8, \"k\"), dict_get(V8, 2), dict_get(V8, \"zz\"))", "Just 1\tJust two\tNone nil"),
    ("dict_remove(V8, \"k\")\nprint(V8)", "dict {2: two}"),
    ("print(dict_from_list(__LIST{ __TUPLE{\"a\", 1}, __TUPLE{\"b\", 2} }))", "dict {a: 1, b: 2}"),
    ("local V9 = {}\ndict_for_each(dict_from_list(__LIST{ __TUPLE{\"a\", 1} }), function(kv) V9[#V9 + 1] = tostring(kv) end)\nprint(V9[1])", "(a, 1)"),
    ("print(dict_map(dict_from_list(__LIST{ __TUPLE{\"a\", 1} }), function(kv) return __TUPLE{ kv[1] .. \"!\", kv[2] + 1 } end))", "dict {a!: 2}"),
    ("print(dict_from_list(__LIST{__TUPLE{1, 2}}) == dict_from_list(__LIST{__TUPLE{1, 2}}), dict_from_list(__LIST{__TUPLE{1, 2}}) == dict_from_list(__LIST{__TUPLE{1, 3}}))", "true\tfalse"),
    ("local V10 = set_from_list(__LIST{3, 1, 3})\nprint(V10, set_contains(V10, 1), set_contains(V10, 9))", "set {3, 1}\ttrue\tfalse"),
    ("set_add(V10, \"x\")\nset_remove(V10, 3)\nprint(V10)", "set {1, x}"),
    ("local V11 = {}\nset_for_each(V10, function(v) V11[#V11 + 1] = tostring(v) end)\nprint(table.concat(V11, \",\"))", "1,x"),
    ("print(set_map(V10, function(v) return tostring(v) .. \"!\" end))", "dict {nil: nil, nil: nil}"),
    ("print(set_from_list(__LIST{1, 2}) == set_from_list(__LIST{2, 1}), set_from_list(__LIST{1}) == set_from_list(__LIST{1, 2}))", "true\tfalse"),
    ("print(__DICT{ a = 1 }, __SET{ a = true }, __DICT{a = 1} == __DICT{a = 1}, __SET{a = true} == __SET{b = true})", "{a: 1}\t{a}\ttrue\tfalse"),
    ("local V12 = __LIST{}\nV12[1] = V12\nprint(V12)", "[[...]]"),
    ("local V14 = __BLOB{}\nV14.me = V14\nprint(V14)", "blob {.me = blob {...}}"),
    ("local V15 = __SET{}\nV15[V15] = true\nprint(V15)", "{{...}}"),
    ("local function V20(V21, V22)\n  local V23 = __ADD(V21, V22)\n  if (V23 < 10) then\n    return V20(V23, V22)\n  end\n  return V23\nend\nlocal V24 = V20(1, 4)\nprint(V24)", "13"),
    ("local V30 = 0\nlocal V31 = 0\nwhile true do\n  V30 = __ADD(V30, 1)\n  if (V30 > 5) then\n    break\n  end\n  if (V30 == 3) then\n    goto CONTINUE_1\n  end\n  V31 = __ADD(V31, V30)\n  ::CONTINUE_1::\nend\nprint(V31)", "12"),
    ("V43 = print\nV43(__TUPLE{ 1, __LIST{ 2.0 } })", "(1, [2.0])"),
    ("assert((1 == 1), \"Assert failed!\")\nprint(\"done\")", "done"),
];

fn program() -> (String, Vec<String>) {
    let pre = std::fs::read_to_string("/repo/sylt-compiler/src/preamble.lua").expect("preamble.lua readable");
    let mut src = pre;
    let mut want = Vec::new();
    for (code, out) in PROGRAM {
        src.push_str(code);
        src.push('\n');
        for l in out.split('\n') {
            want.push(l.to_string());
        }
    }
    (src, want)
}

#[test]
fn preamble_functions() {
    big_stack(|| {
        let (src, want) = program();
        let chunk = load(&src).unwrap_or_else(|e| panic!("load: {:?}", e));
        assert_eq!(chunk.census.marker_line, 629);
        let opts = Options { monitor_v: true, ..Default::default() };
        let r = run(&chunk, &opts);
        for (i, (g, w)) in r.prints.iter().zip(want.iter()).enumerate() {
            assert_eq!(g, w, "print line #{}", i);
        }
        assert_eq!(r.outcome, Outcome::Ok, "prints so far: {:?}", r.prints.last());
        assert_eq!(r.prints.len(), want.len());
        assert!(r.events.iter().all(|e| !matches!(e, Event::UninitRead { .. } | Event::Interference { .. })), "{:?}", r.events);
        // Sylt failure forms
        let pre = std::fs::read_to_string("/repo/sylt-compiler/src/preamble.lua").expect("preamble");
        let run_tail = |tail: &str| run(&load(&format!("{}{}", pre, tail)).expect("load"), &Options::default());
        match run_tail("local V1 = 1\nassert((V1 == 2), \"Assert failed!\")\n").outcome {
            Outcome::Error(e) => {
                assert_eq!(e.class, ErrClass::AssertFailed);
                assert_eq!(e.line, 631);
            }
            o => panic!("{:?}", o),
        }
        match run_tail("__CRASH(\"halt and catch fire\")()\n").outcome {
            Outcome::Error(e) => assert_eq!(e.class, ErrClass::Crash("halt and catch fire".into())),
            o => panic!("{:?}", o),
        }
        match run_tail("local V1 = __LIST{ 1 }\nlocal V2 = __INDEX(V1, 3)\n").outcome {
            Outcome::Error(e) => assert_eq!(e.class, ErrClass::PreambleAssert("Tuple/list index out of range \"3\"".into())),
            o => panic!("{:?}", o),
        }
        match run_tail("local V1 = __NIL\nlocal V2 = (V1 + 1)\n").outcome {
            Outcome::Error(e) => {
                assert_eq!(e.class, ErrClass::Arith("table".into()));
                assert_eq!(e.msg, "stdin:631: attempt to perform arithmetic on a table value (local 'V1')");
            }
            o => panic!("{:?}", o),
        }
        let r = run_tail("local V1 = __BLOB{ a = 1 }\nlocal V2 = V1.b\nprint(V2)\n");
        assert_eq!(r.prints, vec!["nil".to_string()]);
        assert_eq!(r.events, vec![Event::MissingField { line: 631, field: "b".into() }]);
    });
}

#[test]
fn performance() {
    big_stack(|| {
        let (src, _) = program();
        // a ~50 line emitted-style program
        let pre = std::fs::read_to_string("/repo/sylt-compiler/src/preamble.lua").expect("preamble");
        let mut small = pre.clone();
        for i in 0..12 {
            small.push_str(&format!("local V{a} = __ADD({i}, 1)\nlocal V{b} = __LIST{{ V{a}, 2 }}\nlocal V{c} = __INDEX(V{b}, 0)\nassert((V{c} == {r}), \"Assert failed!\")\n", a = 100 + i * 3, b = 101 + i * 3, c = 102 + i * 3, i = i, r = i + 1));
        }
        small.push_str("print(V102)\n");
        let opts = Options::default();
        let r = run(&load(&small).expect("load"), &opts);
        assert_eq!(r.outcome, Outcome::Ok);
        assert_eq!(r.prints, vec!["1".to_string()]);
        let n = 200;
        let mut per = f64::MAX;
        for _batch in 0..4 {
            // best of several batches: other tests run in parallel and add noise
            let t0 = std::time::Instant::now();
            for _ in 0..n {
                let c = load(&small).expect("load");
                let r = run(&c, &opts);
                assert!(matches!(r.outcome, Outcome::Ok));
            }
            per = per.min(t0.elapsed().as_secs_f64() * 1e3 / n as f64);
        }
        let c = load(&small).expect("load");
        let t1 = std::time::Instant::now();
        for _ in 0..n {
            let r = run(&c, &opts);
            assert!(matches!(r.outcome, Outcome::Ok));
        }
        let per_run = t1.elapsed().as_secs_f64() * 1e3 / n as f64;
        let t2 = std::time::Instant::now();
        for _ in 0..50 {
            let c = load(&src).expect("load");
            let _ = run(&c, &opts);
        }
        let per_big = t2.elapsed().as_secs_f64() * 1e3 / 50.0;
        eprintln!("PERF load+run preamble+50 lines: {:.3} ms; run only: {:.3} ms; full preamble exercise: {:.3} ms", per, per_run, per_big);
        if !cfg!(debug_assertions) {
            assert!(per < 1.5, "load+run took {:.3} ms", per);
        }
    });
}
