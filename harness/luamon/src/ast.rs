#![allow(dead_code)]
//! AST (already resolved: locals -> slots, upvalues -> indices, globals -> ids) and load-time API types.

pub type StrId = u32;

#[derive(Debug, Clone, Default, PartialEq)]
pub struct Census {
    pub marker_line: u32,
    pub max_locals_in_function: u32,
    pub max_nesting: u32,
    pub max_registers: u32,
    pub functions: u32,
    pub free_v_written_in_functions: Vec<String>,
    pub free_v_written_at_top: Vec<String>,
    pub free_v_read: Vec<String>,
    pub require_calls: Vec<(u32, String)>,
}

#[derive(Debug, Clone, PartialEq)]
pub struct LoadError {
    pub line: u32,
    pub msg: String,
    pub class: LoadClass,
}

#[derive(Debug, Clone, PartialEq)]
pub enum LoadClass {
    Syntax,
    ReturnNotLast,
    BreakOutsideLoop,
    Goto,
    Limit { what: &'static str, count: u32 },
    GreyZone { what: &'static str, count: u32 },
}

#[derive(Debug, Clone, Copy)]
pub struct LocalRef {
    pub slot: u16,
    /// V-name in the emitted region (monitors apply)
    pub mon: bool,
    pub name: StrId,
}

#[derive(Debug, Clone, Copy)]
pub struct UpRef {
    pub idx: u16,
    pub mon: bool,
    pub name: StrId,
}

#[derive(Debug, Clone, Copy)]
pub struct GlobalRef {
    pub gid: u32,
    pub mon: bool,
    pub name: StrId,
}

#[derive(Debug, Clone, Copy, PartialEq, Eq)]
pub enum BinOp {
    Add,
    Sub,
    Mul,
    Div,
    Mod,
    Pow,
    IDiv,
    BAnd,
    BOr,
    BXor,
    Shl,
    Shr,
    Concat,
    Eq,
    Ne,
    Lt,
    Le,
    Gt,
    Ge,
}

#[derive(Debug, Clone, Copy, PartialEq, Eq)]
pub enum UnOp {
    Neg,
    Not,
    Len,
    BNot,
}

#[derive(Debug)]
pub enum Expr {
    Nil,
    True,
    False,
    Int(i64),
    Num(f64),
    Str(StrId),
    Vararg,
    Local(LocalRef),
    Upval(UpRef),
    Global(GlobalRef),
    Index(Box<IndexE>),
    Call(Box<CallE>),
    Method(Box<MethodE>),
    Function(u32),
    Bin(Box<BinE>),
    And(Box<(Expr, Expr)>),
    Or(Box<(Expr, Expr)>),
    Un(Box<UnE>),
    Paren(Box<Expr>),
    Table(Box<TableE>),
}

#[derive(Debug)]
pub struct IndexE {
    pub obj: Expr,
    pub key: Expr,
    pub line: u32,
    /// written with dot syntax `a.name`
    pub dot: bool,
    /// lies in the emitted region (line > marker)
    pub emitted: bool,
}

#[derive(Debug)]
pub struct CallE {
    pub func: Expr,
    pub args: Vec<Expr>,
    pub line: u32,
}

#[derive(Debug)]
pub struct MethodE {
    pub obj: Expr,
    pub name: StrId,
    pub args: Vec<Expr>,
    pub line: u32,
}

#[derive(Debug)]
pub struct BinE {
    pub op: BinOp,
    pub l: Expr,
    pub r: Expr,
    pub line: u32,
}

#[derive(Debug)]
pub struct UnE {
    pub op: UnOp,
    pub e: Expr,
    pub line: u32,
}

#[derive(Debug)]
pub enum TItem {
    Pos(Expr),
    Named(StrId, Expr),
    Keyed(Expr, Expr),
}

#[derive(Debug)]
pub struct TableE {
    pub items: Vec<TItem>,
    pub npos: u32,
    pub line: u32,
}

#[derive(Debug, Clone, Copy)]
pub struct LocalDecl {
    pub slot: u16,
    pub mon: bool,
    pub name: StrId,
}

#[derive(Debug)]
pub enum Stmt {
    Local { decls: Vec<LocalDecl>, exprs: Vec<Expr>, line: u32, defined_nil: bool },
    Assign { targets: Vec<Expr>, exprs: Vec<Expr>, line: u32 },
    Call(Expr, u32),
    Do(Block),
    While { cond: Expr, body: Block, line: u32 },
    Repeat { body: Block, cond: Expr, line: u32 },
    If { arms: Vec<(Expr, Block)>, orelse: Option<Block>, line: u32 },
    NumFor { var: LocalDecl, start: Expr, limit: Expr, step: Option<Expr>, body: Block, line: u32 },
    GenFor { vars: Vec<LocalDecl>, base: u16, exprs: Vec<Expr>, body: Block, line: u32 },
    LocalFunction { decl: LocalDecl, proto: u32, line: u32 },
    Return { exprs: Vec<Expr>, line: u32 },
    Break(u32),
    Goto { label: StrId, line: u32 },
}

#[derive(Debug, Default)]
pub struct Block {
    pub stmts: Vec<Stmt>,
    /// (label name, index of the statement following the label)
    pub labels: Vec<(StrId, u32)>,
}

#[derive(Debug, Clone, Copy)]
pub struct UpDesc {
    pub from_parent_local: bool,
    pub idx: u16,
    pub name: StrId,
}

#[derive(Debug)]
pub struct Proto {
    pub nparams: u16,
    pub vararg: bool,
    pub nslots: u16,
    pub body: Block,
    pub upvals: Vec<UpDesc>,
    pub line: u32,
    /// defined on a line after the preamble marker
    pub emitted: bool,
    /// parameter slots that are V-names in the emitted region
    pub has_mon_params: bool,
}

/// Static classification of the first assignment to a global V-name (Interference origin).
#[derive(Debug, Clone, Copy, PartialEq, Eq)]
pub enum Origin {
    Plain,
    IndexTemp,
    ArmAssign,
}

impl Origin {
    pub fn as_str(self) -> &'static str {
        match self {
            Origin::Plain => "plain",
            Origin::IndexTemp => "index-temp",
            Origin::ArmAssign => "arm-assign",
        }
    }
}

/// Parsed + resolved chunk. Immutable; reusable across runs. Contains no Rc (it is Send + Sync).
#[derive(Debug)]
pub struct Chunk {
    pub census: Census,
    pub(crate) protos: Vec<Proto>,
    /// index (into protos) of the main function
    pub(crate) main: u32,
    pub(crate) strings: Vec<Box<[u8]>>,
    /// global name per gid (for gids >= gid_base)
    pub(crate) globals: Vec<String>,
    pub(crate) gid_base: u32,
    pub(crate) str_base: u32,
    pub(crate) proto_base: u32,
    /// origin classification per global gid (indexed gid - gid_base); None if never assigned statically
    pub(crate) origins: Vec<Option<Origin>>,
    pub(crate) uses_require: bool,
}

pub fn is_v_name(s: &[u8]) -> bool {
    s.len() >= 2 && s[0] == b'V' && s[1..].iter().all(|b| b.is_ascii_digit())
}
