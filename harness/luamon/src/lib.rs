//! luamon — instrumented Lua 5.3-subset interpreter (see SPEC.md).
mod analyze;
mod ast;
mod baselib;
mod errors;
mod eval;
mod exec;
mod interp;
mod lexer;
mod lpattern;
mod mathlib;
mod monitors;
mod numfmt;
mod ops;
mod parser;
mod parser_expr;
mod parser_stmt;
mod stdlib;
mod strlib;
mod tablib;
mod value;

pub use ast::{Census, Chunk, LoadClass, LoadError};
pub use errors::classify_error_message;
pub use numfmt::{tostring_number_f64, tostring_number_i64};

use parser::{GlobalTable, Parser, GREY_LEVELS, GREY_LOCALS, GREY_REGS};

#[derive(Clone, Debug)]
pub struct Options {
    pub max_steps: u64,
    pub max_depth: u32,
    pub strict_arith: bool,
    pub monitor_v: bool,
    pub modules: Vec<(String, String)>,
    pub capture_print_limit: usize,
    /// (addition) cumulative allocation budget in bytes ⇒ Outcome::Budget("memory")
    pub max_alloc_bytes: u64,
    /// (addition) guard on native stack use, measured from the entry of `run` ⇒ Outcome::Budget("depth")
    pub max_native_stack_bytes: usize,
    /// (addition) when true, `assert(false, "msg")` called from Lua code prefixes "stdin:LINE:" to string
    /// messages (what lbaselib.c's luaB_assert → luaB_error would do); default false as SPEC.md states.
    pub assert_adds_position: bool,
}

impl Default for Options {
    fn default() -> Self {
        Options {
            max_steps: 2_000_000,
            max_depth: 6000,
            strict_arith: false,
            monitor_v: false,
            modules: Vec::new(),
            capture_print_limit: 100_000,
            max_alloc_bytes: 512 << 20,
            max_native_stack_bytes: 200 << 20,
            assert_adds_position: false,
        }
    }
}

#[derive(Clone, Debug)]
pub struct RunResult {
    pub prints: Vec<String>,
    pub outcome: Outcome,
    pub events: Vec<Event>,
    pub counters: Counters,
    pub steps: u64,
}

#[derive(Clone, Debug, PartialEq)]
pub enum Outcome {
    Ok,
    Error(LuaError),
    Budget(&'static str),
}

#[derive(Clone, Debug, PartialEq)]
pub struct LuaError {
    pub msg: String,
    pub line: u32,
    pub class: ErrClass,
    pub traceback: Vec<u32>,
}

#[derive(Clone, Debug, PartialEq)]
pub enum ErrClass {
    AssertFailed,
    Crash(String),
    PreambleAssert(String),
    Arith(String),
    Call(String),
    Index(String),
    Concat(String),
    Compare(String, String),
    DivZero,
    StackOverflow,
    ErrorCall(String),
    Other(String),
}

#[derive(Clone, Debug, PartialEq)]
pub enum Event {
    Coercion { line: u32, op: &'static str, from: &'static str },
    MissingField { line: u32, field: String },
    UninitRead { line: u32, name: String, kind: &'static str },
    Interference { line: u32, name: String, writer_activation: u64, reader_activation: u64, origin: &'static str },
    Require { line: u32, name: String, found: bool },
}

#[derive(Clone, Debug, Default, PartialEq)]
pub struct Counters {
    pub calls: u64,
    pub arith_ops: u64,
    pub compares: u64,
    pub index_ops: u64,
    pub field_reads: u64,
    pub v_reads_checked: u64,
    pub free_v_reads: u64,
    pub free_v_writes: u64,
    pub live_across_call_reads: u64,
    pub max_depth: u32,
    pub closures_created: u64,
    pub closures_called_after_creator_returned: u64,
    pub coercions: u64,
    pub interference: u64,
    pub uninit_reads: u64,
    pub missing_fields: u64,
}

fn find_marker(src: &str) -> u32 {
    const MARK: &[u8] = b"-- End Sylt preamble";
    let b = src.as_bytes();
    let mut line = 1u32;
    let mut i = 0usize;
    let mut at_line_start = true;
    while i < b.len() {
        if at_line_start && b[i] == b'-' && b[i..].starts_with(MARK) {
            return line;
        }
        at_line_start = false;
        if b[i] == b'\n' {
            line += 1;
            at_line_start = true;
        }
        i += 1;
    }
    0
}

pub(crate) fn load_with(src: &str, globals: &mut GlobalTable, str_base: u32, proto_base: u32) -> Result<Chunk, LoadError> {
    let marker_line = find_marker(src);
    let gid_base = globals.names.len() as u32;
    let mut p = Parser::new(src, globals, str_base, proto_base, marker_line);
    let main = match p.parse_chunk() {
        Ok(m) => m,
        Err(e) => return Err(*e),
    };
    let (max_level, max_locals) = (p.max_level, p.max_locals);
    let protos_opt = std::mem::take(&mut p.protos);
    let strings = std::mem::take(&mut p.lx.interner.strings);
    drop(p);
    let nglobals = globals.names.len();
    let mut an = analyze::Analyzer::new(&protos_opt, &strings, str_base, proto_base, gid_base, nglobals);
    an.proto(main);
    let a = an.out;
    if a.max_regs > GREY_REGS.1 {
        return Err(LoadError { line: 0, msg: "function or expression needs too many registers".into(), class: LoadClass::Limit { what: "registers", count: a.max_regs } });
    }
    let grey = |what: &'static str, count: u32, msg: &str| Err(LoadError { line: 0, msg: format!("{} (grey zone: {} {})", msg, what, count), class: LoadClass::GreyZone { what, count } });
    if (GREY_LOCALS.0..=GREY_LOCALS.1).contains(&max_locals) {
        return grey("locals", max_locals, "too many local variables");
    }
    if (GREY_LEVELS.0..=GREY_LEVELS.1).contains(&max_level) {
        return grey("levels", max_level, "chunk has too many syntax levels");
    }
    if (GREY_REGS.0..=GREY_REGS.1).contains(&a.max_regs) {
        return grey("registers", a.max_regs, "function or expression needs too many registers");
    }
    let census = Census {
        marker_line,
        max_locals_in_function: max_locals,
        max_nesting: max_level,
        max_registers: a.max_regs,
        functions: a.functions,
        free_v_written_in_functions: a.written_in_functions.into_iter().collect(),
        free_v_written_at_top: a.written_at_top.into_iter().collect(),
        free_v_read: a.read.into_iter().collect(),
        require_calls: a.require_calls,
    };
    let mut protos = Vec::with_capacity(protos_opt.len());
    for p in protos_opt {
        match p {
            Some(p) => protos.push(p),
            None => return Err(LoadError { line: 0, msg: "internal loader error".into(), class: LoadClass::Syntax }),
        }
    }
    let uses_require = globals.map.contains_key(&b"require"[..]);
    Ok(Chunk {
        census,
        protos,
        main,
        strings,
        globals: globals.names[gid_base as usize..].to_vec(),
        gid_base,
        str_base,
        proto_base,
        origins: a.origins,
        uses_require,
    })
}

/// Parse and resolve a chunk. Never panics.
pub fn load(src: &str) -> Result<Chunk, LoadError> {
    let r = std::panic::catch_unwind(|| {
        let mut g = GlobalTable::default();
        load_with(src, &mut g, 0, 0)
    });
    match r {
        Ok(r) => r,
        Err(_) => Err(LoadError { line: 0, msg: "luamon internal error (panic in loader)".into(), class: LoadClass::Syntax }),
    }
}

/// Run a loaded chunk. Never panics; reusable.
pub fn run(chunk: &Chunk, opts: &Options) -> RunResult {
    interp::run_chunk(chunk, opts)
}
