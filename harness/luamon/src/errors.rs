//! Error plumbing: unwinding type, message construction (with variable info), classification.
use crate::ast::Expr;
use crate::interp::Interp;
use crate::value::Value;
use crate::ErrClass;

#[derive(Clone, Copy, Debug, PartialEq, Eq)]
pub enum ErrOrigin {
    Runtime,
    Assert,
    ErrorFn,
}

#[derive(Debug)]
pub enum Unwind {
    Error { value: Value, line: u32, origin: ErrOrigin, traceback: Vec<u32> },
    Budget(&'static str),
}

pub type R<T> = Result<T, Box<Unwind>>;

pub fn budget<T>(what: &'static str) -> R<T> {
    Err(Box::new(Unwind::Budget(what)))
}

/// Strip a leading "chunkname:LINE: " position prefix if present.
pub fn strip_position(msg: &str) -> &str {
    let b = msg.as_bytes();
    let mut i = 0;
    while i < b.len() && b[i] != b':' && b[i] != b' ' && b[i] != b'\n' {
        i += 1;
    }
    if i == 0 || i >= b.len() || b[i] != b':' {
        return msg;
    }
    let mut j = i + 1;
    let ds = j;
    while j < b.len() && b[j].is_ascii_digit() {
        j += 1;
    }
    if j == ds || j + 1 >= b.len() || b[j] != b':' || b[j + 1] != b' ' {
        return msg;
    }
    &msg[j + 2..]
}

fn type_word<'a>(rest: &'a str, end_marker: &str) -> Option<&'a str> {
    rest.find(end_marker).map(|p| &rest[..p])
}

/// Derive the error class from the final message text (position prefix ignored).
/// Messages that carry no recognisable Lua fault text yield `ErrClass::Other(msg)`;
/// the interpreter refines those into `PreambleAssert` / `ErrorCall` using the raise origin.
pub fn classify_error_message(msg: &str) -> ErrClass {
    let body = strip_position(msg);
    if body == "Assert failed!" {
        return ErrClass::AssertFailed;
    }
    if let Some(rest) = body.strip_prefix("!!CRASH!!: ") {
        return ErrClass::Crash(rest.to_string());
    }
    if let Some(rest) = body.strip_prefix("attempt to perform arithmetic on a ") {
        if let Some(t) = type_word(rest, " value") {
            return ErrClass::Arith(t.to_string());
        }
    }
    if let Some(rest) = body.strip_prefix("attempt to perform bitwise operation on a ") {
        if let Some(t) = type_word(rest, " value") {
            return ErrClass::Arith(t.to_string());
        }
    }
    if let Some(rest) = body.strip_prefix("attempt to call a ") {
        if let Some(t) = type_word(rest, " value") {
            return ErrClass::Call(t.to_string());
        }
    }
    if let Some(rest) = body.strip_prefix("attempt to index a ") {
        if let Some(t) = type_word(rest, " value") {
            return ErrClass::Index(t.to_string());
        }
    }
    if let Some(rest) = body.strip_prefix("attempt to concatenate a ") {
        if let Some(t) = type_word(rest, " value") {
            return ErrClass::Concat(t.to_string());
        }
    }
    if let Some(rest) = body.strip_prefix("attempt to compare two ") {
        if let Some(t) = type_word(rest, " values") {
            return ErrClass::Compare(t.to_string(), t.to_string());
        }
    }
    if let Some(rest) = body.strip_prefix("attempt to compare ") {
        if let Some(p) = rest.find(" with ") {
            return ErrClass::Compare(rest[..p].to_string(), rest[p + 6..].to_string());
        }
    }
    if body.starts_with("attempt to perform 'n//0'") || body.starts_with("attempt to perform 'n%0'") || body.starts_with("attempt to perform 'n%%0'") {
        return ErrClass::DivZero;
    }
    if body.contains("stack overflow") {
        return ErrClass::StackOverflow;
    }
    ErrClass::Other(msg.to_string())
}

pub fn classify_with_origin(msg: &str, origin: ErrOrigin) -> ErrClass {
    match classify_error_message(msg) {
        ErrClass::Other(m) => match origin {
            ErrOrigin::Assert => ErrClass::PreambleAssert(m),
            ErrOrigin::ErrorFn => ErrClass::ErrorCall(strip_position(&m).to_string()),
            ErrOrigin::Runtime => ErrClass::Other(m),
        },
        c => c,
    }
}

impl<'c> Interp<'c> {
    /// " (local 'x')"-style suffix for an operand expression, as luaG_typeerror's varinfo would give.
    pub(crate) fn varinfo(&self, e: &Expr) -> String {
        let name = |id: u32| String::from_utf8_lossy(self.const_bytes(id)).to_string();
        match e {
            Expr::Local(l) => format!(" (local '{}')", name(l.name)),
            Expr::Upval(u) => format!(" (upvalue '{}')", name(u.name)),
            Expr::Global(g) => format!(" (global '{}')", name(g.name)),
            Expr::Index(ix) => match &ix.key {
                Expr::Str(s) => format!(" (field '{}')", name(*s)),
                _ => " (field '?')".to_string(),
            },
            Expr::Paren(inner) => match **inner {
                Expr::Local(_) | Expr::Upval(_) | Expr::Global(_) | Expr::Index(_) => self.varinfo(inner),
                _ => String::new(),
            },
            _ => String::new(),
        }
    }
    pub(crate) fn where_prefix(line: u32) -> String {
        if line == 0 {
            String::new()
        } else {
            format!("stdin:{}: ", line)
        }
    }
    /// Runtime fault raised by the VM itself at `line` (always position-prefixed, like luaG_runerror).
    #[cold]
    #[inline(never)]
    pub(crate) fn rt_error<T>(&mut self, line: u32, msg: String) -> R<T> {
        let full = format!("{}{}", Self::where_prefix(line), msg);
        Err(Box::new(Unwind::Error { value: Value::str(full.as_bytes()), line, origin: ErrOrigin::Runtime, traceback: vec![line] }))
    }
    #[cold]
    #[inline(never)]
    pub(crate) fn type_error<T>(&mut self, line: u32, op: &str, v: &Value, info: String) -> R<T> {
        let msg = format!("attempt to {} a {} value{}", op, self.type_name_of(v), info);
        self.rt_error(line, msg)
    }
    /// Error raised with an arbitrary value (error(), assert()).
    #[cold]
    #[inline(never)]
    pub(crate) fn throw_value<T>(&mut self, value: Value, line: u32, origin: ErrOrigin) -> R<T> {
        Err(Box::new(Unwind::Error { value, line, origin, traceback: vec![line] }))
    }
    /// luaL_error from a native called at `line` (0 when called from C ⇒ no position).
    #[cold]
    #[inline(never)]
    pub(crate) fn lib_error<T>(&mut self, line: u32, msg: String) -> R<T> {
        self.rt_error(line, msg)
    }
    /// luaL_argerror; `arg` is 1-based.
    #[cold]
    #[inline(never)]
    pub(crate) fn arg_error<T>(&mut self, line: u32, arg: usize, extra: &str) -> R<T> {
        let (name, is_method) = self.callee_name();
        let mut arg = arg;
        if is_method {
            arg -= 1;
            if arg == 0 {
                return self.rt_error(line, format!("calling '{}' on bad self ({})", name, extra));
            }
        }
        self.rt_error(line, format!("bad argument #{} to '{}' ({})", arg, name, extra))
    }
    #[cold]
    #[inline(never)]
    pub(crate) fn arg_type_error<T>(&mut self, line: u32, arg: usize, expected: &str, got: Option<&Value>) -> R<T> {
        let g = match got {
            None => "no value",
            Some(v) => self.type_name_of(v),
        };
        let extra = format!("{} expected, got {}", expected, g);
        self.arg_error(line, arg, &extra)
    }
    /// Name under which the running native was called (call-site variable info, else its library name).
    pub(crate) fn callee_name(&self) -> (String, bool) {
        let name = |id: u32| String::from_utf8_lossy(self.const_bytes(id)).to_string();
        if self.for_iter {
            return ("for iterator".to_string(), false);
        }
        if let Some(e) = self.callee_expr {
            match e {
                Expr::Local(l) => return (name(l.name), false),
                Expr::Upval(u) => return (name(u.name), false),
                Expr::Global(g) => return (name(g.name), false),
                Expr::Index(ix) => {
                    if let Expr::Str(s) = &ix.key {
                        return (name(*s), false);
                    }
                    return ("?".to_string(), false);
                }
                Expr::Method(m) => return (name(m.name), true),
                _ => {}
            }
        }
        (crate::stdlib::native_name(self.cur_native).to_string(), false)
    }
    /// Text of an error value the way lua.c's message handler renders it.
    pub(crate) fn error_value_text(&mut self, v: &Value) -> String {
        match v {
            Value::Str(s) => String::from_utf8_lossy(s).to_string(),
            Value::Int(i) => crate::numfmt::tostring_number_i64(*i),
            Value::Num(f) => crate::numfmt::tostring_number_f64(*f),
            other => {
                if self.metamethod(other, crate::interp::MM_TOSTRING).is_some() {
                    if let Ok(Value::Str(s)) = self.tostring(other, 0) {
                        return String::from_utf8_lossy(&s).to_string();
                    }
                }
                format!("(error object is a {} value)", other.type_name())
            }
        }
    }
}
