//! Runtime values, table representation (array part + insertion-ordered hash part).
use std::collections::HashMap;
use std::hash::{BuildHasherDefault, Hash, Hasher};
use std::rc::Rc;

pub type LStr = Rc<[u8]>;
pub const NO_META: u32 = u32::MAX;

#[derive(Clone, Debug)]
pub enum Value {
    Nil,
    Bool(bool),
    Int(i64),
    Num(f64),
    Str(LStr),
    Table(u32),
    Func(u32),
    /// builtin function id + payload (state index for iterator closures such as gmatch)
    Native(u16, u32),
    /// internal: slot of a captured local holds the index of its cell (never visible to Lua code)
    Cell(u32),
}

impl Value {
    #[inline]
    pub fn truthy(&self) -> bool {
        !matches!(self, Value::Nil | Value::Bool(false))
    }
    #[inline]
    pub fn is_nil(&self) -> bool {
        matches!(self, Value::Nil)
    }
    pub fn type_name(&self) -> &'static str {
        match self {
            Value::Nil => "nil",
            Value::Bool(_) => "boolean",
            Value::Int(_) | Value::Num(_) => "number",
            Value::Str(_) => "string",
            Value::Table(_) => "table",
            Value::Func(_) | Value::Native(..) => "function",
            Value::Cell(_) => "nil",
        }
    }
    pub fn str(s: &[u8]) -> Value {
        Value::Str(Rc::from(s))
    }
}

/// float -> integer only when the float has an exact integer value in range.
#[inline]
pub fn f64_to_i64_exact(f: f64) -> Option<i64> {
    if f.floor() == f && f >= -9223372036854775808.0 && f < 9223372036854775808.0 {
        Some(f as i64)
    } else {
        None
    }
}

/// Primitive (raw) equality as in luaV_equalobj without metamethods.
pub fn raw_equal(a: &Value, b: &Value) -> bool {
    match (a, b) {
        (Value::Nil, Value::Nil) => true,
        (Value::Bool(x), Value::Bool(y)) => x == y,
        (Value::Int(x), Value::Int(y)) => x == y,
        (Value::Num(x), Value::Num(y)) => x == y,
        (Value::Int(x), Value::Num(y)) | (Value::Num(y), Value::Int(x)) => match f64_to_i64_exact(*y) {
            Some(i) => i == *x,
            None => false,
        },
        (Value::Str(x), Value::Str(y)) => Rc::ptr_eq(x, y) || x[..] == y[..],
        (Value::Table(x), Value::Table(y)) => x == y,
        (Value::Func(x), Value::Func(y)) => x == y,
        (Value::Native(x, p), Value::Native(y, q)) => x == y && p == q,
        _ => false,
    }
}

#[derive(Clone, Debug, PartialEq, Eq, Hash)]
pub enum Key {
    Bool(bool),
    Int(i64),
    Num(u64),
    Str(LStr),
    Table(u32),
    Func(u32),
    Native(u16, u32),
}

pub enum KeyErr {
    Nil,
    NaN,
}

impl Key {
    pub fn from_value(v: &Value) -> Result<Key, KeyErr> {
        Ok(match v {
            Value::Nil | Value::Cell(_) => return Err(KeyErr::Nil),
            Value::Bool(b) => Key::Bool(*b),
            Value::Int(i) => Key::Int(*i),
            Value::Num(f) => {
                if f.is_nan() {
                    return Err(KeyErr::NaN);
                }
                match f64_to_i64_exact(*f) {
                    Some(i) => Key::Int(i),
                    None => Key::Num(f.to_bits()),
                }
            }
            Value::Str(s) => Key::Str(s.clone()),
            Value::Table(t) => Key::Table(*t),
            Value::Func(f) => Key::Func(*f),
            Value::Native(a, b) => Key::Native(*a, *b),
        })
    }
    pub fn to_value(&self) -> Value {
        match self {
            Key::Bool(b) => Value::Bool(*b),
            Key::Int(i) => Value::Int(*i),
            Key::Num(b) => Value::Num(f64::from_bits(*b)),
            Key::Str(s) => Value::Str(s.clone()),
            Key::Table(t) => Value::Table(*t),
            Key::Func(f) => Value::Func(*f),
            Key::Native(a, b) => Value::Native(*a, *b),
        }
    }
}

/// Small fast hasher (FxHash style).
#[derive(Default, Clone, Copy)]
pub struct Fx(u64);
const SEED: u64 = 0x51_7c_c1_b7_27_22_0a_95;
impl Fx {
    #[inline]
    fn add(&mut self, w: u64) {
        self.0 = (self.0.rotate_left(5) ^ w).wrapping_mul(SEED);
    }
}
impl Hasher for Fx {
    fn write(&mut self, bytes: &[u8]) {
        let mut b = bytes;
        while b.len() >= 8 {
            let mut w = [0u8; 8];
            w.copy_from_slice(&b[..8]);
            self.add(u64::from_le_bytes(w));
            b = &b[8..];
        }
        if !b.is_empty() {
            let mut w = [0u8; 8];
            w[..b.len()].copy_from_slice(b);
            self.add(u64::from_le_bytes(w) ^ ((b.len() as u64) << 56));
        }
    }
    fn write_u8(&mut self, i: u8) {
        self.add(i as u64)
    }
    fn write_u16(&mut self, i: u16) {
        self.add(i as u64)
    }
    fn write_u32(&mut self, i: u32) {
        self.add(i as u64)
    }
    fn write_u64(&mut self, i: u64) {
        self.add(i)
    }
    fn write_i64(&mut self, i: i64) {
        self.add(i as u64)
    }
    fn write_usize(&mut self, i: usize) {
        self.add(i as u64)
    }
    fn write_isize(&mut self, i: isize) {
        self.add(i as u64)
    }
    fn finish(&self) -> u64 {
        self.0
    }
}
pub type FxBuild = BuildHasherDefault<Fx>;
pub type FxMap<K, V> = HashMap<K, V, FxBuild>;

const INDEX_THRESHOLD: usize = 8;

#[derive(Default, Debug)]
pub struct HashPart {
    entries: Vec<(Key, Value)>,
    index: Option<Box<FxMap<Key, u32>>>,
    dead: u32,
}

impl HashPart {
    #[inline]
    fn find(&self, k: &Key) -> Option<usize> {
        if let Some(ix) = &self.index {
            return ix.get(k).map(|p| *p as usize);
        }
        match k {
            Key::Str(s) => {
                for (i, e) in self.entries.iter().enumerate() {
                    if let Key::Str(t) = &e.0 {
                        if Rc::ptr_eq(s, t) || (s.len() == t.len() && s[..] == t[..]) {
                            return Some(i);
                        }
                    }
                }
                None
            }
            _ => self.entries.iter().position(|e| e.0 == *k),
        }
    }
    fn compact(&mut self) {
        self.entries.retain(|e| !e.1.is_nil());
        self.dead = 0;
        self.index = None;
        if self.entries.len() > INDEX_THRESHOLD {
            self.build_index();
        }
    }
    fn build_index(&mut self) {
        let mut m: FxMap<Key, u32> = HashMap::with_capacity_and_hasher(self.entries.len() * 2, FxBuild::default());
        for (i, e) in self.entries.iter().enumerate() {
            m.insert(e.0.clone(), i as u32);
        }
        self.index = Some(Box::new(m));
    }
    fn insert_new(&mut self, k: Key, v: Value) {
        if self.dead as usize > 8 && self.dead as usize * 2 > self.entries.len() {
            self.compact();
        }
        let pos = self.entries.len();
        if let Some(ix) = &mut self.index {
            ix.insert(k.clone(), pos as u32);
        }
        self.entries.push((k, v));
        if self.index.is_none() && self.entries.len() > INDEX_THRESHOLD {
            self.build_index();
        }
    }
}

#[derive(Debug)]
pub struct Table {
    pub arr: Vec<Value>,
    pub hash: HashPart,
    pub meta: u32,
}

struct NilHolder(Value);
// SAFETY: the holder only ever contains Value::Nil (no Rc inside) and is never mutated.
unsafe impl Sync for NilHolder {}
static NIL_HOLDER: NilHolder = NilHolder(Value::Nil);

impl Default for Table {
    fn default() -> Self {
        Table { arr: Vec::new(), hash: HashPart::default(), meta: NO_META }
    }
}

impl Table {
    pub fn new() -> Table {
        Table::default()
    }
    /// Border: array part is kept trimmed (no trailing nil) and the hash part never holds key len+1.
    #[inline]
    pub fn len(&self) -> i64 {
        self.arr.len() as i64
    }
    #[inline]
    pub fn get_int(&self, i: i64) -> &Value {
        if i >= 1 && (i as u64) <= self.arr.len() as u64 {
            return &self.arr[(i - 1) as usize];
        }
        if self.hash.entries.is_empty() {
            return &NIL_HOLDER.0;
        }
        match self.hash.find(&Key::Int(i)) {
            Some(p) => &self.hash.entries[p].1,
            None => &NIL_HOLDER.0,
        }
    }
    #[inline]
    pub fn get_str(&self, s: &LStr) -> &Value {
        if self.hash.entries.is_empty() {
            return &NIL_HOLDER.0;
        }
        if self.hash.index.is_none() {
            for e in self.hash.entries.iter() {
                if let Key::Str(t) = &e.0 {
                    if Rc::ptr_eq(s, t) || (s.len() == t.len() && s[..] == t[..]) {
                        return &e.1;
                    }
                }
            }
            return &NIL_HOLDER.0;
        }
        match self.hash.find(&Key::Str(s.clone())) {
            Some(p) => &self.hash.entries[p].1,
            None => &NIL_HOLDER.0,
        }
    }
    /// Raw get; nil / NaN keys simply yield nil.
    pub fn get(&self, k: &Value) -> &Value {
        match k {
            Value::Int(i) => self.get_int(*i),
            Value::Str(s) => self.get_str(s),
            Value::Nil | Value::Cell(_) => &NIL_HOLDER.0,
            Value::Num(f) => match f64_to_i64_exact(*f) {
                Some(i) => self.get_int(i),
                None => {
                    if f.is_nan() || self.hash.entries.is_empty() {
                        return &NIL_HOLDER.0;
                    }
                    match self.hash.find(&Key::Num(f.to_bits())) {
                        Some(p) => &self.hash.entries[p].1,
                        None => &NIL_HOLDER.0,
                    }
                }
            },
            other => {
                if self.hash.entries.is_empty() {
                    return &NIL_HOLDER.0;
                }
                match Key::from_value(other) {
                    Ok(key) => match self.hash.find(&key) {
                        Some(p) => &self.hash.entries[p].1,
                        None => &NIL_HOLDER.0,
                    },
                    Err(_) => &NIL_HOLDER.0,
                }
            }
        }
    }
    fn trim(&mut self) {
        while let Some(Value::Nil) = self.arr.last() {
            self.arr.pop();
        }
    }
    fn migrate(&mut self) {
        if self.hash.entries.is_empty() {
            return;
        }
        loop {
            let next = self.arr.len() as i64 + 1;
            match self.hash.find(&Key::Int(next)) {
                Some(p) if !self.hash.entries[p].1.is_nil() => {
                    let v = std::mem::replace(&mut self.hash.entries[p].1, Value::Nil);
                    self.hash.dead += 1;
                    self.arr.push(v);
                }
                _ => break,
            }
        }
    }
    /// Raw set. Returns true when a new slot was created (used for memory accounting).
    pub fn set(&mut self, k: Key, v: Value) -> bool {
        if let Key::Int(i) = k {
            let n = self.arr.len();
            if i >= 1 && (i as u64) <= n as u64 {
                let last = i as usize == n;
                let isnil = v.is_nil();
                self.arr[(i - 1) as usize] = v;
                if last && isnil {
                    self.trim();
                }
                return false;
            }
            if i as u64 == n as u64 + 1 && i >= 1 {
                if v.is_nil() {
                    return false; // invariant: hash never holds key n+1
                }
                self.arr.push(v);
                self.migrate();
                return true;
            }
        }
        match self.hash.find(&k) {
            Some(p) => {
                let slot = &mut self.hash.entries[p].1;
                match (slot.is_nil(), v.is_nil()) {
                    (false, true) => self.hash.dead += 1,
                    (true, false) => self.hash.dead = self.hash.dead.saturating_sub(1),
                    _ => {}
                }
                *slot = v;
                false
            }
            None => {
                if v.is_nil() {
                    return false;
                }
                self.hash.insert_new(k, v);
                true
            }
        }
    }
    #[allow(dead_code)]
    pub fn set_str(&mut self, s: &LStr, v: Value) -> bool {
        self.set(Key::Str(s.clone()), v)
    }
    /// Replace the array part wholesale (constructor / table.sort); keeps invariants.
    pub fn set_array(&mut self, a: Vec<Value>) {
        self.arr = a;
        self.trim();
        self.migrate();
    }
    /// `next`: Ok(None) at end, Err(()) for a key that is not in the table.
    pub fn next(&self, k: &Value) -> Result<Option<(Value, Value)>, ()> {
        let mut hstart = 0usize;
        let mut astart = usize::MAX;
        match k {
            Value::Nil => astart = 0,
            other => {
                let key = match Key::from_value(other) {
                    Ok(key) => key,
                    Err(_) => return Err(()),
                };
                let mut done = false;
                if let Key::Int(i) = key {
                    if i >= 1 && (i as u64) <= self.arr.len() as u64 {
                        astart = i as usize;
                        done = true;
                    }
                }
                if !done {
                    match self.hash.find(&key) {
                        Some(p) => hstart = p + 1,
                        None => {
                            // an array element that was trimmed away after being set to nil
                            if let Key::Int(i) = key {
                                if i >= 1 {
                                    hstart = 0;
                                } else {
                                    return Err(());
                                }
                            } else {
                                return Err(());
                            }
                        }
                    }
                }
            }
        }
        if astart != usize::MAX {
            for i in astart..self.arr.len() {
                if !self.arr[i].is_nil() {
                    return Ok(Some((Value::Int(i as i64 + 1), self.arr[i].clone())));
                }
            }
        }
        for e in self.hash.entries.iter().skip(hstart) {
            if !e.1.is_nil() {
                return Ok(Some((e.0.to_value(), e.1.clone())));
            }
        }
        Ok(None)
    }
    pub fn hash_len(&self) -> usize {
        self.hash.entries.len()
    }
}
