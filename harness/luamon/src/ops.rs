//! Arithmetic, comparison, concatenation, length, tostring — with metamethod dispatch (Lua 5.3 rules).
use crate::ast::*;
use crate::errors::*;
use crate::interp::*;
use crate::numfmt::{str2number, tostring_number_f64, tostring_number_i64, Numeral};
use crate::value::*;
use crate::Event;
use std::cmp::Ordering;

pub fn cmp_int_float(i: i64, f: f64) -> Option<Ordering> {
    if f.is_nan() {
        return None;
    }
    if f >= 9223372036854775808.0 {
        return Some(Ordering::Less);
    }
    if f < -9223372036854775808.0 {
        return Some(Ordering::Greater);
    }
    let fl = f.floor();
    let k = fl as i64;
    Some(if i < k {
        Ordering::Less
    } else if i > k {
        Ordering::Greater
    } else if f > fl {
        Ordering::Less
    } else {
        Ordering::Equal
    })
}

pub fn int_mod(a: i64, b: i64) -> i64 {
    if b == -1 {
        return 0;
    }
    let m = a % b;
    if m != 0 && (m ^ b) < 0 {
        m + b
    } else {
        m
    }
}

pub fn int_idiv(a: i64, b: i64) -> i64 {
    if b == -1 {
        return a.wrapping_neg();
    }
    let q = a / b;
    if (a ^ b) < 0 && a % b != 0 {
        q - 1
    } else {
        q
    }
}

pub fn float_mod(a: f64, b: f64) -> f64 {
    let mut m = a % b;
    if m * b < 0.0 {
        m += b;
    }
    m
}

pub fn shift_left(x: i64, y: i64) -> i64 {
    if y <= -64 || y >= 64 {
        0
    } else if y >= 0 {
        ((x as u64) << y) as i64
    } else {
        ((x as u64) >> (-y)) as i64
    }
}

fn mm_for(op: BinOp) -> (usize, &'static str) {
    match op {
        BinOp::Add => (MM_ADD, "+"),
        BinOp::Sub => (MM_SUB, "-"),
        BinOp::Mul => (MM_MUL, "*"),
        BinOp::Div => (MM_DIV, "/"),
        BinOp::Mod => (MM_MOD, "%"),
        BinOp::Pow => (MM_POW, "^"),
        BinOp::IDiv => (MM_IDIV, "//"),
        BinOp::BAnd => (MM_BAND, "&"),
        BinOp::BOr => (MM_BOR, "|"),
        BinOp::BXor => (MM_BXOR, "~"),
        BinOp::Shl => (MM_SHL, "<<"),
        BinOp::Shr => (MM_SHR, ">>"),
        _ => (MM_CONCAT, ".."),
    }
}

impl<'c> Interp<'c> {
    /// number or numeric string → number (cvt2num)
    pub(crate) fn to_number(v: &Value) -> Option<Numeral> {
        match v {
            Value::Int(i) => Some(Numeral::Int(*i)),
            Value::Num(f) => Some(Numeral::Flt(*f)),
            Value::Str(s) => str2number(s),
            _ => None,
        }
    }
    pub(crate) fn to_integer(v: &Value) -> Option<i64> {
        match Self::to_number(v)? {
            Numeral::Int(i) => Some(i),
            Numeral::Flt(f) => f64_to_i64_exact(f),
        }
    }
    fn arith_nums(&mut self, op: BinOp, x: Numeral, y: Numeral, line: u32) -> R<Value> {
        use Numeral::*;
        if let (Int(a), Int(b)) = (x, y) {
            return Ok(match op {
                BinOp::Add => Value::Int(a.wrapping_add(b)),
                BinOp::Sub => Value::Int(a.wrapping_sub(b)),
                BinOp::Mul => Value::Int(a.wrapping_mul(b)),
                BinOp::Div => Value::Num(a as f64 / b as f64),
                BinOp::Pow => Value::Num((a as f64).powf(b as f64)),
                BinOp::Mod => {
                    if b == 0 {
                        return self.rt_error(line, "attempt to perform 'n%0'".into());
                    }
                    Value::Int(int_mod(a, b))
                }
                BinOp::IDiv => {
                    if b == 0 {
                        return self.rt_error(line, "attempt to perform 'n//0'".into());
                    }
                    Value::Int(int_idiv(a, b))
                }
                _ => Value::Nil,
            });
        }
        let a = match x {
            Int(i) => i as f64,
            Flt(f) => f,
        };
        let b = match y {
            Int(i) => i as f64,
            Flt(f) => f,
        };
        Ok(Value::Num(match op {
            BinOp::Add => a + b,
            BinOp::Sub => a - b,
            BinOp::Mul => a * b,
            BinOp::Div => a / b,
            BinOp::Pow => a.powf(b),
            BinOp::Mod => float_mod(a, b),
            BinOp::IDiv => (a / b).floor(),
            _ => 0.0,
        }))
    }
    fn bit_ints(op: BinOp, a: i64, b: i64) -> i64 {
        match op {
            BinOp::BAnd => a & b,
            BinOp::BOr => a | b,
            BinOp::BXor => a ^ b,
            BinOp::Shl => shift_left(a, b),
            BinOp::Shr => shift_left(a, b.wrapping_neg()),
            _ => 0,
        }
    }
    #[inline]
    pub(crate) fn binop(&mut self, b: &'c BinE, l: Value, r: Value) -> R<Value> {
        match b.op {
            BinOp::Add | BinOp::Sub | BinOp::Mul | BinOp::Div | BinOp::Mod | BinOp::Pow | BinOp::IDiv => {
                self.counters.arith_ops += 1;
                match (&l, &r) {
                    (Value::Int(x), Value::Int(y)) => match b.op {
                        BinOp::Add => return Ok(Value::Int(x.wrapping_add(*y))),
                        BinOp::Sub => return Ok(Value::Int(x.wrapping_sub(*y))),
                        BinOp::Mul => return Ok(Value::Int(x.wrapping_mul(*y))),
                        _ => return self.arith_nums(b.op, Numeral::Int(*x), Numeral::Int(*y), b.line),
                    },
                    (Value::Num(x), Value::Num(y)) => return self.arith_nums(b.op, Numeral::Flt(*x), Numeral::Flt(*y), b.line),
                    (Value::Int(x), Value::Num(y)) => return self.arith_nums(b.op, Numeral::Int(*x), Numeral::Flt(*y), b.line),
                    (Value::Num(x), Value::Int(y)) => return self.arith_nums(b.op, Numeral::Flt(*x), Numeral::Int(*y), b.line),
                    _ => {}
                }
                self.arith_slow(b.op, &l, &r, b.line, Some((&b.l, &b.r)))
            }
            BinOp::BAnd | BinOp::BOr | BinOp::BXor | BinOp::Shl | BinOp::Shr => {
                self.counters.arith_ops += 1;
                if let (Value::Int(x), Value::Int(y)) = (&l, &r) {
                    return Ok(Value::Int(Self::bit_ints(b.op, *x, *y)));
                }
                self.arith_slow(b.op, &l, &r, b.line, Some((&b.l, &b.r)))
            }
            BinOp::Concat => self.concat(&l, &r, b.line, Some((&b.l, &b.r))),
            BinOp::Eq => {
                self.counters.compares += 1;
                Ok(Value::Bool(self.equals(&l, &r, b.line)?))
            }
            BinOp::Ne => {
                self.counters.compares += 1;
                Ok(Value::Bool(!self.equals(&l, &r, b.line)?))
            }
            BinOp::Lt => Ok(Value::Bool(self.less_than(&l, &r, b.line)?)),
            BinOp::Le => Ok(Value::Bool(self.less_equal(&l, &r, b.line)?)),
            BinOp::Gt => Ok(Value::Bool(self.less_than(&r, &l, b.line)?)),
            BinOp::Ge => Ok(Value::Bool(self.less_equal(&r, &l, b.line)?)),
        }
    }
    fn note_coercion(&mut self, line: u32, op: &'static str, from: &'static str) {
        self.counters.coercions += 1;
        if self.opts.strict_arith {
            self.emit(Event::Coercion { line, op, from });
        }
    }
    /// Arithmetic / bitwise on operands that are not both plain numbers: string coercion, then metamethods.
    #[inline(never)]
    pub(crate) fn arith_slow(&mut self, op: BinOp, l: &Value, r: &Value, line: u32, exprs: Option<(&Expr, &Expr)>) -> R<Value> {
        let (mm, opname) = mm_for(op);
        let bitwise = matches!(op, BinOp::BAnd | BinOp::BOr | BinOp::BXor | BinOp::Shl | BinOp::Shr);
        if let (Some(x), Some(y)) = (Self::to_number(l), Self::to_number(r)) {
            if matches!(l, Value::Str(_)) || matches!(r, Value::Str(_)) {
                self.note_coercion(line, opname, "string");
            }
            if !bitwise {
                return self.arith_nums(op, x, y, line);
            }
            if let (Some(a), Some(b)) = (Self::to_integer(l), Self::to_integer(r)) {
                return Ok(Value::Int(Self::bit_ints(op, a, b)));
            }
        }
        let h = match self.metamethod(l, mm) {
            Some(h) => Some(h),
            None => self.metamethod(r, mm),
        };
        if let Some(h) = h {
            return self.call_mm(&h, &[l.clone(), r.clone()], line);
        }
        if bitwise && Self::to_number(l).is_some() && Self::to_number(r).is_some() {
            return self.rt_error(line, "number has no integer representation".into());
        }
        // luaG_opinterror: blame the first operand unless it is a number
        let first_bad = !matches!(l, Value::Int(_) | Value::Num(_)) && !(matches!(l, Value::Str(_)) && Self::to_number(l).is_some());
        let first_bad = if bitwise { !matches!(l, Value::Int(_) | Value::Num(_)) && Self::to_number(l).is_none() } else { first_bad };
        let (bad, bexpr) = if first_bad { (l, exprs.map(|e| e.0)) } else { (r, exprs.map(|e| e.1)) };
        let info = match bexpr {
            Some(e) if !matches!(e, Expr::Str(_)) => self.varinfo(e),
            _ => String::new(),
        };
        let what = if bitwise { "perform bitwise operation on" } else { "perform arithmetic on" };
        self.type_error(line, what, bad, info)
    }
    pub(crate) fn unop(&mut self, u: &'c UnE, v: Value) -> R<Value> {
        match u.op {
            UnOp::Not => Ok(Value::Bool(!v.truthy())),
            UnOp::Neg => {
                self.counters.arith_ops += 1;
                match &v {
                    Value::Int(i) => Ok(Value::Int(i.wrapping_neg())),
                    Value::Num(f) => Ok(Value::Num(-*f)),
                    _ => {
                        if let Some(n) = Self::to_number(&v) {
                            self.note_coercion(u.line, "-", "string");
                            return Ok(match n {
                                Numeral::Int(i) => Value::Int(i.wrapping_neg()),
                                Numeral::Flt(f) => Value::Num(-f),
                            });
                        }
                        if let Some(h) = self.metamethod(&v, MM_UNM) {
                            return self.call_mm(&h, &[v.clone(), v.clone()], u.line);
                        }
                        let info = self.varinfo(&u.e);
                        self.type_error(u.line, "perform arithmetic on", &v, info)
                    }
                }
            }
            UnOp::BNot => {
                self.counters.arith_ops += 1;
                if let Value::Int(i) = &v {
                    return Ok(Value::Int(!*i));
                }
                if let Some(i) = Self::to_integer(&v) {
                    return Ok(Value::Int(!i));
                }
                if let Some(h) = self.metamethod(&v, MM_BNOT) {
                    return self.call_mm(&h, &[v.clone(), v.clone()], u.line);
                }
                if Self::to_number(&v).is_some() {
                    return self.rt_error(u.line, "number has no integer representation".into());
                }
                let info = self.varinfo(&u.e);
                self.type_error(u.line, "perform bitwise operation on", &v, info)
            }
            UnOp::Len => self.length(&v, u.line, Some(&u.e)),
        }
    }
    pub(crate) fn length(&mut self, v: &Value, line: u32, e: Option<&Expr>) -> R<Value> {
        match v {
            Value::Str(s) => Ok(Value::Int(s.len() as i64)),
            Value::Table(t) => {
                if let Some(h) = self.metamethod(v, MM_LEN) {
                    return self.call_mm(&h, &[v.clone(), v.clone()], line);
                }
                Ok(Value::Int(self.tables[*t as usize].len()))
            }
            _ => {
                let info = match e {
                    Some(e) => self.varinfo(e),
                    None => String::new(),
                };
                self.type_error(line, "get length of", v, info)
            }
        }
    }
    pub(crate) fn equals(&mut self, l: &Value, r: &Value, line: u32) -> R<bool> {
        if raw_equal(l, r) {
            return Ok(true);
        }
        if let (Value::Table(_), Value::Table(_)) = (l, r) {
            let h = match self.metamethod(l, MM_EQ) {
                Some(h) => Some(h),
                None => self.metamethod(r, MM_EQ),
            };
            if let Some(h) = h {
                return Ok(self.call_mm(&h, &[l.clone(), r.clone()], line)?.truthy());
            }
        }
        Ok(false)
    }
    fn num_cmp(l: &Value, r: &Value) -> Option<Option<Ordering>> {
        Some(match (l, r) {
            (Value::Int(a), Value::Int(b)) => Some(a.cmp(b)),
            (Value::Num(a), Value::Num(b)) => a.partial_cmp(b),
            (Value::Int(a), Value::Num(b)) => cmp_int_float(*a, *b),
            (Value::Num(a), Value::Int(b)) => cmp_int_float(*b, *a).map(|o| o.reverse()),
            _ => return None,
        })
    }
    #[cold]
    #[inline(never)]
    fn order_error<T>(&mut self, l: &Value, r: &Value, line: u32) -> R<T> {
        let (t1, t2) = (l.type_name(), r.type_name());
        if t1 == t2 {
            self.rt_error(line, format!("attempt to compare two {} values", t1))
        } else {
            self.rt_error(line, format!("attempt to compare {} with {}", t1, t2))
        }
    }
    pub(crate) fn less_than(&mut self, l: &Value, r: &Value, line: u32) -> R<bool> {
        self.counters.compares += 1;
        if let Some(o) = Self::num_cmp(l, r) {
            return Ok(o == Some(Ordering::Less));
        }
        if let (Value::Str(a), Value::Str(b)) = (l, r) {
            return Ok(a[..] < b[..]);
        }
        let h = match self.metamethod(l, MM_LT) {
            Some(h) => Some(h),
            None => self.metamethod(r, MM_LT),
        };
        match h {
            Some(h) => Ok(self.call_mm(&h, &[l.clone(), r.clone()], line)?.truthy()),
            None => self.order_error(l, r, line),
        }
    }
    pub(crate) fn less_equal(&mut self, l: &Value, r: &Value, line: u32) -> R<bool> {
        self.counters.compares += 1;
        if let Some(o) = Self::num_cmp(l, r) {
            return Ok(matches!(o, Some(Ordering::Less) | Some(Ordering::Equal)));
        }
        if let (Value::Str(a), Value::Str(b)) = (l, r) {
            return Ok(a[..] <= b[..]);
        }
        let h = match self.metamethod(l, MM_LE) {
            Some(h) => Some(h),
            None => self.metamethod(r, MM_LE),
        };
        if let Some(h) = h {
            return Ok(self.call_mm(&h, &[l.clone(), r.clone()], line)?.truthy());
        }
        // fallback: not (r < l)
        let h = match self.metamethod(r, MM_LT) {
            Some(h) => Some(h),
            None => self.metamethod(l, MM_LT),
        };
        match h {
            Some(h) => Ok(!self.call_mm(&h, &[r.clone(), l.clone()], line)?.truthy()),
            None => self.order_error(l, r, line),
        }
    }
    pub(crate) fn concat(&mut self, l: &Value, r: &Value, line: u32, exprs: Option<(&Expr, &Expr)>) -> R<Value> {
        let lok = matches!(l, Value::Str(_) | Value::Int(_) | Value::Num(_));
        let rok = matches!(r, Value::Str(_) | Value::Int(_) | Value::Num(_));
        if lok && rok {
            let mut out: Vec<u8> = Vec::new();
            for v in [l, r] {
                match v {
                    Value::Str(s) => out.extend_from_slice(s),
                    Value::Int(i) => {
                        self.note_coercion(line, "..", "number");
                        out.extend_from_slice(tostring_number_i64(*i).as_bytes())
                    }
                    Value::Num(f) => {
                        self.note_coercion(line, "..", "number");
                        out.extend_from_slice(tostring_number_f64(*f).as_bytes())
                    }
                    _ => {}
                }
            }
            return Ok(self.new_str(&out));
        }
        let h = match self.metamethod(l, MM_CONCAT) {
            Some(h) => Some(h),
            None => self.metamethod(r, MM_CONCAT),
        };
        if let Some(h) = h {
            return self.call_mm(&h, &[l.clone(), r.clone()], line);
        }
        let (bad, bexpr) = if lok { (r, exprs.map(|e| e.1)) } else { (l, exprs.map(|e| e.0)) };
        let info = match bexpr {
            Some(e) => self.varinfo(e),
            None => String::new(),
        };
        self.type_error(line, "concatenate", bad, info)
    }
    /// luaL_tolstring
    pub(crate) fn tostring(&mut self, v: &Value, line: u32) -> R<Value> {
        if let Some(h) = self.metamethod(v, MM_TOSTRING) {
            if !matches!(v, Value::Str(_)) {
                self.push_c_frame();
                let r = self.call_mm(&h, &[v.clone()], 0);
                self.frames.pop();
                let r = r?;
                if !matches!(r, Value::Str(_) | Value::Int(_) | Value::Num(_)) {
                    return self.lib_error(line, "'__tostring' must return a string".into());
                }
                if let Value::Str(_) = r {
                    return Ok(r);
                }
                return self.tostring(&r, line);
            }
        }
        Ok(match v {
            Value::Str(_) => v.clone(),
            Value::Nil | Value::Cell(_) => self.new_str(b"nil"),
            Value::Bool(true) => self.new_str(b"true"),
            Value::Bool(false) => self.new_str(b"false"),
            Value::Int(i) => {
                let s = tostring_number_i64(*i);
                self.new_str(s.as_bytes())
            }
            Value::Num(f) => {
                let s = tostring_number_f64(*f);
                self.new_str(s.as_bytes())
            }
            Value::Table(t) => {
                let mut name = "table".to_string();
                if let Some(Value::Str(n)) = self.metamethod(v, MM_NAME) {
                    name = String::from_utf8_lossy(&n).to_string();
                }
                let s = format!("{}: 0x{:08x}", name, 0x55550000u64 + (*t as u64) * 0x40);
                self.new_str(s.as_bytes())
            }
            Value::Func(c) => {
                let s = format!("function: 0x{:08x}", 0x66660000u64 + (*c as u64) * 0x20);
                self.new_str(s.as_bytes())
            }
            Value::Native(id, p) => {
                let s = format!("function: 0x{:08x}", 0x77770000u64 + (*id as u64) * 0x10 + *p as u64);
                self.new_str(s.as_bytes())
            }
        })
    }
}
