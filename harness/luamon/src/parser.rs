//! Parser core: token handling, scopes (locals / upvalues / labels / gotos as in lparser.c), statements.
use crate::ast::*;
use crate::lexer::{LexError, Lexer, Tok};
use crate::value::FxMap;

pub const MAX_LOCALS: u32 = 200;
pub const GREY_LOCALS: (u32, u32) = (190, 210);
pub const GREY_LEVELS: (u32, u32) = (185, 205);
pub const GREY_REGS: (u32, u32) = (240, 260);
pub const MAX_CHAIN: u32 = 2000;

#[derive(Default)]
pub struct GlobalTable {
    pub map: FxMap<Box<[u8]>, u32>,
    pub names: Vec<String>,
}

impl GlobalTable {
    pub fn gid(&mut self, name: &[u8]) -> u32 {
        if let Some(g) = self.map.get(name) {
            return *g;
        }
        let id = self.names.len() as u32;
        self.names.push(String::from_utf8_lossy(name).to_string());
        self.map.insert(name.into(), id);
        id
    }
}

pub(crate) struct LocalVar {
    pub name: StrId,
    pub mon: bool,
}
pub(crate) struct BlockScope {
    pub nactvar: usize,
    pub is_loop: bool,
    pub first_label: usize,
    pub first_goto: usize,
}
pub(crate) struct LabelDesc {
    pub name: StrId,
    pub line: u32,
    pub nactvar: usize,
}
pub(crate) struct GotoDesc {
    pub name: StrId,
    pub line: u32,
    pub nactvar: usize,
}
pub(crate) struct FuncState {
    pub actvars: Vec<LocalVar>,
    pub blocks: Vec<BlockScope>,
    pub labels: Vec<LabelDesc>,
    pub gotos: Vec<GotoDesc>,
    pub upvals: Vec<UpDesc>,
    pub max_slots: usize,
    pub vararg: bool,
    pub line: u32,
}

pub const HIDDEN: StrId = u32::MAX;

pub struct Parser<'a, 'g> {
    pub(crate) lx: Lexer<'a>,
    pub(crate) tok: Tok,
    pub(crate) line: u32,
    pub(crate) span: (usize, usize),
    pub(crate) ahead: Option<(Tok, u32, (usize, usize))>,
    pub(crate) fs: Vec<FuncState>,
    pub(crate) protos: Vec<Option<Proto>>,
    pub(crate) globals: &'g mut GlobalTable,
    pub(crate) level: u32,
    pub(crate) max_level: u32,
    pub(crate) max_locals: u32,
    pub(crate) marker_line: u32,
    pub(crate) proto_base: u32,
    pub(crate) ret_pending: Option<usize>,
    /// StrId (relative to the interner base) -> global id, to avoid re-hashing names
    pub(crate) gid_cache: Vec<u32>,
}

pub type PResult<T> = Result<T, Box<LoadError>>;

impl From<LexError> for Box<LoadError> {
    fn from(e: LexError) -> Self {
        Box::new(LoadError { line: e.line, msg: e.msg, class: LoadClass::Syntax })
    }
}

impl<'a, 'g> Parser<'a, 'g> {
    pub fn new(src: &'a str, globals: &'g mut GlobalTable, str_base: u32, proto_base: u32, marker_line: u32) -> Self {
        Parser {
            lx: Lexer::new(src, str_base),
            tok: Tok::Eof,
            line: 1,
            span: (0, 0),
            ahead: None,
            fs: Vec::new(),
            protos: Vec::new(),
            globals,
            level: 0,
            max_level: 0,
            max_locals: 0,
            marker_line,
            proto_base,
            ret_pending: None,
            gid_cache: Vec::new(),
        }
    }
    pub(crate) fn advance(&mut self) -> PResult<()> {
        if let Some((t, l, s)) = self.ahead.take() {
            self.tok = t;
            self.line = l;
            self.span = s;
            return Ok(());
        }
        self.tok = self.lx.next()?;
        self.line = self.lx.line;
        self.span = (self.lx.tok_start, self.lx.tok_end);
        Ok(())
    }
    pub(crate) fn peek(&mut self) -> PResult<Tok> {
        if self.ahead.is_none() {
            let t = self.lx.next()?;
            self.ahead = Some((t, self.lx.line, (self.lx.tok_start, self.lx.tok_end)));
        }
        Ok(self.ahead.map(|a| a.0).unwrap_or(Tok::Eof))
    }
    pub(crate) fn near(&self) -> String {
        if self.tok == Tok::Eof {
            return "<eof>".into();
        }
        self.lx.slice(self.span.0, self.span.1)
    }
    pub(crate) fn err<T>(&self, msg: &str) -> PResult<T> {
        let class = if self.ret_pending == Some(self.span.0) { LoadClass::ReturnNotLast } else { LoadClass::Syntax };
        Err(Box::new(LoadError { line: self.line, msg: format!("{} near '{}'", msg, self.near()), class }))
    }
    pub(crate) fn err_class<T>(&self, line: u32, msg: String, class: LoadClass) -> PResult<T> {
        Err(Box::new(LoadError { line, msg, class }))
    }
    pub(crate) fn tok_name(t: Tok) -> &'static str {
        match t {
            Tok::End => "end",
            Tok::Then => "then",
            Tok::Do => "do",
            Tok::Until => "until",
            Tok::In => "in",
            Tok::Assign => "=",
            Tok::RParen => ")",
            Tok::LParen => "(",
            Tok::RBrace => "}",
            Tok::RBracket => "]",
            Tok::DColon => "::",
            Tok::Eof => "<eof>",
            Tok::Comma => ",",
            _ => "<name>",
        }
    }
    pub(crate) fn expect(&mut self, t: Tok) -> PResult<()> {
        if self.tok != t {
            return self.err(&format!("'{}' expected", Self::tok_name(t)));
        }
        self.advance()
    }
    pub(crate) fn expect_match(&mut self, what: Tok, who: &str, line: u32) -> PResult<()> {
        if self.tok != what {
            if line == self.line {
                return self.err(&format!("'{}' expected", Self::tok_name(what)));
            }
            return self.err(&format!("'{}' expected (to close '{}' at line {})", Self::tok_name(what), who, line));
        }
        self.advance()
    }
    pub(crate) fn accept(&mut self, t: Tok) -> PResult<bool> {
        if self.tok == t {
            self.advance()?;
            return Ok(true);
        }
        Ok(false)
    }
    pub(crate) fn expect_name(&mut self) -> PResult<StrId> {
        if let Tok::Name(id) = self.tok {
            self.advance()?;
            return Ok(id);
        }
        self.err("<name> expected")
    }
    pub(crate) fn enter_level(&mut self) -> PResult<()> {
        self.level += 1;
        if self.level > self.max_level {
            self.max_level = self.level;
        }
        if self.level > GREY_LEVELS.1 {
            return self.err_class(self.line, "chunk has too many syntax levels (C levels)".into(), LoadClass::Limit { what: "levels", count: self.level });
        }
        Ok(())
    }
    pub(crate) fn leave_level(&mut self) {
        self.level -= 1;
    }
    pub(crate) fn emitted(&self, line: u32) -> bool {
        line > self.marker_line
    }
    pub(crate) fn is_mon(&self, name: StrId, line: u32) -> bool {
        name != HIDDEN && self.emitted(line) && is_v_name(self.lx.interner.get(name))
    }

    // ---- scopes -------------------------------------------------------------------------
    pub(crate) fn cur(&mut self) -> &mut FuncState {
        let n = self.fs.len() - 1;
        &mut self.fs[n]
    }
    pub(crate) fn open_func(&mut self, line: u32) {
        self.fs.push(FuncState { actvars: Vec::new(), blocks: Vec::new(), labels: Vec::new(), gotos: Vec::new(), upvals: Vec::new(), max_slots: 0, vararg: false, line });
        self.enter_block(false);
    }
    pub(crate) fn enter_block(&mut self, is_loop: bool) {
        let f = self.cur();
        let b = BlockScope { nactvar: f.actvars.len(), is_loop, first_label: f.labels.len(), first_goto: f.gotos.len() };
        f.blocks.push(b);
    }
    /// findlabel (lparser.c): try to close pending goto `g` against labels of the current block.
    pub(crate) fn find_label(&mut self, g: usize) -> PResult<bool> {
        let f = self.cur();
        let first = f.blocks.last().map(|b| b.first_label).unwrap_or(0);
        for i in first..f.labels.len() {
            if f.labels[i].name == f.gotos[g].name {
                let (gn, gl, ln) = (f.gotos[g].nactvar, f.gotos[g].line, f.labels[i].nactvar);
                let gname = f.gotos[g].name;
                if gn < ln {
                    let vname = f.actvars.get(gn).map(|v| v.name).unwrap_or(HIDDEN);
                    return self.jump_scope_error(gname, gl, vname);
                }
                self.cur().gotos.remove(g);
                return Ok(true);
            }
        }
        Ok(false)
    }
    pub(crate) fn jump_scope_error<T>(&self, gname: StrId, gline: u32, vname: StrId) -> PResult<T> {
        let g = String::from_utf8_lossy(self.lx.interner.get(gname)).to_string();
        let v = if vname == HIDDEN { "(for state)".to_string() } else { String::from_utf8_lossy(self.lx.interner.get(vname)).to_string() };
        self.err_class(gline, format!("<goto {}> at line {} jumps into the scope of local '{}'", g, gline, v), LoadClass::Goto)
    }
    pub(crate) fn leave_block(&mut self) -> PResult<()> {
        let f = self.cur();
        let b = match f.blocks.pop() {
            Some(b) => b,
            None => return Ok(()),
        };
        f.actvars.truncate(b.nactvar);
        f.labels.truncate(b.first_label);
        if !f.blocks.is_empty() {
            let mut i = b.first_goto;
            while i < self.cur().gotos.len() {
                let f = self.cur();
                if f.gotos[i].nactvar > b.nactvar {
                    f.gotos[i].nactvar = b.nactvar;
                }
                if !self.find_label(i)? {
                    i += 1;
                }
            }
        } else if b.first_goto < f.gotos.len() {
            let g = &f.gotos[b.first_goto];
            let (name, line) = (g.name, g.line);
            let n = String::from_utf8_lossy(self.lx.interner.get(name)).to_string();
            return self.err_class(line, format!("no visible label '{}' for <goto> at line {}", n, line), LoadClass::Goto);
        }
        Ok(())
    }
    pub(crate) fn close_func(&mut self, nparams: u16, body: Block, has_mon_params: bool) -> PResult<u32> {
        self.leave_block()?;
        let f = match self.fs.pop() {
            Some(f) => f,
            None => return self.err("internal parser error"),
        };
        let id = self.protos.len() as u32 + self.proto_base;
        let emitted = self.emitted(f.line);
        self.protos.push(Some(Proto { nparams, vararg: f.vararg, nslots: f.max_slots as u16, body, upvals: f.upvals, line: f.line, emitted, has_mon_params }));
        Ok(id)
    }
    /// Declare + activate a local; returns its declaration record.
    pub(crate) fn new_local(&mut self, name: StrId, line: u32) -> PResult<LocalDecl> {
        let mon = self.is_mon(name, line);
        let f = self.cur();
        let slot = f.actvars.len();
        f.actvars.push(LocalVar { name, mon });
        let n = f.actvars.len();
        if n > f.max_slots {
            f.max_slots = n;
        }
        if n as u32 > self.max_locals {
            self.max_locals = n as u32;
        }
        if n as u32 > GREY_LOCALS.1 {
            let fl = self.cur().line;
            return self.err_class(line, format!("too many local variables (limit is {}) in function at line {}", MAX_LOCALS, fl), LoadClass::Limit { what: "locals", count: n as u32 });
        }
        Ok(LocalDecl { slot: slot as u16, mon, name })
    }
    fn find_upval(&mut self, fi: usize, name: StrId) -> PResult<Option<u16>> {
        if let Some(i) = self.fs[fi].upvals.iter().position(|u| u.name == name) {
            return Ok(Some(i as u16));
        }
        if fi == 0 {
            return Ok(None);
        }
        let parent = fi - 1;
        let desc = if let Some(slot) = self.fs[parent].actvars.iter().rposition(|v| v.name == name) {
            UpDesc { from_parent_local: true, idx: slot as u16, name }
        } else {
            match self.find_upval(parent, name)? {
                Some(idx) => UpDesc { from_parent_local: false, idx, name },
                None => return Ok(None),
            }
        };
        let n = self.fs[fi].upvals.len();
        if n + 1 > 255 {
            return self.err_class(self.line, format!("too many upvalues (limit is 255) in function at line {}", self.fs[fi].line), LoadClass::Limit { what: "upvalues", count: n as u32 + 1 });
        }
        self.fs[fi].upvals.push(desc);
        Ok(Some(n as u16))
    }
    /// singlevar: resolve a name to local / upvalue / global.
    pub(crate) fn resolve(&mut self, name: StrId, line: u32) -> PResult<Expr> {
        let fi = self.fs.len() - 1;
        if let Some(slot) = self.fs[fi].actvars.iter().rposition(|v| v.name == name) {
            let mon = self.fs[fi].actvars[slot].mon && self.emitted(line);
            return Ok(Expr::Local(LocalRef { slot: slot as u16, mon, name }));
        }
        let mon = self.is_mon(name, line);
        if let Some(idx) = self.find_upval(fi, name)? {
            return Ok(Expr::Upval(UpRef { idx, mon, name }));
        }
        let rel = (name - self.lx.interner.base) as usize;
        if self.gid_cache.len() <= rel {
            self.gid_cache.resize(rel + 1, u32::MAX);
        }
        let mut gid = self.gid_cache[rel];
        if gid == u32::MAX {
            gid = self.globals.gid(self.lx.interner.get(name));
            self.gid_cache[rel] = gid;
        }
        Ok(Expr::Global(GlobalRef { gid, mon, name }))
    }

    // ---- statements ---------------------------------------------------------------------
    pub(crate) fn block_follow(&self, with_until: bool) -> bool {
        match self.tok {
            Tok::Else | Tok::Elseif | Tok::End | Tok::Eof => true,
            Tok::Until => with_until,
            _ => false,
        }
    }
    /// statlist; the caller has already entered the block scope.
    pub(crate) fn statlist(&mut self, blk: &mut Block) -> PResult<()> {
        while !self.block_follow(true) {
            if self.tok == Tok::Return {
                self.enter_level()?;
                let line = self.line;
                self.advance()?;
                let mut exprs = Vec::new();
                if !self.block_follow(true) && self.tok != Tok::Semi {
                    exprs = self.exprlist()?;
                }
                self.accept(Tok::Semi)?;
                blk.stmts.push(Stmt::Return { exprs, line });
                self.leave_level();
                if !self.block_follow(true) {
                    self.ret_pending = Some(self.span.0);
                }
                return Ok(());
            }
            self.statement(blk)?;
        }
        Ok(())
    }
    /// a nested block with its own scope
    pub(crate) fn block(&mut self, is_loop: bool) -> PResult<Block> {
        let mut b = Block::default();
        self.enter_block(is_loop);
        self.statlist(&mut b)?;
        self.leave_block()?;
        Ok(b)
    }
}
