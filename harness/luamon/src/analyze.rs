//! Post-parse walk: census of the emitted region, register estimate (lcode.c-like), interference origins.
use crate::ast::*;
use std::collections::BTreeSet;

pub struct Analysis {
    pub max_regs: u32,
    pub functions: u32,
    pub written_in_functions: BTreeSet<String>,
    pub written_at_top: BTreeSet<String>,
    pub read: BTreeSet<String>,
    pub require_calls: Vec<(u32, String)>,
    pub origins: Vec<Option<Origin>>,
    pub uses_require: bool,
}

pub struct Analyzer<'c> {
    protos: &'c [Option<Proto>],
    strings: &'c [Box<[u8]>],
    str_base: u32,
    proto_base: u32,
    gid_base: u32,
    func_depth: u32,
    if_depth: u32,
    pub out: Analysis,
}

impl<'c> Analyzer<'c> {
    pub fn new(protos: &'c [Option<Proto>], strings: &'c [Box<[u8]>], str_base: u32, proto_base: u32, gid_base: u32, nglobals: usize) -> Self {
        let out = Analysis {
            max_regs: 0,
            functions: 0,
            written_in_functions: BTreeSet::new(),
            written_at_top: BTreeSet::new(),
            read: BTreeSet::new(),
            require_calls: Vec::new(),
            origins: vec![None; nglobals.saturating_sub(gid_base as usize)],
            uses_require: false,
        };
        Analyzer { protos, strings, str_base, proto_base, gid_base, func_depth: 0, if_depth: 0, out }
    }
    fn s(&self, id: StrId) -> &'c [u8] {
        match self.strings.get(id.wrapping_sub(self.str_base) as usize) {
            Some(b) => b,
            None => b"?",
        }
    }
    fn name(&self, id: StrId) -> String {
        String::from_utf8_lossy(self.s(id)).to_string()
    }
    #[inline]
    fn note(&mut self, n: u32) {
        if n > self.out.max_regs {
            self.out.max_regs = n;
        }
    }
    pub fn proto(&mut self, id: u32) {
        let p = match self.protos.get(id.wrapping_sub(self.proto_base) as usize) {
            Some(Some(p)) => p,
            _ => return,
        };
        let nact = p.nparams as u32;
        self.note(nact);
        self.block(&p.body, nact);
    }
    fn function(&mut self, id: u32) {
        if let Some(Some(p)) = self.protos.get(id.wrapping_sub(self.proto_base) as usize) {
            if p.emitted {
                self.out.functions += 1;
            }
        }
        let saved_if = self.if_depth;
        self.func_depth += 1;
        self.proto(id);
        self.func_depth -= 1;
        self.if_depth = saved_if;
    }
    fn block(&mut self, b: &'c Block, mut nact: u32) {
        for s in &b.stmts {
            nact = self.stmt(s, nact);
        }
    }
    fn is_global_named(&self, e: &Expr, name: &[u8]) -> bool {
        matches!(e, Expr::Global(g) if self.s(g.name) == name)
    }
    fn write_global(&mut self, g: &GlobalRef, rhs: Option<&Expr>) {
        if !g.mon {
            return;
        }
        let n = self.name(g.name);
        if self.func_depth > 0 {
            self.out.written_in_functions.insert(n);
        } else {
            self.out.written_at_top.insert(n);
        }
        let idx = g.gid.wrapping_sub(self.gid_base) as usize;
        if idx < self.out.origins.len() && self.out.origins[idx].is_none() {
            let is_index = match rhs {
                Some(Expr::Call(c)) => self.is_global_named(&c.func, b"__INDEX"),
                _ => false,
            };
            self.out.origins[idx] = Some(if is_index {
                Origin::IndexTemp
            } else if self.if_depth > 0 {
                Origin::ArmAssign
            } else {
                Origin::Plain
            });
        }
    }
    /// registers needed by an lvalue prefix (table + key) placed at `free`; returns count used
    fn target(&mut self, t: &'c Expr, free: u32, rhs: Option<&Expr>) -> u32 {
        match t {
            Expr::Global(g) => {
                self.write_global(g, rhs);
                0
            }
            Expr::Index(ix) => {
                let a = self.to_anyreg(&ix.obj, free, true);
                let b = self.to_rk(&ix.key, free + a);
                a + b
            }
            _ => 0,
        }
    }
    fn stmt(&mut self, s: &'c Stmt, nact: u32) -> u32 {
        match s {
            Stmt::Local { decls, exprs, .. } => {
                for (i, e) in exprs.iter().enumerate() {
                    self.to_next(e, nact + i as u32);
                }
                let n = nact + decls.len() as u32;
                self.note(n);
                n
            }
            Stmt::Assign { targets, exprs, .. } => {
                let mut free = nact;
                for (i, t) in targets.iter().enumerate() {
                    let rhs = if targets.len() == exprs.len() { exprs.get(i) } else { None };
                    free += self.target(t, free, rhs);
                }
                for (i, e) in exprs.iter().enumerate() {
                    self.to_next(e, free + i as u32);
                }
                nact
            }
            Stmt::Call(e, _) => {
                self.to_next(e, nact);
                nact
            }
            Stmt::Do(b) => {
                self.block(b, nact);
                nact
            }
            Stmt::While { cond, body, .. } => {
                self.to_next(cond, nact);
                self.block(body, nact);
                nact
            }
            Stmt::Repeat { body, cond, .. } => {
                // the condition sees the body's locals; count them conservatively
                let mut n = nact;
                for st in &body.stmts {
                    n = self.stmt(st, n);
                }
                self.to_next(cond, n);
                nact
            }
            Stmt::If { arms, orelse, .. } => {
                for (c, b) in arms {
                    self.to_next(c, nact);
                    self.if_depth += 1;
                    self.block(b, nact);
                    self.if_depth -= 1;
                }
                if let Some(b) = orelse {
                    self.if_depth += 1;
                    self.block(b, nact);
                    self.if_depth -= 1;
                }
                nact
            }
            Stmt::NumFor { start, limit, step, body, .. } => {
                self.to_next(start, nact);
                self.to_next(limit, nact + 1);
                if let Some(st) = step {
                    self.to_next(st, nact + 2);
                }
                self.note(nact + 4);
                self.block(body, nact + 4);
                nact
            }
            Stmt::GenFor { vars, exprs, body, .. } => {
                for (i, e) in exprs.iter().enumerate() {
                    self.to_next(e, nact + i as u32);
                }
                self.note(nact + 6);
                let n = nact + 3 + vars.len() as u32;
                self.note(n);
                self.block(body, n);
                nact
            }
            Stmt::LocalFunction { proto, .. } => {
                self.note(nact + 1);
                self.function(*proto);
                nact + 1
            }
            Stmt::Return { exprs, .. } => {
                if exprs.len() == 1 {
                    self.to_anyreg(&exprs[0], nact, false);
                } else {
                    for (i, e) in exprs.iter().enumerate() {
                        self.to_next(e, nact + i as u32);
                    }
                }
                nact
            }
            Stmt::Break(_) | Stmt::Goto { .. } => nact,
        }
    }
    fn to_rk(&mut self, e: &'c Expr, free: u32) -> u32 {
        match e {
            Expr::Nil | Expr::True | Expr::False | Expr::Int(_) | Expr::Num(_) | Expr::Str(_) | Expr::Local(_) => 0,
            _ => {
                self.to_next(e, free);
                1
            }
        }
    }
    fn to_anyreg(&mut self, e: &'c Expr, free: u32, upval_ok: bool) -> u32 {
        match e {
            Expr::Local(_) => 0,
            Expr::Upval(_) if upval_ok => 0,
            Expr::Paren(inner) if matches!(**inner, Expr::Local(_)) => 0,
            _ => {
                self.to_next(e, free);
                1
            }
        }
    }
    fn call(&mut self, func: &'c Expr, args: &'c [Expr], free: u32, method: bool) {
        self.to_next(func, free);
        let base = free + 1 + method as u32;
        for (i, a) in args.iter().enumerate() {
            self.to_next(a, base + i as u32);
        }
        self.note(base + args.len() as u32);
    }
    /// evaluate `e` into register `free`
    fn to_next(&mut self, e: &'c Expr, free: u32) {
        self.note(free + 1);
        match e {
            Expr::Nil | Expr::True | Expr::False | Expr::Int(_) | Expr::Num(_) | Expr::Str(_) | Expr::Vararg | Expr::Local(_) | Expr::Upval(_) => {}
            Expr::Global(g) => {
                if g.mon {
                    let n = self.name(g.name);
                    self.out.read.insert(n);
                }
            }
            Expr::Function(id) => self.function(*id),
            Expr::Index(ix) => {
                let a = self.to_anyreg(&ix.obj, free, true);
                self.to_rk(&ix.key, free + a);
            }
            Expr::Call(c) => {
                if self.is_global_named(&c.func, b"require") {
                    self.out.uses_require = true;
                    let arg = match c.args.first() {
                        Some(Expr::Str(s)) if c.args.len() == 1 => self.name(*s),
                        _ => "?".to_string(),
                    };
                    self.out.require_calls.push((c.line, arg));
                }
                self.call(&c.func, &c.args, free, false);
            }
            Expr::Method(m) => self.call(&m.obj, &m.args, free, true),
            Expr::Bin(b) => {
                if b.op == BinOp::Concat {
                    self.to_next(&b.l, free);
                    self.to_next(&b.r, free + 1);
                } else {
                    let a = self.to_rk(&b.l, free);
                    self.to_rk(&b.r, free + a);
                }
            }
            Expr::And(p) | Expr::Or(p) => {
                self.to_anyreg(&p.0, free, false);
                self.to_next(&p.1, free);
            }
            Expr::Un(u) => {
                self.to_anyreg(&u.e, free, false);
            }
            Expr::Paren(inner) => self.to_next(inner, free),
            Expr::Table(t) => {
                let mut pending = 0u32;
                for it in &t.items {
                    match it {
                        TItem::Pos(v) => {
                            self.to_next(v, free + 1 + pending);
                            pending += 1;
                            if pending == 50 {
                                pending = 0;
                            }
                        }
                        TItem::Named(_, v) => {
                            self.to_rk(v, free + 1 + pending);
                        }
                        TItem::Keyed(k, v) => {
                            let a = self.to_rk(k, free + 1 + pending);
                            self.to_rk(v, free + 1 + pending + a);
                        }
                    }
                }
            }
        }
    }
}
