//! Number formatting ("%.14g" and printf-style conversions) and numeral parsing (luaO_str2num).

#[derive(Clone, Copy, Debug, PartialEq)]
pub enum Numeral {
    Int(i64),
    Flt(f64),
}

#[derive(Clone, Copy, Default, Debug)]
pub struct Spec {
    pub left: bool,
    pub plus: bool,
    pub space: bool,
    pub alt: bool,
    pub zero: bool,
    pub width: usize,
    pub prec: Option<usize>,
}

fn nonfinite(f: f64, upper: bool) -> Option<String> {
    if f.is_nan() {
        let s = if f.is_sign_negative() { "-nan" } else { "nan" };
        return Some(if upper { s.to_uppercase() } else { s.to_string() });
    }
    if f.is_infinite() {
        let s = if f < 0.0 { "-inf" } else { "inf" };
        return Some(if upper { s.to_uppercase() } else { s.to_string() });
    }
    None
}

/// digits (exactly `p` significant, correctly rounded) and decimal exponent of |f| (f finite).
fn sci_digits(f: f64, p: usize) -> (Vec<u8>, i32) {
    if f == 0.0 {
        return (vec![b'0'; p], 0);
    }
    let s = format!("{:.*e}", p - 1, f.abs());
    let (mant, exp) = match s.split_once('e') {
        Some(x) => x,
        None => (s.as_str(), "0"),
    };
    let digits: Vec<u8> = mant.bytes().filter(|b| b.is_ascii_digit()).collect();
    (digits, exp.parse::<i32>().unwrap_or(0))
}

fn exp_suffix(out: &mut String, x: i32, upper: bool) {
    out.push(if upper { 'E' } else { 'e' });
    out.push(if x < 0 { '-' } else { '+' });
    let a = x.unsigned_abs();
    if a < 10 {
        out.push('0');
    }
    out.push_str(&a.to_string());
}

/// C's %g body (no sign, no padding) for finite f.
fn g_body(f: f64, prec: usize, alt: bool, upper: bool) -> String {
    let p = if prec == 0 { 1 } else { prec };
    let (d, x) = sci_digits(f, p);
    let mut out = String::new();
    let strip = |s: &mut String| {
        if s.contains('.') {
            while s.ends_with('0') {
                s.pop();
            }
            if s.ends_with('.') {
                s.pop();
            }
        }
    };
    if x < -4 || x >= p as i32 {
        out.push(d[0] as char);
        if p > 1 || alt {
            out.push('.');
        }
        for b in &d[1..] {
            out.push(*b as char);
        }
        if !alt {
            strip(&mut out);
        }
        exp_suffix(&mut out, x, upper);
    } else if x >= 0 {
        let ip = x as usize + 1;
        for b in &d[..ip] {
            out.push(*b as char);
        }
        if ip < p || alt {
            out.push('.');
        }
        for b in &d[ip..] {
            out.push(*b as char);
        }
        if !alt {
            strip(&mut out);
        }
    } else {
        out.push_str("0.");
        for _ in 0..(-x - 1) {
            out.push('0');
        }
        for b in &d {
            out.push(*b as char);
        }
        if !alt {
            strip(&mut out);
        }
    }
    out
}

fn e_body(f: f64, prec: usize, alt: bool, upper: bool) -> String {
    let (d, x) = sci_digits(f, prec + 1);
    let mut out = String::new();
    out.push(d[0] as char);
    if prec > 0 || alt {
        out.push('.');
    }
    for b in &d[1..] {
        out.push(*b as char);
    }
    exp_suffix(&mut out, x, upper);
    out
}

fn pad(sign: &str, body: String, spec: &Spec, allow_zero: bool) -> String {
    let len = sign.len() + body.len();
    if len >= spec.width {
        return format!("{}{}", sign, body);
    }
    let fill = spec.width - len;
    if spec.left {
        format!("{}{}{}", sign, body, " ".repeat(fill))
    } else if spec.zero && allow_zero {
        format!("{}{}{}", sign, "0".repeat(fill), body)
    } else {
        format!("{}{}{}", " ".repeat(fill), sign, body)
    }
}

fn sign_of(neg: bool, spec: &Spec) -> &'static str {
    if neg {
        "-"
    } else if spec.plus {
        "+"
    } else if spec.space {
        " "
    } else {
        ""
    }
}

/// conv in "fFeEgG"
pub fn fmt_float(f: f64, spec: &Spec, conv: u8) -> String {
    let upper = conv.is_ascii_uppercase();
    if let Some(s) = nonfinite(f, upper) {
        let (neg, body) = match s.strip_prefix('-') {
            Some(r) => (true, r.to_string()),
            None => (false, s),
        };
        return pad(sign_of(neg, spec), body, spec, false);
    }
    let neg = f.is_sign_negative();
    let prec = spec.prec.unwrap_or(6);
    let body = match conv {
        b'f' | b'F' => {
            let mut s = format!("{:.*}", prec.min(400), f.abs());
            if prec == 0 && spec.alt {
                s.push('.');
            }
            s
        }
        b'e' | b'E' => e_body(f, prec.min(400), spec.alt, upper),
        _ => g_body(f, prec.min(400), spec.alt, upper),
    };
    pad(sign_of(neg, spec), body, spec, true)
}

/// conv in "di"
pub fn fmt_int(i: i64, spec: &Spec) -> String {
    let mut body = i.unsigned_abs().to_string();
    if let Some(p) = spec.prec {
        if p == 0 && i == 0 {
            body.clear();
        }
        while body.len() < p {
            body.insert(0, '0');
        }
    }
    pad(sign_of(i < 0, spec), body, spec, spec.prec.is_none())
}

/// conv in "xXou" (value reinterpreted as unsigned 64 bit)
pub fn fmt_uint(i: i64, spec: &Spec, conv: u8) -> String {
    let u = i as u64;
    let mut body = match conv {
        b'x' => format!("{:x}", u),
        b'X' => format!("{:X}", u),
        b'o' => format!("{:o}", u),
        _ => u.to_string(),
    };
    if let Some(p) = spec.prec {
        if p == 0 && u == 0 {
            body.clear();
        }
        while body.len() < p {
            body.insert(0, '0');
        }
    }
    if spec.alt && u != 0 {
        match conv {
            b'x' => body.insert_str(0, "0x"),
            b'X' => body.insert_str(0, "0X"),
            b'o' => body.insert(0, '0'),
            _ => {}
        }
    }
    pad("", body, spec, spec.prec.is_none())
}

pub fn fmt_str(s: &[u8], spec: &Spec) -> Vec<u8> {
    let s = match spec.prec {
        Some(p) if p < s.len() => &s[..p],
        _ => s,
    };
    if s.len() >= spec.width {
        return s.to_vec();
    }
    let fill = vec![b' '; spec.width - s.len()];
    let mut out = Vec::with_capacity(spec.width);
    if spec.left {
        out.extend_from_slice(s);
        out.extend_from_slice(&fill);
    } else {
        out.extend_from_slice(&fill);
        out.extend_from_slice(s);
    }
    out
}

/// Lua 5.3 tostring for floats: "%.14g", plus ".0" when the result looks like an integer.
pub fn tostring_number_f64(f: f64) -> String {
    if let Some(s) = nonfinite(f, false) {
        return s;
    }
    let mut s = String::new();
    if f.is_sign_negative() {
        s.push('-');
    }
    s.push_str(&g_body(f, 14, false, false));
    if s.bytes().all(|b| b == b'-' || b.is_ascii_digit()) {
        s.push_str(".0");
    }
    s
}

pub fn tostring_number_i64(i: i64) -> String {
    i.to_string()
}

#[inline]
fn is_space(b: u8) -> bool {
    matches!(b, b' ' | b'\t' | b'\n' | 0x0b | 0x0c | b'\r')
}

fn hexval(b: u8) -> Option<u32> {
    (b as char).to_digit(16)
}

fn str2int(s: &[u8]) -> Option<i64> {
    let mut i = 0;
    while i < s.len() && is_space(s[i]) {
        i += 1;
    }
    let mut neg = false;
    if i < s.len() && (s[i] == b'-' || s[i] == b'+') {
        neg = s[i] == b'-';
        i += 1;
    }
    let mut a: u64 = 0;
    let mut empty = true;
    if i + 1 < s.len() && s[i] == b'0' && (s[i + 1] == b'x' || s[i + 1] == b'X') {
        i += 2;
        while i < s.len() {
            match hexval(s[i]) {
                Some(d) => a = a.wrapping_mul(16).wrapping_add(d as u64),
                None => break,
            }
            empty = false;
            i += 1;
        }
    } else {
        while i < s.len() && s[i].is_ascii_digit() {
            let d = (s[i] - b'0') as u64;
            let maxby10 = (i64::MAX as u64) / 10;
            let maxlast = (i64::MAX as u64) % 10;
            if a > maxby10 || (a == maxby10 && d > maxlast + neg as u64) {
                return None;
            }
            a = a * 10 + d;
            empty = false;
            i += 1;
        }
    }
    while i < s.len() && is_space(s[i]) {
        i += 1;
    }
    if empty || i != s.len() {
        return None;
    }
    Some(if neg { (0u64.wrapping_sub(a)) as i64 } else { a as i64 })
}

fn hexfloat(s: &[u8]) -> Option<(f64, usize)> {
    // s starts after optional sign, at "0x"
    let mut i = 2;
    let mut r: f64 = 0.0;
    let mut sig = 0;
    let mut nosig = 0;
    let mut e: i32 = 0;
    let mut hasdot = false;
    loop {
        if i < s.len() && s[i] == b'.' {
            if hasdot {
                break;
            }
            hasdot = true;
        } else if i < s.len() && hexval(s[i]).is_some() {
            let d = hexval(s[i]).unwrap_or(0);
            if sig == 0 && d == 0 {
                nosig += 1;
            } else {
                sig += 1;
                if sig <= 30 {
                    r = r * 16.0 + d as f64;
                } else {
                    e += 1;
                }
            }
            if hasdot {
                e -= 1;
            }
        } else {
            break;
        }
        i += 1;
    }
    if nosig + sig == 0 {
        return None;
    }
    e *= 4;
    if i < s.len() && (s[i] == b'p' || s[i] == b'P') {
        i += 1;
        let mut neg = false;
        if i < s.len() && (s[i] == b'-' || s[i] == b'+') {
            neg = s[i] == b'-';
            i += 1;
        }
        if i >= s.len() || !s[i].is_ascii_digit() {
            return None;
        }
        let mut x: i32 = 0;
        while i < s.len() && s[i].is_ascii_digit() {
            x = x.saturating_mul(10).saturating_add((s[i] - b'0') as i32);
            i += 1;
        }
        e = e.saturating_add(if neg { -x } else { x });
    }
    let e = e.clamp(-5000, 5000);
    // ldexp in two steps to avoid premature overflow/underflow
    let h = e / 2;
    Some((r * 2f64.powi(h) * 2f64.powi(e - h), i))
}

fn str2flt(s: &[u8]) -> Option<f64> {
    if s.iter().any(|b| *b == b'n' || *b == b'N') {
        return None;
    }
    let mut i = 0;
    while i < s.len() && is_space(s[i]) {
        i += 1;
    }
    let start = i;
    let mut neg = false;
    if i < s.len() && (s[i] == b'-' || s[i] == b'+') {
        neg = s[i] == b'-';
        i += 1;
    }
    let val;
    if i + 1 < s.len() && s[i] == b'0' && (s[i + 1] == b'x' || s[i + 1] == b'X') {
        let (v, used) = hexfloat(&s[i..])?;
        val = if neg { -v } else { v };
        i += used;
    } else {
        let mut nd = 0;
        while i < s.len() && s[i].is_ascii_digit() {
            i += 1;
            nd += 1;
        }
        if i < s.len() && s[i] == b'.' {
            i += 1;
            while i < s.len() && s[i].is_ascii_digit() {
                i += 1;
                nd += 1;
            }
        }
        if nd == 0 {
            return None;
        }
        if i < s.len() && (s[i] == b'e' || s[i] == b'E') {
            let mut j = i + 1;
            if j < s.len() && (s[j] == b'-' || s[j] == b'+') {
                j += 1;
            }
            if j < s.len() && s[j].is_ascii_digit() {
                while j < s.len() && s[j].is_ascii_digit() {
                    j += 1;
                }
                i = j;
            }
        }
        let text = std::str::from_utf8(&s[start..i]).ok()?;
        val = text.parse::<f64>().ok()?;
    }
    while i < s.len() && is_space(s[i]) {
        i += 1;
    }
    if i != s.len() {
        return None;
    }
    Some(val)
}

/// luaO_str2num: whole string must be a numeral (surrounding whitespace allowed).
pub fn str2number(s: &[u8]) -> Option<Numeral> {
    if let Some(i) = str2int(s) {
        return Some(Numeral::Int(i));
    }
    str2flt(s).map(Numeral::Flt)
}

#[cfg(test)]
mod tests {
    use super::*;
    extern "C" {
        fn snprintf(buf: *mut u8, n: usize, fmt: *const u8, ...) -> i32;
    }
    fn c_g14(f: f64) -> String {
        let mut buf = [0u8; 64];
        let n = unsafe { snprintf(buf.as_mut_ptr(), 64, b"%.14g\0".as_ptr(), f) };
        String::from_utf8_lossy(&buf[..n.max(0) as usize]).to_string()
    }
    #[test]
    fn g14_matches_libc() {
        let mut x: u64 = 0x9E3779B97F4A7C15;
        let mut checked = 0;
        for round in 0..12000u64 {
            x ^= x << 13;
            x ^= x >> 7;
            x ^= x << 17;
            let f = match round % 4 {
                0 => f64::from_bits(x),
                1 => (x % 2_000_000) as f64 / 1000.0 - 1000.0,
                2 => (x as i64) as f64 / 65536.0,
                _ => ((x % 100000) as f64) * 10f64.powi((x >> 40) as i32 % 40 - 20),
            };
            if f.is_nan() {
                continue;
            }
            let mine = fmt_float(f, &Spec { prec: Some(14), ..Default::default() }, b'g');
            assert_eq!(mine, c_g14(f), "bits {:#x}", f.to_bits());
            checked += 1;
        }
        assert!(checked > 10000);
    }
    #[test]
    fn basics() {
        assert_eq!(tostring_number_f64(1e15), "1e+15");
        assert_eq!(tostring_number_f64(2f64.powi(53)), "9.007199254741e+15");
        assert_eq!(tostring_number_f64(5.0), "5.0");
        assert_eq!(tostring_number_f64(-0.0), "-0.0");
        assert_eq!(tostring_number_f64(0.1), "0.1");
        assert_eq!(tostring_number_f64(1.0 / 3.0), "0.33333333333333");
        assert_eq!(tostring_number_f64(1e100), "1e+100");
        assert_eq!(tostring_number_f64(1e-5), "1e-05");
        assert_eq!(tostring_number_f64(0.0001), "0.0001");
        assert_eq!(tostring_number_f64(f64::INFINITY), "inf");
        assert_eq!(tostring_number_f64(123456789012345678.0), "1.2345678901235e+17");
        assert_eq!(str2number(b"10"), Some(Numeral::Int(10)));
        assert_eq!(str2number(b" 0x10 "), Some(Numeral::Int(16)));
        assert_eq!(str2number(b"1e1"), Some(Numeral::Flt(10.0)));
        assert_eq!(str2number(b"0x.8"), Some(Numeral::Flt(0.5)));
        assert_eq!(str2number(b"0x1p4"), Some(Numeral::Flt(16.0)));
        assert_eq!(str2number(b"9223372036854775808"), Some(Numeral::Flt(9223372036854775808.0)));
        assert_eq!(str2number(b"-9223372036854775808"), Some(Numeral::Int(i64::MIN)));
        assert_eq!(str2number(b"1e"), None);
        assert_eq!(str2number(b"inf"), None);
        assert_eq!(str2number(b""), None);
        assert_eq!(str2number(b"0x"), None);
        assert_eq!(str2number(b"1 2"), None);
        assert_eq!(str2number(b".5"), Some(Numeral::Flt(0.5)));
        assert_eq!(str2number(b"5."), Some(Numeral::Flt(5.0)));
        let sp = Spec { prec: Some(2), ..Default::default() };
        assert_eq!(fmt_float(3.14159, &sp, b'f'), "3.14");
        let sp = Spec { width: 5, zero: true, ..Default::default() };
        assert_eq!(fmt_int(-42, &sp), "-0042");
        assert_eq!(fmt_float(1234567.0, &Spec::default(), b'g'), "1.23457e+06");
        assert_eq!(fmt_float(0.5, &Spec::default(), b'e'), "5.000000e-01");
    }
}
