//! Lexer following llex.c (Lua 5.3).
use crate::numfmt::{str2number, Numeral};
use crate::value::FxMap;

#[derive(Debug, Clone, Copy, PartialEq)]
pub enum Tok {
    Eof,
    Name(u32),
    Str(u32),
    Int(i64),
    Num(f64),
    And, Break, Do, Else, Elseif, End, False, For, Function, Goto, If, In, Local, Nil, Not, Or,
    Repeat, Return, Then, True, Until, While,
    Plus, Minus, Star, Slash, DSlash, Percent, Caret, Hash, Amp, Tilde, Pipe, Shl, Shr,
    Eq, Ne, Le, Ge, Lt, Gt, Assign, LParen, RParen, LBrace, RBrace, LBracket, RBracket,
    DColon, Semi, Colon, Comma, Dot, Concat, Ellipsis,
}

#[derive(Default)]
pub struct Interner {
    map: FxMap<Box<[u8]>, u32>,
    pub strings: Vec<Box<[u8]>>,
    pub base: u32,
}

impl Interner {
    pub fn intern(&mut self, s: &[u8]) -> u32 {
        if let Some(i) = self.map.get(s) {
            return *i;
        }
        let id = self.base + self.strings.len() as u32;
        self.strings.push(s.into());
        self.map.insert(s.into(), id);
        id
    }
    pub fn get(&self, id: u32) -> &[u8] {
        match self.strings.get((id - self.base) as usize) {
            Some(s) => s,
            None => b"?",
        }
    }
}

pub struct LexError {
    pub line: u32,
    pub msg: String,
}

pub struct Lexer<'a> {
    src: &'a [u8],
    pos: usize,
    pub line: u32,
    pub interner: Interner,
    /// source span of the token returned last (for "near" messages)
    pub tok_start: usize,
    pub tok_end: usize,
}

fn keyword(s: &[u8]) -> Option<Tok> {
    Some(match s {
        b"and" => Tok::And,
        b"break" => Tok::Break,
        b"do" => Tok::Do,
        b"else" => Tok::Else,
        b"elseif" => Tok::Elseif,
        b"end" => Tok::End,
        b"false" => Tok::False,
        b"for" => Tok::For,
        b"function" => Tok::Function,
        b"goto" => Tok::Goto,
        b"if" => Tok::If,
        b"in" => Tok::In,
        b"local" => Tok::Local,
        b"nil" => Tok::Nil,
        b"not" => Tok::Not,
        b"or" => Tok::Or,
        b"repeat" => Tok::Repeat,
        b"return" => Tok::Return,
        b"then" => Tok::Then,
        b"true" => Tok::True,
        b"until" => Tok::Until,
        b"while" => Tok::While,
        _ => return None,
    })
}

impl<'a> Lexer<'a> {
    pub fn new(src: &'a str, str_base: u32) -> Lexer<'a> {
        let b = src.as_bytes();
        let mut pos = 0;
        if b.starts_with(&[0xEF, 0xBB, 0xBF]) {
            pos = 3;
        }
        if b.get(pos) == Some(&b'#') {
            while pos < b.len() && b[pos] != b'\n' {
                pos += 1;
            }
        }
        let interner = Interner { base: str_base, ..Default::default() };
        Lexer { src: b, pos, line: 1, interner, tok_start: 0, tok_end: 0 }
    }
    #[inline]
    fn cur(&self) -> u8 {
        if self.pos < self.src.len() { self.src[self.pos] } else { 0 }
    }
    #[inline]
    fn at(&self, off: usize) -> u8 {
        if self.pos + off < self.src.len() { self.src[self.pos + off] } else { 0 }
    }
    #[inline]
    fn eof(&self) -> bool {
        self.pos >= self.src.len()
    }
    #[allow(dead_code)]
    pub fn token_text(&self) -> String {
        if self.tok_start >= self.src.len() || self.tok_end <= self.tok_start {
            return "<eof>".to_string();
        }
        String::from_utf8_lossy(&self.src[self.tok_start..self.tok_end.min(self.src.len())]).to_string()
    }
    pub fn slice(&self, a: usize, b: usize) -> String {
        let b = b.min(self.src.len());
        if a >= b {
            return "<eof>".to_string();
        }
        String::from_utf8_lossy(&self.src[a..b]).to_string()
    }
    fn err_near<T>(&self, msg: &str, start: usize) -> Result<T, LexError> {
        let end = self.pos.min(self.src.len());
        let near = if start >= end { "<eof>".to_string() } else { String::from_utf8_lossy(&self.src[start..end]).to_string() };
        Err(LexError { line: self.line, msg: format!("{} near '{}'", msg, near) })
    }
    fn newline(&mut self) {
        let old = self.cur();
        self.pos += 1;
        let c = self.cur();
        if (c == b'\n' || c == b'\r') && c != old && !self.eof() {
            self.pos += 1;
        }
        self.line += 1;
    }
    /// at '[': returns Some(level) if it opens a long bracket
    fn long_level(&self) -> Option<usize> {
        let mut i = 1;
        while self.at(i) == b'=' {
            i += 1;
        }
        if self.at(i) == b'[' { Some(i - 1) } else { None }
    }
    fn read_long(&mut self, level: usize, start: usize, is_str: bool) -> Result<Vec<u8>, LexError> {
        self.pos += level + 2;
        let c = self.cur();
        if !self.eof() && (c == b'\n' || c == b'\r') {
            self.newline();
        }
        let mut out = Vec::new();
        loop {
            if self.eof() {
                let what = if is_str { "unfinished long string" } else { "unfinished long comment" };
                let _ = start;
                return Err(LexError { line: self.line, msg: format!("{} near '<eof>'", what) });
            }
            let c = self.cur();
            if c == b']' {
                let mut i = 1;
                while self.at(i) == b'=' {
                    i += 1;
                }
                if i - 1 == level && self.at(i) == b']' {
                    self.pos += level + 2;
                    return Ok(out);
                }
                out.push(c);
                self.pos += 1;
            } else if c == b'\n' || c == b'\r' {
                out.push(b'\n');
                self.newline();
            } else {
                if is_str {
                    out.push(c);
                }
                self.pos += 1;
            }
        }
    }
    fn read_string(&mut self, delim: u8) -> Result<Vec<u8>, LexError> {
        let start = self.pos;
        self.pos += 1;
        let mut out = Vec::new();
        loop {
            if self.eof() {
                return Err(LexError { line: self.line, msg: "unfinished string near '<eof>'".into() });
            }
            let c = self.cur();
            if c == delim {
                self.pos += 1;
                return Ok(out);
            }
            match c {
                b'\n' | b'\r' => return self.err_near("unfinished string", start),
                b'\\' => {
                    self.pos += 1;
                    if self.eof() {
                        return Err(LexError { line: self.line, msg: "unfinished string near '<eof>'".into() });
                    }
                    let e = self.cur();
                    let simple = match e {
                        b'a' => Some(7u8),
                        b'b' => Some(8),
                        b'f' => Some(12),
                        b'n' => Some(b'\n'),
                        b'r' => Some(b'\r'),
                        b't' => Some(b'\t'),
                        b'v' => Some(11),
                        b'\\' => Some(b'\\'),
                        b'"' => Some(b'"'),
                        b'\'' => Some(b'\''),
                        _ => None,
                    };
                    if let Some(b) = simple {
                        out.push(b);
                        self.pos += 1;
                        continue;
                    }
                    match e {
                        b'\n' | b'\r' => {
                            self.newline();
                            out.push(b'\n');
                        }
                        b'x' => {
                            self.pos += 1;
                            let mut v = 0u32;
                            for _ in 0..2 {
                                match (self.cur() as char).to_digit(16) {
                                    Some(d) if !self.eof() => v = v * 16 + d,
                                    _ => {
                                        self.pos = (self.pos + 1).min(self.src.len());
                                        return self.err_near("hexadecimal digit expected", start);
                                    }
                                }
                                self.pos += 1;
                            }
                            out.push(v as u8);
                        }
                        b'z' => {
                            self.pos += 1;
                            while !self.eof() && matches!(self.cur(), b' ' | b'\t' | b'\n' | b'\r' | 0x0b | 0x0c) {
                                if self.cur() == b'\n' || self.cur() == b'\r' {
                                    self.newline();
                                } else {
                                    self.pos += 1;
                                }
                            }
                        }
                        b'u' => {
                            self.pos += 1;
                            if self.cur() != b'{' {
                                self.pos = (self.pos + 1).min(self.src.len());
                                return self.err_near("missing '{' in \\u{xxxx}", start);
                            }
                            self.pos += 1;
                            let mut v: u64 = 0;
                            let mut n = 0;
                            while let Some(d) = (self.cur() as char).to_digit(16) {
                                if self.eof() {
                                    break;
                                }
                                v = v * 16 + d as u64;
                                n += 1;
                                self.pos += 1;
                                if v > 0x7FFF_FFFF {
                                    return self.err_near("UTF-8 value too large", start);
                                }
                            }
                            if n == 0 {
                                self.pos = (self.pos + 1).min(self.src.len());
                                return self.err_near("hexadecimal digit expected", start);
                            }
                            if self.cur() != b'}' {
                                self.pos = (self.pos + 1).min(self.src.len());
                                return self.err_near("missing '}' in \\u{xxxx}", start);
                            }
                            self.pos += 1;
                            utf8_esc(v as u32, &mut out);
                        }
                        b'0'..=b'9' => {
                            let mut v = 0u32;
                            let mut n = 0;
                            while n < 3 && self.cur().is_ascii_digit() && !self.eof() {
                                v = v * 10 + (self.cur() - b'0') as u32;
                                self.pos += 1;
                                n += 1;
                            }
                            if v > 255 {
                                self.pos = (self.pos + 1).min(self.src.len());
                                return self.err_near("decimal escape too large", start);
                            }
                            out.push(v as u8);
                        }
                        _ => {
                            self.pos += 1;
                            return self.err_near("invalid escape sequence", start);
                        }
                    }
                }
                _ => {
                    out.push(c);
                    self.pos += 1;
                }
            }
        }
    }
    fn read_numeral(&mut self) -> Result<Tok, LexError> {
        let start = self.pos;
        let first = self.cur();
        self.pos += 1;
        let mut expo: &[u8] = b"Ee";
        if first == b'0' && (self.cur() == b'x' || self.cur() == b'X') {
            expo = b"Pp";
            self.pos += 1;
        }
        loop {
            let c = self.cur();
            if self.eof() {
                break;
            }
            if expo.contains(&c) {
                self.pos += 1;
                if self.cur() == b'-' || self.cur() == b'+' {
                    self.pos += 1;
                }
            } else if c.is_ascii_hexdigit() || c == b'.' {
                self.pos += 1;
            } else {
                break;
            }
        }
        if !self.eof() && (self.cur().is_ascii_alphabetic() || self.cur() == b'_') {
            self.pos += 1;
        }
        match str2number(&self.src[start..self.pos]) {
            Some(Numeral::Int(i)) => Ok(Tok::Int(i)),
            Some(Numeral::Flt(f)) => Ok(Tok::Num(f)),
            None => self.err_near("malformed number", start),
        }
    }
    pub fn next(&mut self) -> Result<Tok, LexError> {
        let t = self.next_inner();
        self.tok_end = self.pos;
        t
    }
    fn next_inner(&mut self) -> Result<Tok, LexError> {
        loop {
            self.tok_start = self.pos;
            if self.eof() {
                return Ok(Tok::Eof);
            }
            let c = self.cur();
            let two = |me: &mut Self, next: u8, yes: Tok, no: Tok| {
                me.pos += 1;
                if me.cur() == next && !me.eof() {
                    me.pos += 1;
                    yes
                } else {
                    no
                }
            };
            return Ok(match c {
                b'\n' | b'\r' => {
                    self.newline();
                    continue;
                }
                b' ' | b'\t' | 0x0b | 0x0c => {
                    self.pos += 1;
                    continue;
                }
                b'-' => {
                    if self.at(1) != b'-' {
                        self.pos += 1;
                        return Ok(Tok::Minus);
                    }
                    self.pos += 2;
                    if self.cur() == b'[' && !self.eof() {
                        if let Some(level) = self.long_level() {
                            let st = self.pos;
                            self.read_long(level, st, false)?;
                            continue;
                        }
                    }
                    while !self.eof() && self.cur() != b'\n' && self.cur() != b'\r' {
                        self.pos += 1;
                    }
                    continue;
                }
                b'[' => {
                    if let Some(level) = self.long_level() {
                        let st = self.pos;
                        let s = self.read_long(level, st, true)?;
                        Tok::Str(self.interner.intern(&s))
                    } else if self.at(1) == b'=' {
                        self.pos += 2;
                        return self.err_near("invalid long string delimiter", self.tok_start);
                    } else {
                        self.pos += 1;
                        Tok::LBracket
                    }
                }
                b'=' => two(self, b'=', Tok::Eq, Tok::Assign),
                b'<' => {
                    if self.at(1) == b'<' {
                        self.pos += 2;
                        Tok::Shl
                    } else {
                        two(self, b'=', Tok::Le, Tok::Lt)
                    }
                }
                b'>' => {
                    if self.at(1) == b'>' {
                        self.pos += 2;
                        Tok::Shr
                    } else {
                        two(self, b'=', Tok::Ge, Tok::Gt)
                    }
                }
                b'/' => two(self, b'/', Tok::DSlash, Tok::Slash),
                b'~' => two(self, b'=', Tok::Ne, Tok::Tilde),
                b':' => two(self, b':', Tok::DColon, Tok::Colon),
                b'"' | b'\'' => {
                    let s = self.read_string(c)?;
                    Tok::Str(self.interner.intern(&s))
                }
                b'.' => {
                    if self.at(1) == b'.' {
                        if self.at(2) == b'.' {
                            self.pos += 3;
                            Tok::Ellipsis
                        } else {
                            self.pos += 2;
                            Tok::Concat
                        }
                    } else if self.at(1).is_ascii_digit() {
                        self.read_numeral()?
                    } else {
                        self.pos += 1;
                        Tok::Dot
                    }
                }
                b'0'..=b'9' => self.read_numeral()?,
                b'+' => { self.pos += 1; Tok::Plus }
                b'*' => { self.pos += 1; Tok::Star }
                b'%' => { self.pos += 1; Tok::Percent }
                b'^' => { self.pos += 1; Tok::Caret }
                b'#' => { self.pos += 1; Tok::Hash }
                b'&' => { self.pos += 1; Tok::Amp }
                b'|' => { self.pos += 1; Tok::Pipe }
                b'(' => { self.pos += 1; Tok::LParen }
                b')' => { self.pos += 1; Tok::RParen }
                b'{' => { self.pos += 1; Tok::LBrace }
                b'}' => { self.pos += 1; Tok::RBrace }
                b']' => { self.pos += 1; Tok::RBracket }
                b';' => { self.pos += 1; Tok::Semi }
                b',' => { self.pos += 1; Tok::Comma }
                _ => {
                    if c.is_ascii_alphabetic() || c == b'_' {
                        let st = self.pos;
                        while !self.eof() && (self.cur().is_ascii_alphanumeric() || self.cur() == b'_') {
                            self.pos += 1;
                        }
                        let s = &self.src[st..self.pos];
                        match keyword(s) {
                            Some(k) => k,
                            None => Tok::Name(self.interner.intern(s)),
                        }
                    } else {
                        // single-char token that the parser will reject: "unexpected symbol near 'c'"
                        self.pos += 1;
                        while self.pos < self.src.len() && (self.src[self.pos] & 0xC0) == 0x80 {
                            self.pos += 1;
                        }
                        return self.err_near("unexpected symbol", self.tok_start);
                    }
                }
            });
        }
    }
}

fn utf8_esc(x: u32, out: &mut Vec<u8>) {
    if x < 0x80 {
        out.push(x as u8);
        return;
    }
    let mut buf = [0u8; 8];
    let mut n = 1;
    let mut x = x;
    let mut mfb: u32 = 0x3f;
    loop {
        buf[8 - n] = (0x80 | (x & 0x3f)) as u8;
        n += 1;
        x >>= 6;
        mfb >>= 1;
        if x <= mfb {
            break;
        }
    }
    buf[8 - n] = (((!mfb) << 1) | x) as u8;
    out.extend_from_slice(&buf[8 - n..]);
}
