//! Expression parsing (precedence climbing as in lparser.c `subexpr`).
use crate::ast::*;
use crate::lexer::Tok;
use crate::parser::*;

const UNARY_PRIORITY: u8 = 12;

fn binop(t: Tok) -> Option<(BinOp, u8, u8, bool, bool)> {
    // (op, left prio, right prio, is_and, is_or)
    Some(match t {
        Tok::Plus => (BinOp::Add, 10, 10, false, false),
        Tok::Minus => (BinOp::Sub, 10, 10, false, false),
        Tok::Star => (BinOp::Mul, 11, 11, false, false),
        Tok::Slash => (BinOp::Div, 11, 11, false, false),
        Tok::DSlash => (BinOp::IDiv, 11, 11, false, false),
        Tok::Percent => (BinOp::Mod, 11, 11, false, false),
        Tok::Caret => (BinOp::Pow, 14, 13, false, false),
        Tok::Concat => (BinOp::Concat, 9, 8, false, false),
        Tok::Shl => (BinOp::Shl, 7, 7, false, false),
        Tok::Shr => (BinOp::Shr, 7, 7, false, false),
        Tok::Amp => (BinOp::BAnd, 6, 6, false, false),
        Tok::Tilde => (BinOp::BXor, 5, 5, false, false),
        Tok::Pipe => (BinOp::BOr, 4, 4, false, false),
        Tok::Eq => (BinOp::Eq, 3, 3, false, false),
        Tok::Ne => (BinOp::Ne, 3, 3, false, false),
        Tok::Lt => (BinOp::Lt, 3, 3, false, false),
        Tok::Le => (BinOp::Le, 3, 3, false, false),
        Tok::Gt => (BinOp::Gt, 3, 3, false, false),
        Tok::Ge => (BinOp::Ge, 3, 3, false, false),
        Tok::And => (BinOp::Eq, 2, 2, true, false),
        Tok::Or => (BinOp::Eq, 1, 1, false, true),
        _ => return None,
    })
}

impl<'a, 'g> Parser<'a, 'g> {
    pub(crate) fn exprlist(&mut self) -> PResult<Vec<Expr>> {
        let mut v = vec![self.expr()?];
        while self.accept(Tok::Comma)? {
            v.push(self.expr()?);
        }
        Ok(v)
    }
    pub(crate) fn expr(&mut self) -> PResult<Expr> {
        self.subexpr(0)
    }
    fn subexpr(&mut self, limit: u8) -> PResult<Expr> {
        self.enter_level()?;
        let r = self.subexpr_inner(limit);
        self.leave_level();
        r
    }
    fn subexpr_inner(&mut self, limit: u8) -> PResult<Expr> {
        let uop = match self.tok {
            Tok::Not => Some(UnOp::Not),
            Tok::Minus => Some(UnOp::Neg),
            Tok::Tilde => Some(UnOp::BNot),
            Tok::Hash => Some(UnOp::Len),
            _ => None,
        };
        let mut left = if let Some(op) = uop {
            let line = self.line;
            self.advance()?;
            let e = self.subexpr(UNARY_PRIORITY)?;
            match (op, &e) {
                (UnOp::Neg, Expr::Int(i)) => Expr::Int(i.wrapping_neg()),
                (UnOp::Neg, Expr::Num(f)) if *f != 0.0 && !f.is_nan() => Expr::Num(-*f),
                _ => Expr::Un(Box::new(UnE { op, e, line })),
            }
        } else {
            self.simpleexp()?
        };
        let mut chain = 0u32;
        while let Some((op, lp, rp, is_and, is_or)) = binop(self.tok) {
            if lp <= limit {
                break;
            }
            chain += 1;
            if chain > MAX_CHAIN {
                return self.err("expression too long (luamon limit)");
            }
            let line = self.line;
            self.advance()?;
            let right = self.subexpr(rp)?;
            left = if is_and {
                Expr::And(Box::new((left, right)))
            } else if is_or {
                Expr::Or(Box::new((left, right)))
            } else {
                Expr::Bin(Box::new(BinE { op, l: left, r: right, line }))
            };
        }
        Ok(left)
    }
    fn simpleexp(&mut self) -> PResult<Expr> {
        let e = match self.tok {
            Tok::Int(i) => Expr::Int(i),
            Tok::Num(f) => Expr::Num(f),
            Tok::Str(s) => Expr::Str(s),
            Tok::Nil => Expr::Nil,
            Tok::True => Expr::True,
            Tok::False => Expr::False,
            Tok::Ellipsis => {
                if !self.cur().vararg {
                    return self.err("cannot use '...' outside a vararg function");
                }
                Expr::Vararg
            }
            Tok::LBrace => return self.constructor(),
            Tok::Function => {
                let line = self.line;
                self.advance()?;
                let id = self.body(false, line)?;
                return Ok(Expr::Function(id));
            }
            _ => return self.suffixedexp(),
        };
        self.advance()?;
        Ok(e)
    }
    fn primaryexp(&mut self) -> PResult<Expr> {
        match self.tok {
            Tok::Name(n) => {
                let line = self.line;
                self.advance()?;
                self.resolve(n, line)
            }
            Tok::LParen => {
                let line = self.line;
                self.advance()?;
                let e = self.expr()?;
                self.expect_match(Tok::RParen, "(", line)?;
                Ok(match e {
                    Expr::Call(_) | Expr::Method(_) | Expr::Vararg | Expr::Nil | Expr::Local(_) | Expr::Upval(_) | Expr::Global(_) | Expr::Index(_) => Expr::Paren(Box::new(e)),
                    other => other,
                })
            }
            _ => self.err("unexpected symbol"),
        }
    }
    pub(crate) fn suffixedexp(&mut self) -> PResult<Expr> {
        let mut e = self.primaryexp()?;
        let mut chain = 0u32;
        loop {
            chain += 1;
            if chain > MAX_CHAIN {
                return self.err("expression too long (luamon limit)");
            }
            match self.tok {
                Tok::Dot => {
                    let line = self.line;
                    self.advance()?;
                    let key = self.expect_name()?;
                    e = Expr::Index(Box::new(IndexE { obj: e, key: Expr::Str(key), line, dot: true, emitted: self.emitted(line) }));
                }
                Tok::LBracket => {
                    let line = self.line;
                    self.advance()?;
                    let key = self.expr()?;
                    self.expect(Tok::RBracket)?;
                    // `a["name"]` with a literal string key is a field read like `a.name`
                    let dot = matches!(key, Expr::Str(_));
                    e = Expr::Index(Box::new(IndexE { obj: e, key, line, dot, emitted: self.emitted(line) }));
                }
                Tok::Colon => {
                    self.advance()?;
                    let name = self.expect_name()?;
                    let line = self.line;
                    let args = self.funcargs()?;
                    e = Expr::Method(Box::new(MethodE { obj: e, name, args, line }));
                }
                Tok::LParen | Tok::Str(_) | Tok::LBrace => {
                    let line = self.line;
                    let args = self.funcargs()?;
                    e = Expr::Call(Box::new(CallE { func: e, args, line }));
                }
                _ => return Ok(e),
            }
        }
    }
    fn funcargs(&mut self) -> PResult<Vec<Expr>> {
        match self.tok {
            Tok::LParen => {
                let line = self.line;
                self.advance()?;
                if self.tok == Tok::RParen {
                    self.advance()?;
                    return Ok(Vec::new());
                }
                let args = self.exprlist()?;
                self.expect_match(Tok::RParen, "(", line)?;
                Ok(args)
            }
            Tok::LBrace => Ok(vec![self.constructor()?]),
            Tok::Str(s) => {
                self.advance()?;
                Ok(vec![Expr::Str(s)])
            }
            _ => self.err("function arguments expected"),
        }
    }
    fn constructor(&mut self) -> PResult<Expr> {
        let line = self.line;
        self.expect(Tok::LBrace)?;
        let mut items = Vec::new();
        let mut npos = 0u32;
        loop {
            if self.tok == Tok::RBrace {
                break;
            }
            match self.tok {
                Tok::Name(n) => {
                    if self.peek()? == Tok::Assign {
                        self.advance()?;
                        self.advance()?;
                        let v = self.expr()?;
                        items.push(TItem::Named(n, v));
                    } else {
                        items.push(TItem::Pos(self.expr()?));
                        npos += 1;
                    }
                }
                Tok::LBracket => {
                    self.advance()?;
                    let k = self.expr()?;
                    self.expect(Tok::RBracket)?;
                    self.expect(Tok::Assign)?;
                    let v = self.expr()?;
                    items.push(TItem::Keyed(k, v));
                }
                _ => {
                    items.push(TItem::Pos(self.expr()?));
                    npos += 1;
                }
            }
            if !(self.accept(Tok::Comma)? || self.accept(Tok::Semi)?) {
                break;
            }
        }
        self.expect_match(Tok::RBrace, "{", line)?;
        Ok(Expr::Table(Box::new(TableE { items, npos, line })))
    }
}
